"""pyvc.teams - teams of *every* size: the map/fold rule for per-member loops.

A `SymTeam` stands for a team with a symbolic number L >= 1 of members.  It is represented by
one *arbitrary member* g (a real rating object of the scratch class whose mu / sigma are the
Skolem symbols mu_i_k, sg_i_k for an arbitrary index 0 <= k < L) and by the two aggregates the
property talks about, theta_i = sum_k mu_k and s_i = sum_k sigma_k^2, as symbols.

The code under verification iterates a team in three ways, and each is given a derived Hoare
rule that is sound for every L (the induction over L is the meta-argument of the rule; what is
*checked* on every run is that the loop at hand is inside the rule's fragment):

  map      a loop body / lambda applied to the arbitrary member g: whatever it writes to g's own
           attributes is what the loop does to every member (the new value may depend on the
           member's own old values and on loop-invariant values only)
  fold     a numeric variable v with  v_after = v_before + d  where d does not depend on
           v_before nor on any other loop-carried value: after the loop  v = v_entry + sum_k d(k)
  collect  a list that is appended exactly one value per iteration: a sequence of length L

`sum_k d(k)` is closed by *linearity* (A-sum): if d = A + B*mu_k + C*sg_k^2 with A, B, C free of the
member symbols - the decomposition is found by substitution and then **proved** as an exact
normal-form identity by the field prover - then sum_k d(k) = A*L + B*theta + C*s.  Anything
else inside a loop over a SymTeam (a value-dependent two-sided branch in the body, a write
to another object, a recurrence, break/continue, a sum the linearity rule does not close) raises
`UncutLoop`: the for-every-size proof is then *not attempted* on this tree (the obligations for
the listed team sizes still decide) - it is never turned into an alarm.

Statement forms handled (dispatch at run time on the iterable, so a loop can move into a helper,
be renamed or reordered without the sidecar noticing):
  for T in TEAM / enumerate(TEAM) / zip(TEAM-views): BODY        (AST transformer `FoldLoops`)
  [E for T in TEAM], (E for T in TEAM)                           (rewritten to map(lambda T: E, TEAM))
  map(f, TEAM), reduce(add, ..), sum(..), len(TEAM), TEAM[j], list(TEAM-like)   (rebound builtins)
"""
from __future__ import annotations

import ast
import copy as _copy
import functools

import z3

from .symrt import (KFLOAT, KINT, EngineError, SymBool, SymNum, UncutLoop, cur, term)

_MISSING = object()


class Poison:
    """value of a loop temporary after a loop over a symbolic team (the last member's value):
    any *use* means the code depends on it, which the rule does not cover"""

    def __init__(self, why):
        object.__setattr__(self, "_why", why)

    def _die(self, *a, **k):
        raise UncutLoop(f"use of {object.__getattribute__(self, '_why')}")

    def __getattr__(self, n):
        if n.startswith("__") and n.endswith("__"):
            raise AttributeError(n)
        self._die()

    def __deepcopy__(self, memo):
        return self

    def __repr__(self):
        return f"<poison: {object.__getattribute__(self, '_why')}>"

    __add__ = __radd__ = __sub__ = __rsub__ = __mul__ = __rmul__ = __truediv__ = __rtruediv__ = _die
    __pow__ = __rpow__ = __neg__ = __abs__ = __lt__ = __le__ = __gt__ = __ge__ = _die
    __bool__ = __iter__ = __call__ = __getitem__ = __setitem__ = __len__ = __float__ = __int__ = _die


def _free(t):
    """names of the uninterpreted constants of a z3 term"""
    seen, out, stack = set(), set(), [t]
    while stack:
        e = stack.pop()
        if e.get_id() in seen:
            continue
        seen.add(e.get_id())
        if z3.is_const(e) and e.decl().kind() == z3.Z3_OP_UNINTERPRETED:
            out.add(e.decl().name())
        stack.extend(e.children())
    return out


class SymTeam:
    """a team with a symbolic number of members (see the module docstring)"""

    def __init__(self, ctx, rating_cls, index, tag="", sigma_pos=True, L=None):
        """L: a shared size symbol (teams of equal, symbolic size)"""
        self.index = self._pyvc_index = index
        self.tag = tag
        self.L = L if L is not None else z3.Int(f"{tag}L_{index}")
        self.k = z3.Int(f"{tag}k_{index}")
        mu, sg = ctx.real(f"{tag}mu_{index}_k"), ctx.real(f"{tag}sg_{index}_k")
        self.sym = {"mu": mu.t, "sigma": sg.t}
        self.g = rating_cls(mu, sg, name=f"member_k_of_team{index}")
        self.theta, self.s = ctx.real(f"{tag}theta_{index}"), ctx.real(f"{tag}s_{index}")
        self.other_sums = {}
        ctx.assume(self.L >= 1)
        ctx.assume(z3.And(self.k >= 0, self.k < self.L))
        # A-sum: a sum of non-negative addends dominates each addend; L >= 1 members with sigma > 0
        # (predictions allow sigma = 0: then only s >= sigma_k^2 >= 0)
        ctx.assume(sg.t > 0 if sigma_pos else sg.t >= 0)
        ctx.assume(self.s.t >= sg.t * sg.t)
        if sigma_pos:
            ctx.assume(self.s.t > 0)
        self.root = self
        if not hasattr(ctx, "sym_teams") or getattr(ctx, "sym_teams_path", None) is not ctx.pc:
            ctx.sym_teams, ctx.sym_teams_path = [], ctx.pc
        ctx.sym_teams.append(self)

    # -- a second / third arbitrary member: the same terms with fresh Skolem symbols
    def other_member(self, ctx, suffix):
        mu2, sg2 = z3.Real(f"{self.tag}mu_{self.index}_{suffix}"), z3.Real(f"{self.tag}sg_{self.index}_{suffix}")
        k2 = z3.Int(f"{self.tag}k_{self.index}_{suffix}")
        ctx.assume(sg2 > 0)
        ctx.assume(self.s.t >= sg2 * sg2)
        ctx.assume(z3.And(k2 >= 0, k2 < self.L))
        # the member's index as well: a result term that distinguishes members by position (merged
        # paths: If(k < 4, .., ..)) must do so for the second member with *its* position
        return [(self.sym["mu"], mu2), (self.sym["sigma"], sg2), (self.k, k2)]

    def member_names(self):
        return {str(v) for v in self.sym.values()}

    # -- container protocol
    def item(self):
        return self.g

    def teams(self):
        return [self]

    def length(self):
        return self.L

    def __getitem__(self, j):
        v = SymNum.lift(j) if not isinstance(j, SymNum) else j
        if v is not None:
            d = z3.simplify(v.t - z3.ToReal(self.k))
            if z3.is_rational_value(d) and d.numerator_as_long() == 0:
                return self.g
        raise UncutLoop(f"team[{j!r}]: a member other than the current one is addressed")

    def __iter__(self):
        raise UncutLoop("iteration over a team of symbolic size outside the map/fold rule")

    def __len__(self):
        raise UncutLoop("len() of a team of symbolic size in a namespace where len is not rebound")

    def __bool__(self):
        return True          # L >= 1

    def __deepcopy__(self, memo):
        c = _copy.copy(self)
        c.g = _copy.deepcopy(self.g, memo)
        c.root = self.root
        return c

    def __repr__(self):
        return f"<team {self.index} of symbolic size>"

    # -- sums over the members
    def sum_of(self, tmpl):
        """sum over the members of the template (a number built from the arbitrary member)"""
        from . import field
        c = cur()
        v = SymNum.lift(tmpl)
        if v is None:
            raise UncutLoop(f"sum of non-numbers over a team: {tmpl!r}")
        t = v.t
        names = self.member_names()
        if getattr(c, "mode", "R") == "U":
            why = getattr(c, "split_roots", {}).get(id(self.root))
            if why:
                raise UncutLoop(f"sum over team {self.index} after a loop whose body branched on a member's values ({why})")
            return self._usum(t, "usum")
        why = getattr(c, "split_roots", {}).get(id(self.root))
        if why:
            raise UncutLoop(f"sum over team {self.index} after a loop whose body branched on a member's values ({why}): the members no longer share one result term")
        if not (_free(t) & names):
            return SymNum(z3.ToReal(self.L), KINT) * v
        mu, sg = self.sym["mu"], self.sym["sigma"]
        zero, one = z3.RealVal(0), z3.RealVal(1)
        A = z3.substitute(t, (mu, zero), (sg, zero))
        B = z3.substitute(t, (mu, one), (sg, zero)) - A
        C = z3.substitute(t, (mu, zero), (sg, one)) - A
        P = field.Prover(c.hyps(), list(c.facts.values()), timeout_ms=5000)
        try:
            ok = P.prove_eq(t, A + B * mu + C * sg * sg)[0]
        except Exception:  # noqa: BLE001 - outside the normaliser's fragment
            ok = False
        if not ok:
            raise UncutLoop(f"sum over team {self.index} of a term that is not A + B*mu + C*sigma^2 in the member")
        c.events.append(("team-sum", self.index))
        r = z3.simplify(A * z3.ToReal(self.L) + B * self.theta.t + C * self.s.t)
        return SymNum(r, KFLOAT)


def _usum_name(team, kind, *terms):
    import hashlib
    key = "|".join(z3.simplify(t).sexpr() for t in terms)
    return f"{kind}!{team.tag}{team.index}!{hashlib.md5(key.encode()).hexdigest()[:16]}"


def _usum(self, t, kind, *more):
    """U-mode (uninterpreted IEEE operations): the left-to-right float sum over the members is a
    deterministic function of the team and of the member-wise term, and nothing more is known about
    it.  It is a constant named after the *syntactic* template (not an uninterpreted function of the
    template's value: a path condition about the arbitrary member must not equate two sums), so two
    executions agree on it exactly when they sum the same term over the same team."""
    name = _usum_name(self, kind, t, *more)
    c = cur()
    if not hasattr(c, "usum_log") or getattr(c, "usum_log_path", None) is not c.pc:
        c.usum_log, c.usum_log_path = [], c.pc
    c.usum_log.append((name, (t,) + tuple(more)))
    return SymNum(z3.Real(name), KFLOAT)


SymTeam._usum = _usum


class TeamView:
    """another sequence object with the same members as a SymTeam (a result row collected by append)"""

    def __init__(self, team):
        self.team = team
        self.root = team.root

    def item(self):
        return self.team.item()

    def teams(self):
        return self.team.teams()

    def length(self):
        return self.team.length()

    def __getitem__(self, j):
        return self.team[j]

    def __iter__(self):
        raise UncutLoop("iteration over a team of symbolic size outside the map/fold rule")

    def __bool__(self):
        return True

    def __deepcopy__(self, memo):
        return TeamView(_copy.deepcopy(self.team, memo))

    @property
    def g(self):
        return self.team.g


class TeamSeq:
    """[f(member) for member in team]: a sequence of length L given by its template"""

    def __init__(self, src, fn=None, value=_MISSING):
        self.src, self.fn, self.value = src, fn, value
        self.root = src.root

    def item(self):
        if self.value is _MISSING:
            self.value = self.fn(self.src.item())
        return self.value

    def teams(self):
        return self.src.teams()

    def length(self):
        return self.src.length()

    def __iter__(self):
        raise UncutLoop("iteration over a sequence of symbolic length outside the map/fold rule")

    def __bool__(self):
        return True

    def __getitem__(self, j):
        self.src[j]          # only the current index
        return self.item()


class TeamEnum:
    def __init__(self, src, start=0):
        self.src, self.start = src, start
        self.root = src.root

    def item(self):
        k = self.src.teams()[0].k
        return (SymNum(z3.ToReal(k), KINT) + self.start if self.start else SymNum(z3.ToReal(k), KINT), self.src.item())

    def teams(self):
        return self.src.teams()

    def length(self):
        return self.src.length()

    def __iter__(self):
        raise UncutLoop("iteration over enumerate(team) outside the map/fold rule")


class TeamRange:
    """range(len(team)): the indices 0 .. L-1 of a team of symbolic size"""

    def __init__(self, team):
        self.team = team
        self.root = team.root

    def item(self):
        return SymNum(z3.ToReal(self.team.k), KINT)

    def teams(self):
        return [self.team]

    def length(self):
        return self.team.L

    def __iter__(self):
        raise UncutLoop("iteration over range(len(team)) outside the map/fold rule")


class TeamZip:
    def __init__(self, srcs):
        self.srcs = srcs
        self.root = srcs[0].root

    def item(self):
        return tuple(s.item() for s in self.srcs)

    def teams(self):
        out = []
        for s in self.srcs:
            out += s.teams()
        return out

    def length(self):
        return self.srcs[0].length()

    def __iter__(self):
        raise UncutLoop("iteration over zip(team, ..) outside the map/fold rule")


TEAMLIKE = (SymTeam, TeamView, TeamSeq, TeamEnum, TeamZip, TeamRange)


def is_teamlike(x):
    return isinstance(x, TEAMLIKE)


def _root_team(x):
    ts = x.teams()
    return ts[0].root


# ---------------------------------------------------------------- rebound builtins
def t_enumerate(x, start=0):
    if is_teamlike(x):
        return TeamEnum(x, start)
    return enumerate(x, start)


def t_range(*a):
    """range(len(team)) -> the indices of that team; any other range with a symbolic bound is outside the rule"""
    if any(isinstance(x, SymNum) for x in a):
        if len(a) == 1:
            t = z3.simplify(a[0].t)
            for team in getattr(cur(), "sym_teams", ()):
                if z3.eq(t, z3.simplify(z3.ToReal(team.L))):
                    return TeamRange(team)
        try:
            return range(*[x.__index__() if isinstance(x, SymNum) else x for x in a])
        except UncutLoop:
            raise UncutLoop("range() with a symbolic bound that is not the size of one team")
    return range(*a)


def t_zip(*xs, **kw):
    if xs and any(is_teamlike(x) for x in xs):
        if not all(is_teamlike(x) for x in xs) or kw:
            raise UncutLoop("zip of a team with something that is not a view of a team")
        roots = {id(_root_team(x)) for x in xs}
        if len(roots) != 1:
            raise UncutLoop("zip of two different teams of symbolic size")
        return TeamZip(list(xs))
    return zip(*xs, **kw)


def t_map(f, *xs):
    if len(xs) == 1 and is_teamlike(xs[0]):
        return TeamSeq(xs[0], f)
    if any(is_teamlike(x) for x in xs):
        return TeamSeq(t_zip(*xs), lambda tup: f(*tup))
    return map(f, *xs)


def t_filter(f, x):
    if is_teamlike(x):
        raise UncutLoop("filter over a team of symbolic size")
    return filter(f, x)


def _is_addition(g):
    c = cur()
    a, b = c.fresh("add_probe_a"), c.fresh("add_probe_b")
    try:
        r = SymNum.lift(g(a, b))
    except UncutLoop:
        raise
    except Exception:  # noqa: BLE001
        return False
    if r is None:
        return False
    want = a + b                      # the current algebra's addition (fadd in U-mode)
    if z3.eq(z3.simplify(r.t), z3.simplify(want.t)):
        return True
    if getattr(c, "mode", "R") == "U":
        return False
    d = z3.simplify(r.t - (a.t + b.t))
    return z3.is_rational_value(d) and d.numerator_as_long() == 0


def t_reduce(g, seq, *init):
    if is_teamlike(seq):
        if not _is_addition(g):
            raise UncutLoop("reduce over a team with a combiner that is not addition")
        total = _root_team(seq).sum_of(seq.item())
        return (init[0] + total) if init else total
    return functools.reduce(g, seq, *init)


def t_sum(seq, start=0):
    if is_teamlike(seq):
        total = _root_team(seq).sum_of(seq.item())
        if isinstance(start, (int, float)) and not isinstance(start, bool) and start == 0:
            return total
        return start + total
    return sum(seq, start)


def t_list(x=()):
    if isinstance(x, (SymTeam, TeamView)):
        return TeamView(x)
    if isinstance(x, TeamSeq):
        return x
    if is_teamlike(x):
        return TeamSeq(x, lambda v: v)
    from .loops import sym_list
    return sym_list(x)


def t_len(x):
    if is_teamlike(x):
        return SymNum(z3.ToReal(x.length()), KINT)
    from .symrt import sym_len
    return sym_len(x)


def t_isinstance(x, types):
    from .symrt import TYPE_ALIASES, sym_isinstance
    if isinstance(x, (SymTeam, TeamView, TeamSeq)):
        ts = types if isinstance(types, tuple) else (types,)
        ts = tuple(TYPE_ALIASES.get(T, T) if callable(T) and not isinstance(T, type) else T for T in ts)
        return any(T in (list, object) or getattr(T, "__name__", "") in ("Sequence", "Iterable", "Collection", "Sized", "List") for T in ts)
    return sym_isinstance(x, types)


def _comp(kind, fn, it):
    """[ELT for T in IT] / (ELT for T in IT) with one generator and no condition"""
    if is_teamlike(it):
        return TeamSeq(it, fn)
    if kind == "list":
        return [fn(v) for v in it]
    return (fn(v) for v in it)


def _isteam(x):
    return is_teamlike(x)


def _uncut(what):
    raise UncutLoop(what)


# ---------------------------------------------------------------- the fold rule for `for` statements
class _Recorder(list):
    """stands for a list variable inside the body of a fold: only append is inside the rule"""

    def __init__(self, entry):
        super().__init__(entry)
        self.appended = []

    def append(self, x):
        self.appended.append(x)

    def _no(self, *a, **k):
        raise UncutLoop("a list is used inside a loop over a team in a way other than append")

    extend = insert = pop = remove = sort = reverse = clear = __setitem__ = __delitem__ = __iadd__ = _no
    __iter__ = __getitem__ = __len__ = __contains__ = _no


def _snapshot(objs):
    return [(o, dict(o.__dict__)) for o in objs]


class Fold:
    count = 0

    def __init__(self, it, qual, ordinal, loc, names):
        self.ctx = cur()
        self.it = it
        self.key = f"{qual}#{ordinal}"
        self.names = list(names)
        self.entry = {n: loc.get(n, _MISSING) for n in names}
        Fold.count += 1
        self.uid = Fold.count
        self.havoc = {}
        self.teams = it.teams()
        self.self_obj = loc.get("self", None)

    def begin(self):
        c = self.ctx
        vals = []
        for n in self.names:
            v = self.entry[n]
            if isinstance(v, bool) or v is _MISSING or isinstance(v, Poison):
                h = Poison(f"`{n}` before it is assigned in a loop over a team") if (v is _MISSING or isinstance(v, Poison)) else v
            elif isinstance(v, (int, float, SymNum)):
                kind = v.kind if isinstance(v, SymNum) else (KINT if isinstance(v, int) else KFLOAT)
                h = SymNum(z3.Real(f"fold!{self.uid}!{n}"), kind)
                self.havoc[n] = h
            elif type(v) is list:
                h = _Recorder(v)
            else:
                h = v
            vals.append(h)
        self.begin_vals = dict(zip(self.names, vals))
        # heap: the arbitrary member of every team in sight, the model
        watch = []
        root_seen = set()
        for t in self.teams:
            watch.append(t.g)
            root_seen.add(id(t.g))
        self.allowed = set(root_seen)
        for o in getattr(c, "team_heap", ()):      # every other object the harness wants framed
            if id(o) not in root_seen:
                watch.append(o)
        self.snap = _snapshot(watch)
        c.fold_depth = getattr(c, "fold_depth", 0) + 1
        self.forked_outside, c.fold_forked = getattr(c, "fold_forked", None), None
        self.names_outside = set(getattr(c, "fold_member_names", ()) or ())
        mine = set()
        for t in self.teams:
            mine |= t.member_names() | {str(t.k)}
        mine |= {str(h.t) for h in self.havoc.values()}
        c.fold_member_names = self.names_outside | mine
        return tuple(vals) if len(vals) != 1 else (vals[0],)

    def item(self):
        return self.it.item()

    def end(self, loc):
        c = self.ctx
        c.fold_depth -= 1
        c.fold_member_names = self.names_outside
        forked = c.fold_forked
        c.fold_forked = self.forked_outside or forked
        if forked:
            # the body took one side of a branch on the current member's values; other members may take
            # the other side.  Member-wise conclusions stay valid on this path *for the members that take
            # this side* (the other side is its own path); sums over the members do not.
            for t in self.teams:
                c.split_roots[id(t.root)] = forked
        hv_names = {str(h.t) for h in self.havoc.values()}
        # ---- heap effects: only the arbitrary member of the iterated team(s) may change, and its new
        # values may not depend on loop-carried state
        for obj, old in self.snap:
            new = obj.__dict__
            changed = [a for a in set(new) | set(old) if new.get(a, _MISSING) is not old.get(a, _MISSING)]
            if not changed:
                continue
            if id(obj) not in self.allowed:
                raise UncutLoop(f"{self.key}: the loop over a team writes `{changed[0]}` of an object that is not the current member")
            for a in changed:
                v = SymNum.lift(new.get(a))
                if v is not None and (_free(v.t) & hv_names):
                    raise UncutLoop(f"{self.key}: the member's new `{a}` depends on a value carried from the previous members")
        out = []
        for n in self.names:
            b = self.begin_vals[n]
            e = loc.get(n, _MISSING)
            if isinstance(b, _Recorder):
                if e is not b:
                    out.append(Poison(f"`{n}` (rebound inside a loop over a team)"))
                    continue
                if not b.appended:
                    out.append(self.entry[n])
                elif len(b.appended) == 1 and not self.entry[n]:
                    x = b.appended[0]
                    lx = SymNum.lift(x) if isinstance(x, (SymNum, SymBool, int, float)) else None
                    if lx is not None and (_free(lx.t) & hv_names):
                        raise UncutLoop(f"{self.key}: a collected value depends on a value carried from the previous members")
                    hit = [t for t in self.teams if t.g is x]
                    if hit:
                        out.append(TeamView(hit[0]))
                    else:
                        out.append(TeamSeq(self.it, value=x))
                else:
                    raise UncutLoop(f"{self.key}: `{n}` gets {len(b.appended)} appends per member / is not empty at entry")
            elif n in self.havoc:
                a0 = self.havoc[n]
                a1 = SymNum.lift(e) if isinstance(e, (SymNum, SymBool, int, float)) else None
                if e is a0 or (a1 is not None and z3.eq(z3.simplify(a1.t), a0.t)):
                    out.append(self.entry[n])          # not touched
                    continue
                if a1 is None:
                    out.append(Poison(f"`{n}` after a loop over a team"))
                    continue
                if str(a0.t) not in _free(a1.t):
                    out.append(Poison(f"`{n}` after a loop over a team (the last member's value)"))
                    continue
                if getattr(c, "mode", "R") == "U":
                    # v = fadd(v, d): the float fold over the members is a deterministic function of the
                    # entry value, the team and the member-wise term d
                    ch = a1.t.children() if z3.is_app(a1.t) and a1.t.decl().name() == "fadd" else []
                    dd = [x for x in ch if not z3.eq(x, a0.t)]
                    if len(ch) != 2 or len(dd) != 1 or (_free(dd[0]) & hv_names):
                        raise UncutLoop(f"{self.key}: `{n}` is not updated by adding a member-wise term (uninterpreted float arithmetic)")
                    if forked:
                        raise UncutLoop(f"{self.key}: `{n}` accumulates over the members in a loop whose body branches on a member's values ({forked})")
                    ent = SymNum.lift(self.entry[n])
                    out.append(_root_team(self.it)._usum(dd[0], "ufold", ent.t))
                    continue
                d = z3.simplify(z3.substitute(a1.t, (a0.t, z3.RealVal(0))))
                if _free(d) & hv_names:
                    raise UncutLoop(f"{self.key}: `{n}` is updated from another loop-carried value")
                dz = z3.simplify(a1.t - a0.t - d)
                if not (z3.is_rational_value(dz) and dz.numerator_as_long() == 0):
                    from . import field
                    P = field.Prover(c.hyps(), list(c.facts.values()), timeout_ms=5000)
                    if not P.prove_eq(a1.t, a0.t + d)[0]:
                        raise UncutLoop(f"{self.key}: `{n}` is not updated by adding a member-wise term")
                if forked:
                    raise UncutLoop(f"{self.key}: `{n}` accumulates over the members in a loop whose body branches on a member's values ({forked})")
                total = _root_team(self.it).sum_of(SymNum(d, KFLOAT))
                ent = self.entry[n]
                out.append(ent + total)
            else:
                if e is b:
                    out.append(self.entry[n] if self.entry[n] is not _MISSING else Poison(f"`{n}`"))
                else:
                    out.append(Poison(f"`{n}` after a loop over a team (the last member's value)"))
        c.events.append(("fold", self.key))
        return tuple(out) if len(out) != 1 else (out[0],)


def _fold_factory(it, qual, ordinal, loc, names):
    return Fold(it, qual, ordinal, loc, names)


class FoldLoops(ast.NodeTransformer):
    """every `for` statement gets a run-time dispatch: over a team of symbolic size the body is
    executed once for the arbitrary member under the map/fold rule, otherwise the original loop
    runs; single-generator comprehensions / generator expressions become map(lambda, iterable)"""

    def __init__(self):
        self.stack = []
        self.counters = {}
        self.rewritten = []
        self.locals_stack = []

    def visit_ClassDef(self, node):
        self.stack.append(node.name)
        self.generic_visit(node)
        self.stack.pop()
        return node

    def visit_FunctionDef(self, node):
        self.stack.append(node.name)
        self.counters[".".join(self.stack)] = 0
        # the local variables of this function: stored somewhere in it (parameters included)
        loc = {a.arg for a in node.args.posonlyargs + node.args.args + node.args.kwonlyargs}
        for sub in ast.walk(node):
            if isinstance(sub, ast.Name) and isinstance(sub.ctx, (ast.Store, ast.Del)):
                loc.add(sub.id)
        self.locals_stack.append(loc)
        self.generic_visit(node)
        self.locals_stack.pop()
        self.stack.pop()
        return node

    def _comp(self, node, kind):
        self.generic_visit(node)
        if len(node.generators) != 1:
            return node
        g = node.generators[0]
        if g.ifs or g.is_async or not isinstance(g.target, (ast.Name, ast.Tuple)):
            return node
        if isinstance(g.target, ast.Tuple):
            if not all(isinstance(e, ast.Name) for e in g.target.elts):
                return node
            arg = ast.arg("__pyvc_tup")
            unpack = ast.Subscript  # noqa: F841
            # lambda __pyvc_tup: (lambda a, b: ELT)(*__pyvc_tup)
            inner = ast.Lambda(args=ast.arguments(posonlyargs=[], args=[ast.arg(e.id) for e in g.target.elts], kwonlyargs=[], kw_defaults=[], defaults=[]),
                               body=node.elt)
            lam = ast.Lambda(args=ast.arguments(posonlyargs=[], args=[arg], kwonlyargs=[], kw_defaults=[], defaults=[]),
                             body=ast.Call(func=inner, args=[ast.Starred(ast.Name("__pyvc_tup", ast.Load()), ast.Load())], keywords=[]))
        else:
            lam = ast.Lambda(args=ast.arguments(posonlyargs=[], args=[ast.arg(g.target.id)], kwonlyargs=[], kw_defaults=[], defaults=[]), body=node.elt)
        new = ast.Call(func=ast.Name("__pyvc_comp__", ast.Load()), args=[ast.Constant(kind), lam, g.iter], keywords=[])
        return ast.copy_location(new, node)

    def visit_ListComp(self, node):
        return self._comp(node, "list")

    def visit_GeneratorExp(self, node):
        return self._comp(node, "gen")

    def visit_For(self, node):
        q = ".".join(self.stack)
        self.counters[q] = self.counters.get(q, 0) + 1
        k = self.counters[q]
        plain = not node.orelse and not any(isinstance(s, (ast.Break, ast.Continue, ast.Return, ast.Yield, ast.YieldFrom))
                                            for s in ast.walk(ast.Module(body=node.body, type_ignores=[])))
        self.generic_visit(node)
        self.rewritten.append((q, k))
        n = len(self.rewritten)
        it, fl = f"__pyvc_tit_{n}", f"__pyvc_tfl_{n}"
        # the original loop (inner loops carry their own dispatch) for every other iterable
        native = ast.For(target=_copy.deepcopy(node.target), iter=ast.Name(it, ast.Load()), body=_copy.deepcopy(node.body), orelse=node.orelse)
        if not plain:
            team_branch = [ast.Expr(ast.Call(func=ast.Name("__pyvc_uncut__", ast.Load()),
                                             args=[ast.Constant(f"{q}#{k}: break/continue/return/else in a loop over a team")], keywords=[]))]
        else:
            tnames = {x.id for x in ast.walk(node.target) if isinstance(x, ast.Name)}
            names = set()
            for sub in ast.walk(ast.Module(body=node.body, type_ignores=[])):
                if isinstance(sub, ast.Name) and isinstance(sub.ctx, (ast.Store, ast.Del)):
                    names.add(sub.id)
                elif isinstance(sub, ast.Call) and isinstance(sub.func, ast.Attribute) and isinstance(sub.func.value, ast.Name):
                    names.add(sub.func.value.id)
                elif isinstance(sub, (ast.Subscript, ast.Attribute)) and isinstance(sub.ctx, (ast.Store, ast.Del)) and isinstance(sub.value, ast.Name):
                    pass
            fn_locals = self.locals_stack[-1] if self.locals_stack else set()
            names = sorted(x for x in names - tnames if not x.startswith("__pyvc_") and x != "self" and x in fn_locals)

            def tup(ctx):
                return ast.Tuple([ast.Name(x, ctx()) for x in names], ctx())

            def meth(m, *args):
                return ast.Call(func=ast.Attribute(ast.Name(fl, ast.Load()), m, ast.Load()), args=list(args), keywords=[])
            loc = ast.Call(func=ast.Name("locals", ast.Load()), args=[], keywords=[])
            team_branch = [ast.Assign(targets=[ast.Name(fl, ast.Store())],
                                      value=ast.Call(func=ast.Name("__pyvc_fold__", ast.Load()),
                                                     args=[ast.Name(it, ast.Load()), ast.Constant(q), ast.Constant(k), loc,
                                                           ast.Tuple([ast.Constant(x) for x in names], ast.Load())], keywords=[]))]
            if names:
                team_branch.append(ast.Assign(targets=[tup(ast.Store)], value=meth("begin")))
            else:
                team_branch.append(ast.Expr(meth("begin")))
            team_branch.append(ast.Assign(targets=[node.target], value=meth("item")))
            team_branch += node.body
            endcall = meth("end", ast.Call(func=ast.Name("locals", ast.Load()), args=[], keywords=[]))
            team_branch.append(ast.Assign(targets=[tup(ast.Store)], value=endcall) if names else ast.Expr(endcall))
        out = [ast.Assign(targets=[ast.Name(it, ast.Store())], value=node.iter),
               ast.If(test=ast.Call(func=ast.Name("__pyvc_isteam__", ast.Load()), args=[ast.Name(it, ast.Load())], keywords=[]),
                      body=team_branch, orelse=[native])]
        for x in out:
            ast.copy_location(x, node)
            ast.fix_missing_locations(x)
        return out


REBINDS = {
    "enumerate": t_enumerate, "range": t_range, "zip": t_zip, "map": t_map, "filter": t_filter, "reduce": t_reduce, "sum": t_sum,
    "list": t_list, "len": t_len, "isinstance": t_isinstance,
    "__pyvc_comp__": _comp, "__pyvc_isteam__": _isteam, "__pyvc_fold__": _fold_factory, "__pyvc_uncut__": _uncut,
}
from .symrt import TYPE_ALIASES  # noqa: E402
TYPE_ALIASES[t_list] = list


def scratch(model):
    """scratch copies for teams of symbolic size: the run-time dispatch of `for` loops / comprehensions
    and the rebound builtins are installed in the model module *and* in the two shared modules (a helper
    that a clean-up moved into weng_lin/common.py must meet a team the same way)"""
    from . import extract
    trs = {extract.MODEL_FILES[model]: (FoldLoops(),), extract.WL_COMMON: (FoldLoops(),), extract.COMMON: (FoldLoops(),)}
    S = extract.Scratch(model, transforms=trs)
    for ns in [S.ns, S.wl, S.common] + [v for k, v in S.sources.items() if v is not S.wl and v is not S.common]:
        ns.update(REBINDS)
    S.loops_rewritten = [x for tr in trs.values() for x in tr[0].rewritten]
    return S


def guard(*outcomes):
    """an execution on teams of symbolic size that ends in an exception is outside the rule: the proxies of
    a team do not support every operation a list supports (a modulo on the member index, a slice), so an
    exception here may be the engine's, not the code's.  Whether the code raises is decided on the listed
    team sizes; the for-every-size proof is not attempted."""
    for o in outcomes:
        if isinstance(o, tuple) and len(o) == 2 and o[0] == "raise":
            if isinstance(o[1], UncutLoop):
                raise o[1]
            raise UncutLoop(f"the execution on a team of symbolic size raised {type(o[1]).__name__}: {str(o[1])[:120]}")
    return outcomes[0] if len(outcomes) == 1 else outcomes
