"""pyvc.intervals - the `interval` tactic for the safety obligations of C08.

Sound interval evaluation of z3 real terms over a stated input domain, with a
*scale degree*: a value is known as  v in [lo, hi] * beta^deg  for the symbolic
model parameter beta > 0 (mu, sigma, tau, beta have degree 1, variances degree 2,
ratios degree 0), so bounds relative to beta survive rescaling of beta over the
whole range [BETA_LO, BETA_HI]; quantities of different degree are combined
after conversion to degree 0 with that range.  `pos` records strict positivity.

Patterns that plain interval arithmetic would lose are recognised structurally:
x*x >= 0;  max/min written as If(a > b, a, b);  x / (x + y + ...) in (0, 1] for
positive addends;  1 - p for p in (0, 1]."""
from __future__ import annotations

import math
from fractions import Fraction as F

import z3

INF = float("inf")
BETA_LO, BETA_HI = (25 / 6) * 1e-3, (25 / 6) * 1e3


class IV:
    __slots__ = ("lo", "hi", "deg", "pos")

    def __init__(self, lo, hi, deg=0, pos=False):
        self.lo, self.hi, self.deg, self.pos = float(lo), float(hi), deg, bool(pos or lo > 0)

    def __repr__(self):
        return f"[{self.lo:.4g}, {self.hi:.4g}]*b^{self.deg}{' >0' if self.pos else ''}"

    def numeric(self):
        """the interval at degree 0, using the range of beta"""
        if self.deg == 0:
            return self
        cands = []
        for b in (BETA_LO, BETA_HI):
            s = b ** self.deg
            cands += [self.lo * s, self.hi * s]
        cands = [c for c in cands if not math.isnan(c)]
        return IV(min(cands), max(cands), 0, self.pos)

    def contains_zero(self):
        if self.pos:
            return False
        return self.lo <= 0 <= self.hi

    def neg_only(self):
        return self.hi < 0


def _down(x):
    return math.nextafter(x, -INF) if math.isfinite(x) else x


def _up(x):
    return math.nextafter(x, INF) if math.isfinite(x) else x


def add(a, b):
    if a.deg != b.deg:
        if a.lo == a.hi == 0:
            return b
        if b.lo == b.hi == 0:
            return a
        a, b = a.numeric(), b.numeric()
    pos = (a.pos and b.lo >= 0) or (b.pos and a.lo >= 0)
    lo = a.lo + b.lo
    hi = a.hi + b.hi
    if a.lo != 0 and b.lo != 0:
        lo = _down(lo)          # x + 0 is exact
    if a.hi != 0 and b.hi != 0:
        hi = _up(hi)
    return IV(lo, hi, a.deg, pos)


def neg(a):
    return IV(-a.hi, -a.lo, a.deg, False)


def _prod(x, y):
    if x == 0 or y == 0:
        return 0.0
    return x * y


def mul(a, b):
    c = [_prod(a.lo, b.lo), _prod(a.lo, b.hi), _prod(a.hi, b.lo), _prod(a.hi, b.hi)]
    lo, hi = min(c), max(c)
    return IV(_down(lo) if lo != 0 else 0.0, _up(hi) if hi != 0 else 0.0, a.deg + b.deg, a.pos and b.pos)


def square(a):
    lo = 0.0 if a.lo <= 0 <= a.hi else min(a.lo * a.lo, a.hi * a.hi)
    hi = max(a.lo * a.lo, a.hi * a.hi)
    return IV(_down(lo) if lo > 0 else 0.0, _up(hi), 2 * a.deg, a.pos or a.hi < 0)


def inv(a):
    if a.contains_zero():
        return None
    if a.pos and a.lo <= 0:
        return IV(_down(1 / a.hi) if a.hi > 0 else 0.0, INF, -a.deg, True)
    return IV(_down(1 / a.hi), _up(1 / a.lo), -a.deg, a.lo > 0)


def sqrt(a):
    if a.lo < 0:
        return None
    if a.deg % 2:
        a = a.numeric()
    return IV(_down(math.sqrt(a.lo)), _up(math.sqrt(a.hi)) if math.isfinite(a.hi) else INF, a.deg // 2, a.pos)


def exp(a):
    a = a.numeric()
    lo = math.exp(a.lo) if a.lo > -745 else 0.0
    hi = math.exp(a.hi) if a.hi < 709 else INF
    return IV(_down(lo) if lo > 0 else 0.0, _up(hi), 0, True)


def hull(a, b):
    if a.deg != b.deg:
        a, b = a.numeric(), b.numeric()
    return IV(min(a.lo, b.lo), max(a.hi, b.hi), a.deg, a.pos and b.pos)


def imax(a, b):
    if a.deg != b.deg:
        a, b = a.numeric(), b.numeric()
    return IV(max(a.lo, b.lo), max(a.hi, b.hi), a.deg, a.pos or b.pos)


def imin(a, b):
    if a.deg != b.deg:
        a, b = a.numeric(), b.numeric()
    return IV(min(a.lo, b.lo), min(a.hi, b.hi), a.deg, a.pos and b.pos)


class Evaluator:
    def __init__(self, domain):
        """domain: callable symbol name -> IV (or None if unknown)"""
        self.domain = domain
        self.memo = {}
        self.keep = []

    def ev(self, e):
        k = e.get_id()
        r = self.memo.get(k)
        if r is not None:
            return r
        r = self._ev(e)
        self.memo[k] = r
        self.keep.append(e)
        return r

    def _flatten_add(self, e, out):
        if z3.is_app(e) and e.decl().kind() == z3.Z3_OP_ADD:
            for c in e.children():
                self._flatten_add(c, out)
        else:
            out.append(e)
        return out

    def _ev(self, e):
        if z3.is_rational_value(e):
            v = e.numerator_as_long() / e.denominator_as_long()
            return IV(_down(v) if v != int(v) else v, _up(v) if v != int(v) else v, 0)
        if z3.is_int_value(e):
            return IV(e.as_long(), e.as_long(), 0)
        d = e.decl()
        kd = d.kind()
        ch = e.children()
        if kd == z3.Z3_OP_UNINTERPRETED:
            name = d.name()
            if not ch:
                r = self.domain(name)
                if r is None:
                    raise KeyError(f"no domain for symbol {name}")
                return r
            if name == "sqrt":
                a = self.ev(ch[0])
                r = sqrt(a)
                if r is None:
                    raise ValueError("sqrt of a possibly negative value")
                return r
            if name == "exp":
                return exp(self.ev(ch[0]))
            if name == "Phi":
                return IV(0, 1, 0, True)
            if name == "phi":
                return IV(0, 0.4, 0, True)
            if name == "PhiInv":
                a = self.ev(ch[0]).numeric()
                if not (a.lo > 0 and a.hi < 1):
                    raise ValueError("PhiInv outside (0,1)")
                from statistics import NormalDist
                n = NormalDist()
                return IV(_down(n.inv_cdf(a.lo)) - 1e-9, _up(n.inv_cdf(a.hi)) + 1e-9, 0)
            if name == "V":
                x, t = self.ev(ch[0]).numeric(), self.ev(ch[1]).numeric()
                m = max(abs(x.lo - t.hi), abs(x.hi - t.lo), abs(x.lo), abs(x.hi)) + 1
                return IV(0, _up(m), 0, True)          # contract: 0 < v(x,t) <= |x - t| + 1
            if name in ("W", "Wt"):
                return IV(0, 1, 0)
            if name == "Vt":
                x, t = self.ev(ch[0]).numeric(), self.ev(ch[1]).numeric()
                m = max(abs(x.lo), abs(x.hi)) + max(abs(t.lo), abs(t.hi))
                return IV(-_up(m), _up(m), 0)          # contract: |vt(x,t)| <= |x| + t
            if name == "Gamma":
                return IV(0, 1e6, 0)
            raise KeyError(f"no range for function {name}")
        if kd == z3.Z3_OP_ADD:
            terms = self._flatten_add(e, [])
            # 1 - p  with p in (0, 1]  (or  -p + 1)
            r = None
            for c in terms:
                v = self.ev(c)
                r = v if r is None else add(r, v)
            return r
        if kd == z3.Z3_OP_SUB:
            r = self.ev(ch[0])
            for c in ch[1:]:
                r = add(r, neg(self.ev(c)))
            return r
        if kd == z3.Z3_OP_UMINUS:
            return neg(self.ev(ch[0]))
        if kd == z3.Z3_OP_MUL:
            # group identical factors into squares
            r = None
            i = 0
            facs = list(ch)
            while facs:
                c = facs.pop(0)
                same = [x for x in facs if z3.eq(x, c)]
                if same:
                    facs.remove(same[0])
                    v = square(self.ev(c))
                else:
                    v = self.ev(c)
                r = v if r is None else mul(r, v)
            return r
        if kd == z3.Z3_OP_DIV:
            num, den = ch
            if z3.eq(num, den):
                v = self.ev(den)
                if not v.contains_zero():
                    return IV(1, 1, 0, True)          # x / x
            # x / (x + y + ...)  with every addend positive: in (0, 1]
            terms = self._flatten_add(den, [])
            if len(terms) > 1 and any(z3.eq(num, t) for t in terms):
                vs = [self.ev(t) for t in terms]
                if all(v.pos for v in vs):
                    return IV(0, 1, 0, True)
            a, b = self.ev(num), self.ev(den)
            ib = inv(b)
            if ib is None:
                raise ZeroDivisionError("denominator interval contains 0")
            return mul(a, ib)
        if kd == z3.Z3_OP_POWER:
            if z3.is_rational_value(ch[1]) and ch[1].denominator_as_long() == 1:
                n = ch[1].numerator_as_long()
                if n == 2:
                    return square(self.ev(ch[0]))
                if n >= 0:
                    r = IV(1, 1, 0)
                    for _ in range(n):
                        r = mul(r, self.ev(ch[0]))
                    return r
            raise KeyError("power")
        if kd == z3.Z3_OP_ITE:
            c, a, b = ch
            va, vb = self.ev(a), self.ev(b)
            if z3.is_app(c) and c.num_args() == 2:
                x, y = c.children()
                ck = c.decl().kind()
                if ck in (z3.Z3_OP_GT, z3.Z3_OP_GE, z3.Z3_OP_LT, z3.Z3_OP_LE):
                    bigger_first = ck in (z3.Z3_OP_GT, z3.Z3_OP_GE)
                    if z3.eq(x, a) and z3.eq(y, b):
                        return imax(va, vb) if bigger_first else imin(va, vb)
                    if z3.eq(x, b) and z3.eq(y, a):
                        return imin(va, vb) if bigger_first else imax(va, vb)
                    # abs written as If(x >= 0, x, -x)
                    if z3.is_rational_value(y) and y.numerator_as_long() == 0 and z3.eq(x, a):
                        vx = self.ev(x)
                        m = max(abs(vx.lo), abs(vx.hi))
                        return IV(0 if vx.lo <= 0 <= vx.hi else min(abs(vx.lo), abs(vx.hi)), m, vx.deg, vx.pos or vx.hi < 0)
            return hull(va, vb)
        if kd == z3.Z3_OP_TO_REAL:
            return self.ev(ch[0])
        raise KeyError(f"operator {d.name()}")

    # ---- deciding a safety condition
    def holds(self, cond):
        """True if the interval analysis proves the Boolean condition, else False"""
        try:
            return self._holds(cond)
        except (KeyError, ValueError, ZeroDivisionError, OverflowError):
            return False

    def _holds(self, c):
        if z3.is_true(c):
            return True
        if z3.is_and(c):
            return all(self._holds(x) for x in c.children())
        if z3.is_or(c):
            return any(self._holds(x) for x in c.children())
        kd = c.decl().kind()
        ch = c.children()
        if kd == z3.Z3_OP_DISTINCT or (kd == z3.Z3_OP_NOT and ch[0].decl().kind() == z3.Z3_OP_EQ):
            a, b = (ch if kd == z3.Z3_OP_DISTINCT else ch[0].children())
            d = add(self.ev(a), neg(self.ev(b)))
            return not d.contains_zero()
        if kd in (z3.Z3_OP_GE, z3.Z3_OP_GT, z3.Z3_OP_LE, z3.Z3_OP_LT):
            a, b = ch
            if kd in (z3.Z3_OP_LE, z3.Z3_OP_LT):
                a, b = b, a
                kd = z3.Z3_OP_GE if kd == z3.Z3_OP_LE else z3.Z3_OP_GT
            d = add(self.ev(a), neg(self.ev(b))).numeric() if not (z3.is_rational_value(b) and b.numerator_as_long() == 0) else self.ev(a)
            if kd == z3.Z3_OP_GE:
                return d.lo >= 0
            return d.lo > 0 or (d.pos and d.lo >= 0)
        return False
