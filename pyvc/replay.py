"""Replay a failed obligation on the unmodified code (no z3 needed).

usage: /venv/bin/python pyvc/replay.py <replay.json> [--search]

exit 1 + 'REPRODUCED ...' if the recorded (or, with --search, a nearby) input
makes the real code violate the obligation's clause; exit 0 otherwise.
With --search a found input is written back into the replay file.
"""
import json
import os
import sys

HERE = os.path.dirname(os.path.abspath(__file__))
sys.path.insert(0, os.path.dirname(HERE))


def batch(path):
    """--batch file: JSON list of {replay:recipe, seed:int}; prints a JSON list of booleans."""
    with open(path) as fh:
        items = json.load(fh)
    repo = os.environ.get("PYVC_REPO") or "/repo"
    sys.path.insert(0, repo)
    from pyvc import concrete
    out = []
    for it in items:
        rp = it["replay"]
        ok = False
        try:
            chk = concrete.CHECKERS.get(rp["kind"])
            if chk is not None:
                ok, _ = chk(rp)
                if not ok and rp["kind"] in concrete.SEARCHERS:
                    ok = concrete.SEARCHERS[rp["kind"]](rp, int(it.get("seed", 0))) is not None
        except Exception as e:  # noqa: BLE001
            ok = False
        out.append(bool(ok))
    print("BATCH " + json.dumps(out))
    return 0


def main():
    if sys.argv[1] == "--batch":
        return batch(sys.argv[2])
    path = sys.argv[1]
    search = "--search" in sys.argv[2:]
    with open(path) as fh:
        data = json.load(fh)
    repo = os.environ.get("PYVC_REPO") or data.get("repo") or "/repo"
    os.environ["PYVC_REPO"] = repo
    sys.path.insert(0, repo)
    from pyvc import concrete
    rp = data.get("replay")
    if not rp:
        print(f"NO-REPLAY-RECIPE obligation={data.get('obligation')} verdict={data.get('verdict')}")
        print(data.get("solver_note", ""))
        return 0
    chk = concrete.CHECKERS.get(rp["kind"])
    if chk is None:
        print(f"unknown replay kind {rp['kind']}")
        return 0
    try:
        bad, msg = chk(rp)
    except Exception as e:  # noqa: BLE001
        # an exception out of the real code where the clause promises a value reproduces the
        # failure; one raised by the checker itself is a replay crash (exit 3, never a verdict)
        import traceback
        tb = traceback.extract_tb(e.__traceback__)
        inrepo = any("openskill" in (fr.filename or "") or "statistics" in (fr.filename or "") for fr in tb)
        if inrepo:
            bad, msg = True, f"the real code raised {type(e).__name__}: {e} (at {tb[-1].filename}:{tb[-1].lineno})"
        else:
            bad, msg = False, f"the recipe could not be evaluated at the solver's model ({type(e).__name__}: {e})"
    if bad:
        print(f"REPRODUCED obligation={data['obligation']}: {msg}")
        return 1
    print(f"not reproduced at the solver's model: {msg}")
    if search:
        srch = concrete.SEARCHERS.get(rp["kind"])
        if srch is not None:
            found = srch(rp, int(data.get("seed", 0)))
            if found is not None:
                rp2, msg2 = found
                data["replay_from_model"] = rp
                data["replay"] = rp2
                with open(path, "w") as fh:
                    json.dump(data, fh, indent=1, default=str)
                print(f"REPRODUCED obligation={data['obligation']} (input found by the seeded search): {msg2}")
                return 1
            print("seeded search found no failing input")
    return 0


if __name__ == "__main__":
    try:
        code = main()
    except SystemExit:
        raise
    except BaseException:  # noqa: BLE001 - a crash of the replay is not a reproduction
        import traceback
        traceback.print_exc()
        code = 3
    sys.exit(code)
