"""Builders for symbolic games/models and the standard callee stubs."""
from __future__ import annotations

import z3

from .symrt import (KFLOAT, KINT, R, EngineError, SymBool, SymNum, cur, term)


def mk_model(ctx, S, tag="m", limit_sigma=False, gamma=None, assume_domain=True, tau=None, **kw):
    """Model instance whose numeric parameters are symbols <tag>_mu0, _sigma0,
    _beta, _kappa, _tau."""
    p = {
        "mu": ctx.real(f"{tag}_mu0"),
        "sigma": ctx.real(f"{tag}_sigma0"),
        "beta": ctx.real(f"{tag}_beta"),
        "kappa": ctx.real(f"{tag}_kappa"),
        "tau": ctx.real(f"{tag}_tau") if tau is None else tau,
    }
    p.update(kw)
    if assume_domain:
        ctx.assume(term(p["beta"]) > 0)
        ctx.assume(term(p["kappa"]) > 0)
        ctx.assume(term(p["tau"]) >= 0)
        ctx.assume(term(p["sigma"]) > 0)
    args = dict(p)
    args["limit_sigma"] = limit_sigma
    if gamma is not None:
        args["gamma"] = gamma
    return S.cls(**args), p


def mk_teams(ctx, S, sizes, tag="", names=True, sigma_pos=True, cls=None):
    """teams[i][j] = rating with symbols <tag>mu_i_j, <tag>sg_i_j."""
    cls = cls or S.rating_cls
    teams = []
    for i, n in enumerate(sizes):
        team = []
        for j in range(n):
            mu = ctx.real(f"{tag}mu_{i}_{j}")
            sg = ctx.real(f"{tag}sg_{i}_{j}")
            if sigma_pos:
                ctx.assume(sg.t > 0)
            team.append(cls(mu, sg, name=(f"player{i}_{j}" if names else None)))
        teams.append(team)
    return teams


def snapshot(teams, model=None):
    """Heap snapshot: attribute objects of every rating and of the model."""
    snap = {"ratings": [], "model": None}
    for i, team in enumerate(teams):
        for j, p in enumerate(team):
            snap["ratings"].append((p, dict(p.__dict__)))
    if model is not None:
        snap["model"] = (model, dict(model.__dict__))
    return snap


def same_value(a, b):
    """z3 Bool / Python bool: are two attribute values the same?"""
    if a is b:
        return True
    if isinstance(a, SymNum) and isinstance(b, SymNum):
        same_kind = (a.kind is b.kind) or (isinstance(a.kind, int) and isinstance(b.kind, int) and a.kind == b.kind) \
            or (not isinstance(a.kind, int) and not isinstance(b.kind, int) and a.kind is not None and b.kind is not None and z3.eq(a.kind, b.kind))
        if z3.eq(a.t, b.t):
            return bool(same_kind)
        return z3.And(a.t == b.t, z3.BoolVal(bool(same_kind)))
    if isinstance(a, SymNum) or isinstance(b, SymNum):
        la, lb = SymNum.lift(a), SymNum.lift(b)
        if la is None or lb is None:
            return False
        return z3.And(la.t == lb.t, z3.BoolVal(type(a) is type(b) or (isinstance(la.kind, int) and la.kind == lb.kind)))
    if type(a) is not type(b):
        return False
    try:
        return bool(a == b) and (a is b or isinstance(a, (int, float, str, bool, type(None))))
    except Exception:  # noqa: BLE001
        return False


def heap_unchanged(snap, what=("ratings", "model")):
    """z3 Bool: every attribute of every snapshotted object holds the same
    value as at snapshot time (and no attribute was added or removed)."""
    conj = []
    items = []
    if "ratings" in what:
        items += snap["ratings"]
    if "model" in what and snap["model"] is not None:
        items.append(snap["model"])
    for obj, old in items:
        new = obj.__dict__
        if set(new) != set(old):
            return z3.BoolVal(False)
        for k, v in old.items():
            r = same_value(new[k], v)
            if r is False:
                return z3.BoolVal(False)
            if r is not True:
                conj.append(r)
    return z3.And(conj) if conj else z3.BoolVal(True)


# ---------------------------------------------------------------- stubs
def uf(name, arity):
    return z3.Function(name, *([R] * (arity + 1)))


def stub_gauss_uninterpreted(S):
    """U-mode stand-ins for phi_major/phi_minor/phi_major_inverse/v/w/vt/wt:
    deterministic functions of their arguments (their purity is the frame
    contract verified by the C14 syntactic scan; their values are C17's
    business)."""
    for name, ar in (("phi_major", 1), ("phi_minor", 1), ("phi_major_inverse", 1),
                     ("v", 2), ("w", 2), ("vt", 2), ("wt", 2)):
        f = uf("U_" + name, ar)

        def g(*a, _f=f):
            return SymNum(_f(*[term(x) for x in a]), KFLOAT)
        S.stub_wl(name, g)


def stub_phi_real(S):
    """R-mode contracts of phi_major / phi_minor / phi_major_inverse: they
    return Phi(x), phi(x), PhiInv(p) (C17 verifies the bodies)."""
    def phi_major(x):
        return cur().alg.fn("Phi", SymNum.lift(x))

    def phi_minor(x):
        return cur().alg.fn("phi", SymNum.lift(x))

    def phi_major_inverse(p):
        return cur().alg.fn("PhiInv", SymNum.lift(p))
    S.stub_wl("phi_major", phi_major)
    S.stub_wl("phi_minor", phi_minor)
    S.stub_wl("phi_major_inverse", phi_major_inverse)


def flat_terms(teams):
    out = []
    for t in teams:
        for p in t:
            out.append(term(p.mu))
            out.append(term(p.sigma))
    return out


# ---------------------------------------------------------------- replay encoding
def enc_game(md, sizes, tag=""):
    """[[[mu, sigma], ...], ...] from a solver model (symbols <tag>mu_i_j / <tag>sg_i_j)."""
    from .props.util import enc_model
    return [[[enc_model(md, f"{tag}mu_{i}_{j}", KFLOAT), enc_model(md, f"{tag}sg_{i}_{j}", KFLOAT)]
             for j in range(n)] for i, n in enumerate(sizes)]


def enc_params(md, tag="m"):
    from .props.util import enc_model
    return {k: enc_model(md, f"{tag}_{s}", KFLOAT) for k, s in
            (("mu", "mu0"), ("sigma", "sigma0"), ("beta", "beta"), ("kappa", "kappa"), ("tau", "tau"))}


def result_terms(res):
    """[(i, j, mu_term, sigma_term)] of a rate() result."""
    out = []
    for i, team in enumerate(res):
        if hasattr(team, "teams") and hasattr(team, "g"):
            # a team of symbolic size (pyvc/teams.py): its arbitrary member
            out.append((i, "k", term(team.g.mu), term(team.g.sigma)))
            continue
        for j, p in enumerate(team):
            out.append((i, j, term(p.mu), term(p.sigma)))
    return out


def terms_equal(a, b):
    """Python True if syntactically identical, else the z3 equality."""
    if z3.eq(a, b):
        return True
    return a == b


def conj(parts):
    ps = [p for p in parts if p is not True]
    if any(p is False for p in ps):
        return z3.BoolVal(False)
    if not ps:
        return z3.BoolVal(True)
    return z3.And(ps)


# ---------------------------------------------------------------- generic result comparison
def flatten(x, out=None):
    """Flatten a rate()/predict_*() result into a list of leaves: z3 terms for
    symbolic numbers, Python values otherwise; ratings contribute mu, sigma."""
    if out is None:
        out = []
    if hasattr(x, "teams") and hasattr(x, "g") and not isinstance(x, (list, tuple)):
        out.append(("team", getattr(x.teams()[0].root, "index", None)))
        flatten(x.g, out)
    elif isinstance(x, (list, tuple)):
        out.append(("seq", len(x)))
        for y in x:
            flatten(y, out)
    elif isinstance(x, SymNum):
        out.append(x.t)
    elif isinstance(x, SymBool):
        out.append(x.e)
    elif hasattr(x, "mu") and hasattr(x, "sigma"):
        flatten(x.mu, out)
        flatten(x.sigma, out)
    elif isinstance(x, (int, float, bool)) and not isinstance(x, SymNum):
        out.append(("py", type(x).__name__, x))
    else:
        out.append(("obj", repr(x)))
    return out


def compare_outcomes(ra, rb):
    """z3 Bool: two outcomes of symrt.call are the same observable result."""
    if ra[0] != rb[0]:
        return z3.BoolVal(False)
    if ra[0] == "raise":
        return z3.BoolVal(type(ra[1]) is type(rb[1]))
    fa, fb = flatten(ra[1]), flatten(rb[1])
    if len(fa) != len(fb):
        return z3.BoolVal(False)
    parts = []
    for a, b in zip(fa, fb):
        za, zb = isinstance(a, z3.ExprRef), isinstance(b, z3.ExprRef)
        if za and zb:
            parts.append(terms_equal(a, b))
        elif za or zb:
            t, p = (a, b) if za else (b, a)
            if p[0] == "py":
                from .symrt import realval
                parts.append(t == realval(p[2]))
            else:
                return z3.BoolVal(False)
        else:
            if a != b:
                return z3.BoolVal(False)
    return conj(parts)


def free_symbols(terms):
    """names of the uninterpreted constants occurring in z3 terms"""
    seen, out = set(), set()
    stack = [t for t in terms if isinstance(t, z3.ExprRef)]
    while stack:
        e = stack.pop()
        if e.get_id() in seen:
            continue
        seen.add(e.get_id())
        if z3.is_const(e) and e.decl().kind() == z3.Z3_OP_UNINTERPRETED:
            out.add(e.decl().name())
        stack.extend(e.children())
    return out


class Tainted:
    """Data descriptor installed on a scratch rating class for `id` / `name`:
    the value lives in the instance __dict__ as before; every read is recorded
    with the name of the reading function."""

    def __init__(self, attr, log):
        self.attr = attr
        self.log = log

    def __get__(self, obj, owner=None):
        if obj is None:
            return self
        import sys
        fr = sys._getframe(1)
        self.log.append((self.attr, fr.f_code.co_name))
        try:
            return obj.__dict__[self.attr]
        except KeyError:
            raise AttributeError(self.attr) from None

    def __set__(self, obj, value):
        obj.__dict__[self.attr] = value


def install_taint(S):
    log = []
    S.rating_cls.id = Tainted("id", log)
    S.rating_cls.name = Tainted("name", log)
    return log


# ---------------------------------------------------------------- R-mode contracts of v, w, vt, wt
_V = z3.Function("V", R, R, R)
_W = z3.Function("W", R, R, R)
_Vt = z3.Function("Vt", R, R, R)
_Wt = z3.Function("Wt", R, R, R)
TM_UF = {"v": _V, "w": _W, "vt": _Vt, "wt": _Wt}


def tm_contract_functions():
    """R-mode stand-ins for the exported v, w, vt, wt: fresh applications of
    V, W, Vt, Wt constrained by the value clauses of their contracts (C17
    verifies the bodies against them):  v > 0;  0 <= w <= 1;  0 <= wt <= 1.
    The relational clauses (v >= vt >= -v(-x); |vt(x,t) + vt(-x,t)| <= 2t) are
    instantiated by the obligations that use them."""
    def mk(name):
        f = TM_UF[name]

        def g(x, t):
            c = cur()
            a = f(term(x), term(t))
            if name == "v":
                c.fact(("V", a), a > 0, "sign", a)
            elif name in ("w", "wt"):
                c.fact((name, a), z3.And(a >= 0, a <= 1), "sign", a)
            c.apps.setdefault(name, {})[a.get_id()] = (a, term(x), term(t))
            return SymNum(a, KFLOAT)
        return g
    return {n: mk(n) for n in TM_UF}


def stub_tm_real(S):
    fs = tm_contract_functions()
    for n, f in fs.items():
        S.stub_wl(n, f)
    return fs


class SymX:
    """symbolic instantiation of the spec's numeric interface"""
    from fractions import Fraction as _F
    half = _F(1, 2)

    def __init__(self, tm=None):
        from .symrt import SYM_MATH, sym_max, sym_min
        self.sqrt, self.exp = SYM_MATH.sqrt, SYM_MATH.exp
        self.max, self.min = sym_max, sym_min
        tm = tm or tm_contract_functions()
        self.v, self.w, self.vt, self.wt = tm["v"], tm["w"], tm["vt"], tm["wt"]


_Gamma = z3.Function("Gamma", R, R, R, R, R, R, R)


def uninterpreted_gamma(ctx_getter=cur):
    """a custom gamma callback: an arbitrary function of its arguments with
    value >= 0 and no side effect (A-gamma).  The team argument enters through
    the team's index."""
    def code_side(c, k, mu, sigma_squared, team, rank, /):
        # positional-only: the callback contract is six positional arguments; a
        # model that calls it by keyword breaks user callbacks with their own names
        # `team` is the list of rating objects of team i: identify it by index
        idx = getattr(team, "_pyvc_index", None)
        if idx is None:
            idx = code_side.index_of(team)
        a = _Gamma(term(c), term(k), term(mu), term(sigma_squared), z3.RealVal(idx), term(rank))
        ctx_getter().fact(("Gamma", a), a >= 0, "sign", a)
        return SymNum(a, KFLOAT)

    def spec_side(c, n, theta_i, s_i, i, rank_i):
        a = _Gamma(term(c), term(n), term(theta_i), term(s_i), z3.RealVal(i), term(rank_i))
        ctx_getter().fact(("Gamma", a), a >= 0, "sign", a)
        return SymNum(a, KFLOAT)
    code_side.teams = None

    def index_of(team):
        for i, t in enumerate(code_side.teams):
            if t is team:
                return i
        raise EngineError("gamma called with an unknown team object")
    code_side.index_of = index_of
    return code_side, spec_side
