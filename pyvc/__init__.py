"""pyvc - verification-condition generator for the openskill.py sources.

The real function bodies under $PYVC_REPO (default /repo) are compiled from
their own AST and executed by CPython on z3-backed proxy values; callees are
replaced by contract stubs; obligations are discharged by z3 / cvc5.
See /verif/DESIGN.md.
"""
import os

REPO = os.environ.get("PYVC_REPO", "/repo")
VERIF = os.path.dirname(os.path.dirname(os.path.abspath(__file__)))
