"""pyvc.driver - runs a property's work units, replays failures, writes evidence."""
from __future__ import annotations

import concurrent.futures as cf
import json
import multiprocessing as mp
import os
import re
import subprocess
import sys
import time
import traceback

from . import REPO, VERIF

REPLAY_PY = os.environ.get("PYVC_REPLAY_PY", "/venv/bin/python")
NPROC = int(os.environ.get("PYVC_NPROC", "16"))

BASE_ASSUMPTIONS = [
    "A-py: CPython semantics of every construct the engine does not re-implement (they run natively under python3-vt 3.11; the tests run 3.12)",
    "pyvc itself (proxy values, path explorer, stubs, loop-cut rule, tactics) is trusted; guarded by canaries, vacuity checks and the CPython cross-check on every run",
    "z3 5.1.0 / cvc5 1.0.3 soundness",
]


def rec(name, verdict, backend="", t=0.0, kind="post", fn="", shape="", mode="",
        unbounded=False, replay=None, note="", smt=None):
    return {"name": name, "verdict": verdict, "backend": backend, "time": round(t, 4),
            "kind": kind, "fn": fn, "shape": shape, "mode": mode, "unbounded": unbounded,
            "replay": replay, "note": note, "smt": smt}


def rec_of(obl, fn="", shape="", mode="", unbounded=False, replay=None, with_smt=False):
    smt = None
    if with_smt:
        try:
            import z3
            s = z3.Solver()
            from .tactics import select_facts
            for h in obl.hyps + select_facts(obl):
                s.add(h)
            s.add(z3.Not(obl.goal))
            smt = s.to_smt2()
            if len(smt) > 4000:
                smt = smt[:4000] + "\n; ... truncated"
        except Exception:  # noqa: BLE001
            smt = None
    return rec(obl.name, obl.verdict, obl.backend or "", obl.time, obl.kind, fn, shape, mode,
               unbounded, replay, obl.note, smt)


UNIT_TIMEOUT_S = int(os.environ.get("PYVC_UNIT_TIMEOUT_S", "0") or 0)


class UnitTimeout(BaseException):
    pass


def _run_unit(args):
    modname, fname, uargs = args
    import importlib
    import signal
    t0 = time.time()
    limit = _unit_limit()

    def _alarm(signum, frame):
        raise UnitTimeout(f"work unit exceeded {limit} s (engine limit, no verdict)")
    try:
        signal.signal(signal.SIGALRM, _alarm)
        signal.alarm(limit)
    except (ValueError, AttributeError):
        pass
    try:
        mod = importlib.import_module(modname)
        out = getattr(mod, fname)(*uargs)
        return {"ok": True, "records": out, "unit": f"{fname}{uargs}", "wall": time.time() - t0}
    except BaseException as e:  # noqa: BLE001
        return {"ok": False, "error": f"{type(e).__name__}: {e}", "trace": traceback.format_exc(),
                "unit": f"{fname}{uargs}", "wall": time.time() - t0}
    finally:
        try:
            signal.alarm(0)
        except (ValueError, AttributeError):
            pass


def _unit_limit():
    return UNIT_TIMEOUT_S or (420 if os.environ.get("VERIF_TIER", "quick") != "thorough" and "--tier thorough" not in " ".join(sys.argv) else 3600)


def _child(conn, job):
    try:
        conn.send(_run_unit(job))
    except BaseException as e:  # noqa: BLE001
        try:
            conn.send({"ok": False, "error": f"{type(e).__name__}: {e}", "trace": traceback.format_exc(), "unit": f"{job[1]}{job[2]}", "wall": 0.0})
        except Exception:  # noqa: BLE001
            pass
    finally:
        conn.close()


def run_units(modname, units, nproc=None):
    """units: list of (function_name, args).  Returns (records, errors, unit_walls).
    Every unit runs in its own forked process; a unit that exceeds the wall-clock limit is killed (a
    solver or term operation inside native code cannot be interrupted from Python) and reported as an
    engine error - a limit of the engine, never a verdict."""
    nproc = nproc or NPROC
    jobs = [(modname, f, a) for (f, a) in units]
    results = [None] * len(jobs)
    if nproc <= 1 or len(jobs) <= 1:
        results = [_run_unit(j) for j in jobs]
    else:
        ctx = mp.get_context("fork")
        limit = _unit_limit() + 30          # the in-process alarm comes first when it can
        pending = list(range(len(jobs)))
        running = {}                        # index -> (process, connection, start)
        while pending or running:
            while pending and len(running) < nproc:
                i = pending.pop(0)
                rd, wr = ctx.Pipe(duplex=False)
                p = ctx.Process(target=_child, args=(wr, jobs[i]), daemon=True)
                p.start()
                wr.close()
                running[i] = (p, rd, time.time())
            done = []
            for i, (p, rd, t0) in running.items():
                try:
                    if rd.poll(0):
                        results[i] = rd.recv()
                        done.append(i)
                        continue
                except (EOFError, OSError):
                    results[i] = {"ok": False, "error": "work unit process ended without a result", "trace": "", "unit": f"{jobs[i][1]}{jobs[i][2]}", "wall": time.time() - t0}
                    done.append(i)
                    continue
                if not p.is_alive():
                    try:
                        results[i] = rd.recv() if rd.poll(0.2) else None
                    except (EOFError, OSError):
                        results[i] = None
                    if results[i] is None:
                        results[i] = {"ok": False, "error": f"work unit process died (exit code {p.exitcode})", "trace": "", "unit": f"{jobs[i][1]}{jobs[i][2]}", "wall": time.time() - t0}
                    done.append(i)
                elif time.time() - t0 > limit:
                    p.terminate()
                    p.join(5)
                    if p.is_alive():
                        p.kill()
                    results[i] = {"ok": False, "error": f"UnitTimeout: work unit exceeded {limit} s and was killed (engine limit, no verdict)", "trace": "",
                                  "unit": f"{jobs[i][1]}{jobs[i][2]}", "wall": time.time() - t0}
                    done.append(i)
            for i in done:
                p, rd, _t0 = running.pop(i)
                try:
                    rd.close()
                except OSError:
                    pass
                p.join(1)
            if not done:
                time.sleep(0.02)
    records, errors, walls = [], [], []
    for r in results:
        walls.append((r["unit"], round(r["wall"], 2)))
        if r["ok"]:
            records.extend(r["records"])
        else:
            errors.append(r)
    return records, errors, walls


def load_known():
    p = os.path.join(VERIF, "KNOWN_FINDINGS.json")
    if not os.path.exists(p):
        return []
    with open(p) as fh:
        return json.load(fh).get("findings", [])


def _safe(s):
    return re.sub(r"[^A-Za-z0-9_.@-]+", "_", s)[:150]


def replay_file(prop, r):
    d = os.path.join(VERIF, "replays") if os.path.realpath(REPO) == "/repo" else os.environ.get("PYVC_REPLAY_DIR", "/tmp/pyvc_replays_scratch")
    os.makedirs(d, exist_ok=True)
    return os.path.join(d, f"{prop}-{_safe(family(r['name']))}.json")


def run_replay(path, search=True):
    """Replays on the real code under the test interpreter.
    Returns (reproduced, output)."""
    env = dict(os.environ)
    env["PYVC_REPO"] = REPO
    cmd = [REPLAY_PY, os.path.join(VERIF, "pyvc", "replay.py"), path]
    if search:
        cmd.append("--search")
    try:
        p = subprocess.run(cmd, capture_output=True, text=True, timeout=600, env=env, cwd=VERIF)
    except subprocess.TimeoutExpired:
        return False, "replay timed out"
    return p.returncode == 1, (p.stdout + p.stderr).strip()


def replay_batch(recs, seed):
    """Replay refuted canaries on the real code in one subprocess; returns the
    number that reproduced."""
    if not recs:
        return 0
    import tempfile
    fd, path = tempfile.mkstemp(suffix=".json", prefix="pyvc_batch_")
    try:
        with os.fdopen(fd, "w") as fh:
            json.dump([{"replay": r["replay"], "seed": seed} for r in recs], fh, default=str)
        env = dict(os.environ)
        env["PYVC_REPO"] = REPO
        p = subprocess.run([REPLAY_PY, os.path.join(VERIF, "pyvc", "replay.py"), "--batch", path],
                           capture_output=True, text=True, timeout=900, env=env, cwd=VERIF)
        for line in p.stdout.splitlines():
            if line.startswith("BATCH "):
                return sum(json.loads(line[6:]))
        return 0
    except Exception:  # noqa: BLE001
        return 0
    finally:
        try:
            os.unlink(path)
        except OSError:
            pass


def family(name):
    """Obligation family: the name without its @shape suffix."""
    return re.sub(r"\[[^\]]*\]", "", name.split("@")[0])


def finish(prop, tier, seed, level, records, errors, walls, t0, *, functions, assumptions,
           explanation, technique_note="", shapes=None, exhaustive=False, extra=None,
           checker_cmd=""):
    """Classify results, replay failures, write evidence, print verdict lines.
    Returns the exit code."""
    known = [k for k in load_known() if k.get("property") == prop and k.get("status") == "known"]
    normal = [r for r in records if r["kind"] not in ("canary", "vacuity", "note")]
    notes = [r for r in records if r["kind"] == "note"]
    canaries = [r for r in records if r["kind"] == "canary"]
    vac = [r for r in records if r["kind"] == "vacuity"]
    engine_errors = list(errors)
    # canaries must be refuted
    canary_ok = 0
    for c in canaries:
        if c["verdict"] == "refuted":
            canary_ok += 1
        else:
            engine_errors.append({"unit": c["name"], "error": f"canary not refuted (verdict {c['verdict']})", "trace": ""})
    canary_replayed = replay_batch([c for c in canaries if c["verdict"] == "refuted" and c["replay"]], seed)
    for v in vac:
        if v["verdict"] != "discharged":
            engine_errors.append({"unit": v["name"], "error": "vacuity check failed: hypotheses unsatisfiable or undecided", "trace": ""})
    if not normal and not engine_errors:
        engine_errors.append({"unit": prop, "error": "zero obligations generated", "trace": ""})

    failed = [r for r in normal if r["verdict"] != "discharged"]
    violations = []      # (family, path, reproduced, out)
    known_hits = []
    seen_fam = {}
    for r in failed:
        fam = family(r["name"])
        if fam in seen_fam:
            seen_fam[fam]["count"] += 1
            seen_fam[fam]["others"].append(r)
            continue
        entry = {"count": 1, "rec": r, "others": []}
        seen_fam[fam] = entry
        path = replay_file(prop, r)
        payload = {"property": prop, "obligation": r["name"], "verdict": r["verdict"],
                   "backend": r["backend"], "solver_note": r["note"], "shape": r["shape"],
                   "fn": r["fn"], "replay": r["replay"], "smt": r.get("smt"), "seed": seed,
                   "repo": REPO}
        with open(path, "w") as fh:
            json.dump(payload, fh, indent=1, default=str)
        reproduced, out = (False, "no replay recipe for this obligation")
        if r["replay"] is not None:
            reproduced, out = run_replay(path)
        entry.update(path=path, reproduced=reproduced, out=out)
        # known finding?
        hit = None
        for k in known:
            if re.search(k["obligation_pattern"], r["name"]):
                hit = k
                break
        if hit is not None:
            known_hits.append((hit, r))
        else:
            violations.append(entry)

    # a family whose representative did not replay: try members of other shapes
    # (the defect may need more teams / players than the first shape has)
    for e in violations:
        if e["reproduced"]:
            continue
        tried = {e["rec"]["shape"]}
        for r in reversed(e["others"]):
            if len(tried) >= 4:
                break
            if r["shape"] in tried or r["replay"] is None:
                continue
            tried.add(r["shape"])
            payload = {"property": prop, "obligation": r["name"], "verdict": r["verdict"],
                       "backend": r["backend"], "solver_note": r["note"], "shape": r["shape"],
                       "fn": r["fn"], "replay": r["replay"], "smt": r.get("smt"), "seed": seed,
                       "repo": REPO}
            alt = e["path"][:-5] + ".alt.json"
            with open(alt, "w") as fh:
                json.dump(payload, fh, indent=1, default=str)
            ok, out = run_replay(alt)
            if ok:
                os.replace(alt, e["path"])
                e.update(reproduced=True, out=out, rec=r)
                break
            os.unlink(alt)
    for e in seen_fam.values():
        e.pop("others", None)

    nobl = len(normal)
    ndis = sum(1 for r in normal if r["verdict"] == "discharged")
    by_backend = {}
    for r in normal:
        if r["verdict"] == "discharged":
            by_backend[r["backend"]] = by_backend.get(r["backend"], 0) + 1
    by_fn = {}
    for r in normal:
        d = by_fn.setdefault(r["fn"] or "?", {"obligations": 0, "discharged": 0})
        d["obligations"] += 1
        d["discharged"] += r["verdict"] == "discharged"
    unb = sum(1 for r in normal if r["unbounded"])
    samples = []
    for r in normal[:: max(1, len(normal) // 6)][:6]:
        samples.append({k: r[k] for k in ("name", "verdict", "backend", "time", "fn", "shape", "mode", "unbounded")}
                       | ({"smt": r["smt"]} if r.get("smt") else {}))
    solver_time = round(sum(r["time"] for r in records), 3)
    cov = {
        "obligations": nobl,
        "discharged": ndis,
        "refuted": sum(1 for r in normal if r["verdict"] == "refuted"),
        "open": sum(1 for r in normal if r["verdict"] == "open"),
        "unbounded_obligations": unb,
        "shape_bounded_obligations": nobl - unb,
        "every_team_size_obligations": sum(1 for r in normal if "any-team-size" in r["name"]),
        "by_backend": by_backend,
        "by_function": by_fn,
        "functions_under_contract": sorted(functions),
        "canaries_refuted": canary_ok,
        "canaries_total": len(canaries),
        "canaries_replayed_on_real_code": canary_replayed,
        "vacuity_checks": len(vac),
        "solver_time_s": solver_time,
        "unit_walls": walls[:40],
        "shapes": shapes or [],
        "exhaustive": bool(exhaustive),
        "checker_cmd": checker_cmd or f"python3-vt -m pyvc.check {prop} --tier {tier}",
        "trusted_base": BASE_ASSUMPTIONS + list(assumptions),
        "explanation": explanation,
        "samples": samples,
        "evaluations": nobl,
        "distinct_nontrivial": len({r["name"] for r in normal if r["backend"] != "path-eval"}) or len({r["name"] for r in normal}),
        "rule": "one evaluation = one named proof obligation generated from /repo's current source; non-trivial = decided by a solver call (not by path evaluation alone); distinct = distinct obligation name",
        "known_findings": [k["id"] for (k, _r) in known_hits],
        "not_attempted": [f"{r['name']}: {r['note']}" for r in notes],
        "engine_errors": [e["error"] for e in engine_errors][:10],
        "repo": REPO,
    }
    if extra:
        cov.update(extra)
    ev = {
        "property_id": prop, "tier": tier, "seed": int(seed), "level": level,
        "coverage": cov,
        "assumptions": BASE_ASSUMPTIONS + list(assumptions),
        "wall_s": round(time.time() - t0, 2),
        "violations": len(violations),
    }
    evdir = os.path.join(VERIF, "evidence") if os.path.realpath(REPO) == "/repo" else os.environ.get("PYVC_EVIDENCE_DIR", "/tmp/pyvc_evidence_scratch")
    os.makedirs(evdir, exist_ok=True)
    with open(os.path.join(evdir, f"{prop}.json"), "w") as fh:
        json.dump(ev, fh, indent=1, default=str)

    for (k, r) in known_hits:
        print(f"KNOWN-FINDING: property={prop} {k['what']} (obligation {r['name']})")
    for e in violations:
        tail = "" if e["reproduced"] else " no-failing-input-found"
        r = e["rec"]
        print(f"# failed obligation {r['name']} ({r['verdict']}, {r['backend']}; {e['count']} in family)")
        for line in (e["out"] or "").splitlines()[:6]:
            print("#   " + line)
        print(f"VIOLATION property={prop} replay={e['path']}{tail}")
    note_fams = {}
    for r in notes:
        note_fams.setdefault(family(r["name"]), []).append(r)
    for fam, rs in note_fams.items():
        print(f"# not attempted: {rs[0]['name']}: {rs[0]['note'][:200]}" + (f"  (+{len(rs) - 1} more shapes)" if len(rs) > 1 else ""))
    anysz = cov["every_team_size_obligations"]
    print(f"{prop} [{tier}] obligations={nobl} discharged={ndis} unbounded={unb}" + (f" every-team-size={anysz}" if anysz else "") + f" canaries={canary_ok}/{len(canaries)} "
          f"violations={len(violations)} known={len(known_hits)} engine_errors={len(engine_errors)} wall={ev['wall_s']}s")
    if engine_errors:
        for e in engine_errors[:5]:
            print(f"ENGINE-ERROR {prop}: {e['unit']}: {e['error']}")
            if e.get("trace"):
                sys.stderr.write(e["trace"] + "\n")
    if violations:
        return 1
    if engine_errors:
        return 3
    return 0
