"""pyvc.field - proving equalities and inequalities between real terms through
their exact normal forms (poly.py).

prove_eq:  the normal form of a - b is the zero polynomial             ('field')
prove_ge:  1. every term of the normal form of a - b is non-negative     ('field-sign')
              (positive coefficient; every atom positive or of even exponent)
           2. otherwise the goal and the relevant hypotheses are translated
              to polynomial constraints over the atoms (uninterpreted
              applications become variables, so congruence is syntactic) and
              given to z3 (nlsat) / cvc5                                  ('field+z3')
"""
from __future__ import annotations

import time
from fractions import Fraction

import z3

from . import tactics
from .poly import Normalizer, Poly, Unsupported


def _positive_syms_from(hyps):
    pos = set()
    for h in hyps:
        stack = [h]
        while stack:
            e = stack.pop()
            if z3.is_and(e):
                stack.extend(e.children())
                continue
            if not z3.is_app(e):
                continue
            k = e.decl().kind()
            ch = e.children()
            if k in (z3.Z3_OP_GT, z3.Z3_OP_LT) and len(ch) == 2:
                a, b = (ch[0], ch[1]) if k == z3.Z3_OP_GT else (ch[1], ch[0])
                # a > b with b a non-negative numeral and a a constant symbol
                if z3.is_const(a) and a.decl().kind() == z3.Z3_OP_UNINTERPRETED and z3.is_rational_value(b):
                    if b.numerator_as_long() >= 0:
                        pos.add(a.decl().name())
            elif k == z3.Z3_OP_NOT and ch and z3.is_app(ch[0]) and ch[0].decl().kind() == z3.Z3_OP_LE:
                a, b = ch[0].children()
                if z3.is_const(a) and a.decl().kind() == z3.Z3_OP_UNINTERPRETED and z3.is_rational_value(b) and b.numerator_as_long() >= 0:
                    pos.add(a.decl().name())
    return pos


def _pinned_syms_from(hyps):
    """symbols the hypotheses pin to a numeral (x == c, Not(x != c)): a path on which the code
    tested `tau == 0` must see tau as 0 in every normal form"""
    out = {}

    def eq(a, b):
        for x, c in ((a, b), (b, a)):
            if z3.is_const(x) and x.decl().kind() == z3.Z3_OP_UNINTERPRETED and z3.is_real(x) and (z3.is_rational_value(c) or z3.is_int_value(c)):
                if z3.is_int_value(c):
                    out[x.decl().name()] = Fraction(c.as_long())
                else:
                    out[x.decl().name()] = Fraction(c.numerator_as_long(), c.denominator_as_long())
    for h in hyps:
        stack = [h]
        while stack:
            e = stack.pop()
            if not z3.is_app(e):
                continue
            k = e.decl().kind()
            ch = e.children()
            if k == z3.Z3_OP_AND:
                stack.extend(ch)
            elif k == z3.Z3_OP_EQ and len(ch) == 2 and z3.is_arith(ch[0]):
                eq(ch[0], ch[1])
            elif k == z3.Z3_OP_NOT and z3.is_app(ch[0]) and ch[0].decl().kind() == z3.Z3_OP_DISTINCT and len(ch[0].children()) == 2:
                eq(*ch[0].children())
            elif k == z3.Z3_OP_NOT and z3.is_app(ch[0]) and ch[0].decl().kind() == z3.Z3_OP_NOT:
                stack.append(ch[0].children()[0])
    return out


class Prover:
    def __init__(self, hyps, facts=(), timeout_ms=20000):
        """hyps: z3 Bools over the original terms (assumptions, path condition);
        facts: iterable of (formula, level, subject) lemma instances."""
        self.hyps = list(hyps)
        self.facts = list(facts)
        self.N = Normalizer(_positive_syms_from(self.hyps))
        self.N.sym_values = _pinned_syms_from(self.hyps)
        self.N.known_source = lambda: list(self.hyps)
        self.timeout_ms = timeout_ms
        self._var = {}
        self._tr_cache = {}
        self.uf_sign = {}     # atom -> ('pos'|'nonneg') learnt from facts
        self._facts_scanned = False

    # ---- atoms as z3 variables
    def var(self, i):
        v = self._var.get(i)
        if v is None:
            kind, key, _ = self.N.atoms.info[i]
            v = z3.Real(str(key) if kind == "sym" else f"atom!{i}!{kind}")
            self._var[i] = v
        return v

    def to_z3(self, p):
        """polynomial over atom variables; negative exponents become divisions"""
        if not p.t:
            return z3.RealVal(0)
        terms = []
        for m, c in p.t.items():
            num = z3.RealVal(f"{c.numerator}/{c.denominator}")
            den = None
            for (a, e) in m:
                v = self.var(a)
                if e > 0:
                    for _ in range(e):
                        num = num * v
                else:
                    for _ in range(-e):
                        den = v if den is None else den * v
            terms.append(num if den is None else num / den)
        return z3.Sum(terms) if len(terms) > 1 else terms[0]

    def tr_bool(self, f):
        """translate a Boolean formula over real terms to atom variables"""
        k = f.get_id()
        if k in self._tr_cache:
            return self._tr_cache[k][1]
        r = self._tr_bool(f)
        self._tr_cache[k] = (f, r)
        return r

    def _tr_bool(self, f):
        if z3.is_true(f) or z3.is_false(f):
            return f
        kd = f.decl().kind()
        ch = f.children()
        if kd == z3.Z3_OP_AND:
            return z3.And([self.tr_bool(c) for c in ch])
        if kd == z3.Z3_OP_OR:
            return z3.Or([self.tr_bool(c) for c in ch])
        if kd == z3.Z3_OP_NOT:
            return z3.Not(self.tr_bool(ch[0]))
        if kd == z3.Z3_OP_IMPLIES:
            return z3.Implies(self.tr_bool(ch[0]), self.tr_bool(ch[1]))
        if kd in (z3.Z3_OP_EQ, z3.Z3_OP_IFF) and z3.is_bool(ch[0]):
            return self.tr_bool(ch[0]) == self.tr_bool(ch[1])
        if kd == z3.Z3_OP_ITE and z3.is_bool(ch[1]):
            return z3.If(self.tr_bool(ch[0]), self.tr_bool(ch[1]), self.tr_bool(ch[2]))
        if kd in (z3.Z3_OP_LE, z3.Z3_OP_LT, z3.Z3_OP_GE, z3.Z3_OP_GT, z3.Z3_OP_EQ, z3.Z3_OP_DISTINCT) and z3.is_arith(ch[0]):
            d = self.N.norm(ch[0] - ch[1]) if not z3.is_int(ch[0]) else None
            if d is None:
                raise Unsupported("integer comparison")
            e = self.clear(d)
            zero = z3.RealVal(0)
            return {z3.Z3_OP_LE: e <= zero, z3.Z3_OP_LT: e < zero, z3.Z3_OP_GE: e >= zero,
                    z3.Z3_OP_GT: e > zero, z3.Z3_OP_EQ: e == zero, z3.Z3_OP_DISTINCT: e != zero}[kd]
        raise Unsupported(f"formula {f.decl().name()}")

    def clear(self, p):
        """z3 expression with the same sign as p: multiply by the (positive)
        monomial that clears negative exponents of atoms known positive."""
        shift = {}
        for m in p.t:
            for (a, e) in m:
                if e < 0 and self.atom_sign(a) == "pos":
                    shift[a] = max(shift.get(a, 0), -e)
        if shift:
            p = p.mul_mono(tuple(sorted(shift.items())))
        return self.to_z3(p)

    # ---- signs of atoms
    def scan_facts(self):
        """learn sign facts about uf atoms (Phi > 0, V > 0, W >= 0, Gamma >= 0 ...)
        from lemma / contract instances of the form  subject > 0  /  subject >= 0"""
        if self._facts_scanned:
            return
        self._facts_scanned = True
        for (f, _lvl, subj) in self.facts:
            try:
                if subj is None or not z3.is_app(subj) or subj.decl().kind() != z3.Z3_OP_UNINTERPRETED or subj.num_args() == 0:
                    continue
                if subj.decl().name() in ("sqrt", "exp"):
                    continue
                sg = None
                stack = [f]
                while stack:
                    e = stack.pop()
                    if z3.is_and(e):
                        stack.extend(e.children())
                        continue
                    if z3.is_app(e) and e.num_args() == 2:
                        a, b = e.children()
                        k = e.decl().kind()
                        if z3.eq(a, subj) and z3.is_rational_value(b) and b.numerator_as_long() >= 0:
                            if k == z3.Z3_OP_GT or (k == z3.Z3_OP_GE and b.numerator_as_long() > 0):
                                sg = "pos"
                            elif k == z3.Z3_OP_GE and sg is None:
                                sg = "nonneg"
                if sg is None:
                    continue
                p = self.N.norm(subj)
                s1 = p.single()
                if s1 and len(s1[0]) == 1 and s1[1] == 1 and s1[0][0][1] == 1:
                    a = s1[0][0][0]
                    if self.uf_sign.get(a) != "pos":
                        self.uf_sign[a] = sg
            except Unsupported:
                continue

    def atom_sign(self, a):
        kind, key, payload = self.N.atoms.info[a]
        if a in self.N.atoms.positive:
            return "pos"
        if a in self.uf_sign:
            return self.uf_sign[a]
        if kind == "inv":
            s = self.poly_sign(payload)
            return "pos" if s == "pos" else None
        return None

    def poly_sign(self, p):
        """'pos' / 'nonneg' / 'neg' / 'nonpos' / 'zero' / None by term-wise analysis"""
        if not p.t:
            return "zero"
        allpos = allneg = True
        strict = False
        for m, c in p.t.items():
            sgn = 1 if c > 0 else -1
            st = True
            for (a, e) in m:
                s = self.atom_sign(a)
                if s == "pos":
                    continue
                if e % 2 == 0 and e > 0:
                    st = False      # square of an atom of unknown sign: >= 0
                    continue
                if s == "nonneg" and e > 0:
                    st = False
                    continue
                return None
            if sgn > 0:
                allneg = False
            else:
                allpos = False
            strict = strict or st
        if allpos:
            return "pos" if strict else "nonneg"
        if allneg:
            return "neg" if strict else "nonpos"
        return None

    def homogenize(self, p, max_terms=20000):
        """Sign normal form: for every named denominator inv(D), terms that
        differ only in atoms of D are brought to the common power of inv(D)
        (1 = D*inv(D)), so that e.g. 1 - B*inv(A+B) becomes A*inv(A+B)."""
        N = self.N
        invs = sorted({a for m in p.t for (a, _e) in m if a in N.inv_of})
        for a in invs:
            D = N.inv_of[a]
            dats = D.atoms()
            groups = {}
            for m, c in p.t.items():
                ctxm = tuple((x, e) for (x, e) in m if x != a and x not in dats)
                cof = tuple((x, e) for (x, e) in m if x in dats)
                ea = dict(m).get(a, 0)
                groups.setdefault(ctxm, []).append((ea, cof, c))
            out = Poly()
            for ctxm, items in groups.items():
                k = max(ea for (ea, _c, _v) in items)
                if all(ea == k for (ea, _c, _v) in items) or k <= 0:
                    for (ea, cof, c) in items:
                        mm = list(ctxm) + list(cof) + ([(a, ea)] if ea else [])
                        out = out + Poly({tuple(sorted(mm)): c})
                    continue
                acc = Poly()
                for (ea, cof, c) in items:
                    term_ = Poly({cof: c})
                    if k - ea:
                        term_ = term_ * D.pow(k - ea)
                    acc = acc + term_
                    if len(acc.t) > max_terms:
                        raise Unsupported("homogenisation too large")
                out = out + acc.mul_mono(tuple(sorted(list(ctxm) + [(a, k)])))
            p = out
        return p

    # ---- definitional facts of the atoms occurring in a set of polynomials
    def atom_defs(self, atoms_needed):
        out = []
        seen = set()
        work = list(atoms_needed)
        while work:
            a = work.pop()
            if a in seen:
                continue
            seen.add(a)
            kind, key, payload = self.N.atoms.info[a]
            v = self.var(a)
            if kind == "inv":
                out.append(v * self.to_z3(payload) == 1)
                if self.atom_sign(a) == "pos":
                    out.append(v > 0)
                work.extend(payload.atoms())
            elif kind == "sqrt":
                out.append(v >= 0)
                out.append(v * v == self.to_z3(payload))
                if self.poly_sign(payload) == "pos":
                    out.append(v > 0)
                work.extend(payload.atoms())
            elif kind == "expm":
                out.append(v > 0)
            elif kind == "sym":
                if a in self.N.atoms.positive:
                    out.append(v > 0)
            elif kind == "ite":
                cond, pa, pb = payload
                try:
                    c = self.tr_bool(cond)
                    out.append(v == z3.If(c, self.to_z3(pa), self.to_z3(pb)))
                    work.extend(pa.atoms() | pb.atoms())
                except Unsupported:
                    pass
        return out, seen

    def resolve_ites(self, terms, extra_hyps=()):
        """Decide the conditions of the if-then-else atoms occurring in the
        normal forms of `terms` (e.g. the sign test inside abs / max) from the
        hypotheses; decided conditions are recorded so that later normal forms
        select the branch.  Returns the number of conditions decided."""
        from .poly import Poly
        N = self.N
        n = 0
        for _round in range(3):
            todo = []
            for t in terms:
                try:
                    p = N.norm(t)
                except Unsupported:
                    continue
                for a in p.atoms():
                    if N.atoms.info[a][0] == "ite":
                        ck = N.atoms.info[a][1][0]
                        if isinstance(ck, tuple) and ck[0] == "ge0" and ck not in N.known:
                            todo.append(ck)
            if not todo:
                break
            progress = False
            for ck in todo:
                q = Poly(dict(ck[1]))
                if self.prove_ge_poly(q, extra_hyps=extra_hyps)[0] == "discharged":
                    N.known[ck] = True
                    progress = True
                    n += 1
                elif self.prove_ge_poly(-q, strict=True, extra_hyps=extra_hyps)[0] == "discharged":
                    N.known[ck] = False
                    progress = True
                    n += 1
            N._known_scanned = True
            N.memo.clear()
            if not progress:
                break
        return n

    # ---- provers
    def _undecided_ite(self, p, seen=None):
        """canonical condition of some if-then-else atom reachable from polynomial p
        (through inverse and sqrt atoms) that the path does not decide, or None"""
        from .poly import Poly
        seen = set() if seen is None else seen
        N = self.N
        for a in sorted(p.atoms()):
            if a in seen:
                continue
            seen.add(a)
            kind, key, payload = N.atoms.info[a]
            if kind == "ite":
                if N.eval_cond(key[0]) is None:
                    r = N.undecided_atom(key[0])
                    if r is not None:
                        return r
            elif kind in ("inv", "sqrt") and isinstance(payload, Poly):
                r = self._undecided_ite(payload, seen)
                if r is not None:
                    return r
        return None

    CASE_SPLIT_BUDGET_S = float(__import__("os").environ.get("PYVC_CASE_SPLIT_BUDGET_S", "30"))

    def prove_eq(self, a, b, _depth=0, _deadline=None):
        """a == b as exact normal forms; if-then-else atoms with an undecided condition
        (a guard in the code, merged paths) are split into the two cases (depth <= 10 and a
        time budget per top-level call: a failing identity must not cost 2^10 normalisations)."""
        t0 = time.time()
        if _deadline is None:
            _deadline = t0 + self.CASE_SPLIT_BUDGET_S
        try:
            ok, d = self.N.equal(a, b)
        except Unsupported as e:
            return False, "field", f"unsupported: {e}", time.time() - t0
        if not ok and _depth < 10 and time.time() < _deadline:
            N = self.N
            N.lookup(("scan",))       # make sure the path condition has been learnt
            ck = self._undecided_ite(d)
            if ck is not None:
                saved = dict(N.known)
                allok = True
                try:
                    for val in (True, False):
                        N.known = dict(saved)
                        N.known[ck] = val
                        N.memo.clear()
                        if not self.prove_eq(a, b, _depth + 1, _deadline)[0]:
                            allok = False
                            break
                finally:
                    N.known = saved
                    N.memo.clear()
                if allok:
                    return True, "field+cases", "", time.time() - t0
        return ok, "field", ("" if ok else "residual " + self.N.show(d, 4)), time.time() - t0

    def prove_ge(self, a, b=None, strict=False, extra_hyps=(), want="ge"):
        """a >= b (b defaults to 0)."""
        t0 = time.time()
        try:
            d = self.N.norm(a - b) if b is not None else self.N.norm(a)
            return self.prove_ge_poly(d, strict=strict, extra_hyps=extra_hyps, t0=t0)
        except Unsupported as e:
            return "open", "field", f"unsupported: {e}", time.time() - t0, None

    def prove_ge_poly(self, d, strict=False, extra_hyps=(), t0=None):
        """normal-form polynomial d >= 0 (> 0 if strict)"""
        t0 = t0 or time.time()
        try:
            self.scan_facts()
            s = self.poly_sign(d)
            if s == "pos" or (not strict and s in ("nonneg", "zero")):
                return "discharged", "field-sign", "", time.time() - t0, None
            try:
                dh = self.homogenize(d)
                s = self.poly_sign(dh)
                if s == "pos" or (not strict and s in ("nonneg", "zero")):
                    return "discharged", "field-sign", "after raising to common denominators", time.time() - t0, None
            except Unsupported:
                pass
            goal = self.clear(d)
            g = goal > 0 if strict else goal >= 0
            need = set(d.atoms())
            hyps = []
            for h in list(self.hyps) + list(extra_hyps):
                try:
                    hyps.append(self.tr_bool(h))
                except Unsupported:
                    continue
            facts = []
            for (f, lvl, subj) in self.facts:
                try:
                    facts.append(self.tr_bool(f))
                except Unsupported:
                    continue
            # relevance: keep hypotheses/facts that mention an atom of the goal's cone
            defs, cone = self.atom_defs(need)
            names = {self.var(x).decl().name() for x in cone}

            # relevance closure: a hypothesis/fact is kept if it mentions an atom of
            # the goal's cone; the atoms it mentions then join the cone (fixpoint)
            cand = [(h, _consts(h)) for h in hyps + facts]
            sel = []
            chosen = set()
            grow = True
            rounds = 0
            while grow and rounds < 6:
                grow = False
                rounds += 1
                for idx, (h, cs) in enumerate(cand):
                    if idx in chosen:
                        continue
                    if cs & names:
                        chosen.add(idx)
                        sel.append(h)
                        new = cs - names
                        if new:
                            names |= new
                            grow = True
            inv_names = {self.var(i).decl().name(): i for i in list(self._var)}
            more = set()
            for n_ in names:
                i = inv_names.get(n_)
                if i is not None and i not in cone:
                    more.add(i)
            defs2, _ = self.atom_defs(more)
            r, be, m, why = tactics.check_sat(sel + defs + defs2 + [z3.Not(g)], timeout_ms=self.timeout_ms)
            if r == "unsat":
                return "discharged", "field+" + be, "", time.time() - t0, None
            if r == "sat":
                return "refuted", "field+" + be, why, time.time() - t0, (tactics.model_to_dict(m) if m is not None else {})
            return "open", "field+z3", why, time.time() - t0, None
        except Unsupported as e:
            return "open", "field", f"unsupported: {e}", time.time() - t0, None


def _is_simple_bound(h):
    """x > c / x >= c style domain assumptions: useless for deciding ite conditions"""
    if not z3.is_app(h) or h.num_args() != 2:
        return False
    a, b = h.children()
    return (z3.is_const(a) and z3.is_rational_value(b)) or (z3.is_const(b) and z3.is_rational_value(a))


def _consts(f):
    out = set()
    seen = set()
    stack = [f]
    while stack:
        e = stack.pop()
        if e.get_id() in seen:
            continue
        seen.add(e.get_id())
        if z3.is_const(e) and e.decl().kind() == z3.Z3_OP_UNINTERPRETED:
            out.add(e.decl().name())
        stack.extend(e.children())
    return out
