"""pyvc.extract - compile the real sources into scratch namespaces.

Every call re-reads the file from the working tree of $PYVC_REPO.  The whole
module AST is compiled (nothing is dropped); what differs from a native import
is (1) names rebound in the scratch namespace after execution and (2) the
optional AST transformers (loop cuts, probes) applied to named functions.
"""
from __future__ import annotations

import ast
import builtins
import hashlib
import os

from . import REPO
from .symrt import BUILTIN_REBINDS, rebind_library_names

MODEL_FILES = {
    "PlackettLuce": "openskill/models/weng_lin/plackett_luce.py",
    "BradleyTerryFull": "openskill/models/weng_lin/bradley_terry_full.py",
    "BradleyTerryPart": "openskill/models/weng_lin/bradley_terry_part.py",
    "ThurstoneMostellerFull": "openskill/models/weng_lin/thurstone_mosteller_full.py",
    "ThurstoneMostellerPart": "openskill/models/weng_lin/thurstone_mosteller_part.py",
}
MODELS = list(MODEL_FILES)
WL_COMMON = "openskill/models/weng_lin/common.py"
COMMON = "openskill/models/common.py"

_SRC_CACHE = {}


def source(relpath):
    p = os.path.join(REPO, relpath)
    if p not in _SRC_CACHE:
        with open(p, "r", encoding="utf-8") as fh:
            s = fh.read()
        _SRC_CACHE[p] = (s, hashlib.sha256(s.encode()).hexdigest()[:16])
    return _SRC_CACHE[p][0]


def source_hash(relpath):
    source(relpath)
    return _SRC_CACHE[os.path.join(REPO, relpath)][1]


def parse(relpath):
    return ast.parse(source(relpath), filename=os.path.join(REPO, relpath))


def find_function(tree, qualname):
    """FunctionDef node for 'Class.method' or 'function'."""
    parts = qualname.split(".")
    body = tree.body
    node = None
    for p in parts:
        node = None
        for n in body:
            if isinstance(n, (ast.FunctionDef, ast.ClassDef)) and n.name == p:
                node = n
                break
        if node is None:
            raise KeyError(qualname)
        body = node.body
    return node


def load(relpath, rebind=None, transforms=(), sym=True, modname=None, imports=None):
    """Execute the module at relpath in a fresh namespace and return it.

    sym=True rebinds math/isinstance/float/max/min/len/hash/id to their
    symbolic-aware versions (symrt.BUILTIN_REBINDS).
    imports: {module name: scratch namespace} - while the module body executes, `from <module>
    import ..` resolves to these scratch copies, so that what runs at definition time (a decorator
    imported from a shared module, a class-level constant) is the scratch copy as well."""
    import sys
    import types
    tree = parse(relpath)
    for tr in transforms:
        tree = tr.visit(tree) or tree
        ast.fix_missing_locations(tree)
    code = compile(tree, os.path.join(REPO, relpath), "exec")
    name = modname or ("pyvc_scratch." + os.path.basename(relpath)[:-3])
    ns = {"__name__": name, "__builtins__": builtins.__dict__, "__file__": os.path.join(REPO, relpath)}
    saved = {}
    try:
        for mname, mns in (imports or {}).items():
            importlib_mod = sys.modules.get(mname)
            if importlib_mod is None:
                __import__(mname)
                importlib_mod = sys.modules.get(mname)
            saved[mname] = importlib_mod
            fake = types.ModuleType(mname)
            fake.__dict__.update({k: v for k, v in mns.items() if k not in ("__name__", "__builtins__")})
            sys.modules[mname] = fake
        exec(code, ns)
    finally:
        for mname, mod in saved.items():
            if mod is not None:
                sys.modules[mname] = mod
            else:
                sys.modules.pop(mname, None)
    if sym:
        ns.update(BUILTIN_REBINDS)
        rebind_library_names(ns)
    if rebind:
        ns.update(rebind)
    return ns


class Scratch:
    """The scratch copies needed to verify one model: the model module,
    weng_lin/common and models/common, wired to each other (the model's
    imported helpers point at the scratch copies, so rebinding reaches them)."""

    def __init__(self, model, transforms=None, sym=True):
        transforms = transforms or {}
        self.model = model
        self.common = load(COMMON, sym=sym, transforms=transforms.get(COMMON, ()))
        self.wl = load(WL_COMMON, sym=sym, transforms=transforms.get(WL_COMMON, ()), imports={"openskill.models.common": self.common})
        self.relpath = MODEL_FILES[model]
        self.ns = load(self.relpath, sym=sym, transforms=transforms.get(self.relpath, ()),
                       imports={"openskill.models.common": self.common, "openskill.models.weng_lin.common": self.wl})
        # whatever a module imports from the two shared modules (by any name, including helpers
        # added later) is pointed at the scratch copy, so that rebinding reaches it
        self.sym = sym
        self.sources = {"openskill.models.common": self.common, "openskill.models.weng_lin.common": self.wl}
        self._rewire(self.wl)
        self._rewire(self.ns)
        self.cls = self.ns[model]
        self.rating_cls = self.ns[model + "Rating"]
        self.team_cls = self.ns[model + "TeamRating"]

    def _rewire(self, ns):
        import types
        for n, obj in list(ns.items()):
            if not isinstance(obj, types.FunctionType):
                continue
            mod = getattr(obj, "__module__", None) or ""
            src = self.sources.get(mod)
            if src is None and mod.startswith("openskill.") and mod != "openskill.models.weng_lin." + os.path.basename(self.relpath)[:-3]:
                # a function imported from another module of the package (e.g. a helper module a
                # clean-up introduced): that module gets a scratch copy as well
                rel = mod.replace(".", "/") + ".py"
                if os.path.exists(os.path.join(REPO, rel)) and rel not in MODEL_FILES.values():
                    src = self.sources[mod] = load(rel, sym=self.sym)
                    self._rewire(src)
            if src is None:
                continue
            real = getattr(obj, "__name__", n)
            if real in src:
                ns[n] = src[real]

    def stub_wl(self, name, fn):
        """Replace a weng_lin/common function for both the model and common."""
        self.wl[name] = fn
        if name in self.ns:
            self.ns[name] = fn

    def stub_method(self, name, fn, static=False):
        setattr(self.cls, name, staticmethod(fn) if static else fn)
