"""Grammar of (mal)formed arguments for C13/C19: built by explorer decisions on
the symbolic side; the same JSON description is instantiated concretely by
pyvc.concrete for replays.

description nodes
  {"t": "none"}                       the argument is None / omitted
  {"t": "obj", "name": s}             value of symbolic dynamic type (AnyObj); the replay takes tag/truthiness from the model
  {"t": "list", "items": [...]}       a concrete Python list
  {"t": "own", "i": i, "j": j}        a rating of the model under verification (symbols mu_i_j, sg_i_j)
  {"t": "num", "name": s}             a number of symbolic value and kind
"""
from __future__ import annotations

import z3

from .symrt import AnyObj, KBOOL, KFLOAT, KINT

NUMTAGS = (AnyObj.BOOL, AnyObj.INT, AnyObj.FLOAT)
NONLIST = tuple(t for t in range(11) if t != AnyObj.LIST)
NONOWN = tuple(t for t in range(11) if t != AnyObj.OWN)
NONNUM = tuple(t for t in range(11) if t not in NUMTAGS)


def build_teams(ctx, S, max_teams=3, max_size=2, wf_sizes=None):
    """(value, description, ratings) where ratings is the list of real rating
    objects inside the value.  wf_sizes: build exactly that well-formed game."""
    R = S.rating_cls
    ratings = []

    def own(i, j):
        mu, sg = ctx.real(f"mu_{i}_{j}"), ctx.real(f"sg_{i}_{j}")
        ctx.assume(sg.t > 0)
        r = R(mu, sg, name=f"p{i}_{j}")
        ratings.append(r)
        return r, {"t": "own", "i": i, "j": j}

    if wf_sizes is not None:
        val, items = [], []
        for i, n in enumerate(wf_sizes):
            tv, td = [], []
            for j in range(n):
                r, d = own(i, j)
                tv.append(r)
                td.append(d)
            val.append(tv)
            items.append({"t": "list", "items": td})
        return val, {"t": "list", "items": items}, ratings
    if ctx.choose("teams_is_list", 2) == 0:
        return AnyObj("teams", ctx, own_cls=R, allowed=NONLIST), {"t": "obj", "name": "teams"}, ratings
    n = ctx.choose("n_teams", max_teams + 1)
    val, items = [], []
    for i in range(n):
        k = ctx.choose(f"team{i}_form", max_size + 2)   # 0: not a list, 1..: list of size k-1
        if k == 0:
            val.append(AnyObj(f"team{i}", ctx, own_cls=R, allowed=NONLIST))
            items.append({"t": "obj", "name": f"team{i}"})
            continue
        tv, td = [], []
        for j in range(k - 1):
            if ctx.choose(f"p{i}_{j}_own", 2) == 0:
                r, d = own(i, j)
                tv.append(r)
                td.append(d)
            else:
                tv.append(AnyObj(f"p{i}_{j}", ctx, own_cls=R, allowed=NONOWN))
                td.append({"t": "obj", "name": f"p{i}_{j}"})
        val.append(tv)
        items.append({"t": "list", "items": td})
    return val, {"t": "list", "items": items}, ratings


def build_vector(ctx, S, name, n_teams, forms=None):
    """ranks/scores argument.  forms: 0 None, 1 non-list object (truthy or
    falsy), 2 empty list, 3 list of n-1, 4 list of n+1, 5 list of n elements
    each a number or a non-number object."""
    R = S.rating_cls
    k = ctx.choose(f"{name}_form", 6)
    if k == 0:
        return None, {"t": "none"}
    if k == 1:
        return AnyObj(name, ctx, own_cls=R, allowed=NONLIST), {"t": "obj", "name": name}
    if k == 2:
        return [], {"t": "list", "items": []}
    if k in (3, 4):
        m = n_teams - 1 if k == 3 else n_teams + 1
        items = [ctx.number(f"{name}{q}") for q in range(m)]
        return items, {"t": "list", "items": [{"t": "num", "name": f"{name}{q}"} for q in range(m)]}
    val, desc = [], []
    for q in range(n_teams):
        if ctx.choose(f"{name}{q}_isnum", 2) == 0:
            val.append(ctx.number(f"{name}{q}"))
            desc.append({"t": "num", "name": f"{name}{q}"})
        else:
            val.append(AnyObj(f"{name}{q}", ctx, own_cls=R, allowed=NONNUM))
            desc.append({"t": "obj", "name": f"{name}{q}"})
    return val, {"t": "list", "items": desc}


# ---- the specification of validity, over descriptions ----------------------
def spec_teams(desc):
    """None if well-formed, else the exception class name the validation raises
    (first offending position, teams before players)."""
    if desc["t"] != "list":
        return "TypeError"
    if len(desc["items"]) < 2:
        return "ValueError"
    for team in desc["items"]:
        if team["t"] != "list":
            return "TypeError"
        if len(team["items"]) < 1:
            return "ValueError"
        for p in team["items"]:
            if p["t"] != "own":
                return "TypeError"
    return None


def spec_vector(desc, n_teams, truthy):
    """(given, error) for a ranks/scores argument; `truthy` is the truthiness
    of a non-list object."""
    if desc["t"] == "none":
        return False, None
    if desc["t"] == "obj":
        return (True, "TypeError") if truthy else (False, None)
    items = desc["items"]
    if not items:
        return False, None
    if len(items) != n_teams:
        return True, "ValueError"
    for it in items:
        if it["t"] != "num":
            return True, "TypeError"
    return True, None


def spec_rate(tdesc, rdesc, sdesc, r_truthy, s_truthy):
    e = spec_teams(tdesc)
    if e:
        return e
    n = len(tdesc["items"])
    rg, re_ = spec_vector(rdesc, n, r_truthy)
    if re_:
        return re_
    sg, se = spec_vector(sdesc, n, s_truthy)
    if rg and sg:
        return "ValueError"
    if se:
        return se
    return None
