"""pyvc.loops - loop cuts: verifying a `for` loop for *every* number of iterations
with a sidecar invariant (the Hoare rule), on the real AST.

The statement   for TARGET in ITER: BODY   (ordinal K of function F; no break /
continue / return / else inside) is rewritten by `CutLoops` into

    __lc = __pyvc_loop__(F, K, ITER, {"v": v, ...})        # obligation  Inv(0, entry state)
    if __lc.iterate():                                     # explorer fork
        (v, ...) = __lc.begin_iteration()                  # havoc + assume 0 <= k < n and Inv(k)
        TARGET = __lc.item()                               # the k-th element
        BODY                                               # the original statements, unchanged
        __lc.end_iteration({"v": v, ...})                  # obligation  Inv(k+1); the path ends
    else:
        (v, ...) = __lc.exit_state()                       # havoc + assume Inv(n): after the loop

`v, ...` are the loop's state variables (sidecar: names written or mutated in
BODY).  A LoopSpec supplies  length(iterable), item(iterable, k), havoc(name, old),
inv(k, state, env) -> z3 Bool.  Symbolic containers: SymList (mutable list of
numbers as z3 arrays), SymIntDict (dict filled with keys 0,1,2,.. in order),
symbolic sequences of AnyObj (symrt.AnyObj with elem)."""
from __future__ import annotations

import ast

import z3

from .symrt import (KFLOAT, KINT, AnyObj, EngineError, PathAbort, SymBool, SymNum, cur)

IntS, RealS = z3.IntSort(), z3.RealSort()


def as_int(x):
    """z3 Int term of an index-like value"""
    if isinstance(x, int) and not isinstance(x, bool):
        return z3.IntVal(x)
    if isinstance(x, SymNum):
        t = x.t
        return z3.simplify(z3.ToInt(t)) if not z3.is_int(t) else t
    if isinstance(x, z3.ExprRef):
        return x if z3.is_int(x) else z3.ToInt(x)
    raise EngineError(f"not an index: {x!r}")


def int_num(t):
    """SymNum (kind int) for a z3 Int term"""
    return SymNum(z3.ToReal(t), KINT)


class SymList:
    """a Python list of numbers with symbolic length: values / kinds as z3 arrays"""

    _n = 0

    def __init__(self, name=None, arr=None, kinds=None, length=None):
        SymList._n += 1
        name = name or f"list!{SymList._n}"
        self.name = name
        self.arr = arr if arr is not None else z3.Array(f"{name}!val", IntS, RealS)
        self.kinds = kinds if kinds is not None else z3.Array(f"{name}!kind", IntS, IntS)
        self.length = length if length is not None else z3.Int(f"{name}!len")

    def copy(self):
        return SymList(self.name + "'", self.arr, self.kinds, self.length)

    def __getitem__(self, i):
        c = cur()
        idx = as_int(i)
        if not c.decide(z3.And(idx >= 0, idx < self.length)):
            # Python: negative indices count from the end
            if c.decide(z3.And(idx < 0, idx >= -self.length)):
                idx = idx + self.length
            else:
                raise IndexError("list index out of range")
        return SymNum(z3.Select(self.arr, idx), z3.Select(self.kinds, idx))

    def append(self, x):
        v = SymNum.lift(x)
        if v is None:
            raise EngineError("SymList.append of a non-number")
        k = v.kind if not isinstance(v.kind, int) else z3.IntVal(v.kind)
        if k is None:
            raise EngineError("append of a number of unknown kind")
        self.arr = z3.Store(self.arr, self.length, v.t)
        self.kinds = z3.Store(self.kinds, self.length, k)
        self.length = self.length + 1

    def __len__(self):
        raise EngineError("len() of a symbolic list outside a rebound namespace")

    def len_(self):
        return int_num(self.length)

    def __bool__(self):
        return cur().decide(self.length > 0)

    def __iter__(self):
        raise EngineError("iteration over a symbolic list (needs a loop cut)")


class SymIntDict:
    """a dict that is only ever filled with the keys 0, 1, 2, ... in that order
    (checked: any other insertion is an engine error), values numbers"""

    def __init__(self, arr=None, size=None):
        SymList._n += 1
        self.arr = arr if arr is not None else z3.Array(f"dict!{SymList._n}!val", IntS, RealS)
        self.size = size if size is not None else z3.IntVal(0)

    def __setitem__(self, k, v):
        c = cur()
        idx = as_int(k)
        vv = SymNum.lift(v)
        # the container model covers insertion of the next integer key only; that the code
        # does exactly this is an obligation, after which it is assumed
        c.oblige("container-model/dict-filled-with-consecutive-integer-keys", idx == self.size, meta={"unbounded": True})
        c.assume(idx == self.size)
        self.arr = z3.Store(self.arr, idx, vv.t)
        self.size = self.size + 1

    def values(self):
        return _Values(self)

    def __len__(self):
        raise EngineError("len() of a symbolic dict")


class _Values:
    def __init__(self, d):
        self.d = d


class SymEnum:
    def __init__(self, seq):
        self.seq = seq


def seq_len(x):
    if isinstance(x, SymEnum):
        return seq_len(x.seq)
    if isinstance(x, SymList):
        return x.length
    if isinstance(x, AnyObj):
        return x.length
    if isinstance(x, SymSeq):
        return x.length
    raise EngineError(f"loop cut over {type(x).__name__}")


def seq_item(x, k):
    if isinstance(x, SymEnum):
        return (int_num(k), seq_item(x.seq, k))
    if isinstance(x, SymList):
        return SymNum(z3.Select(x.arr, k), z3.Select(x.kinds, k))
    if isinstance(x, (AnyObj, SymSeq)):
        return x.elem(k)
    raise EngineError(f"loop cut over {type(x).__name__}")


class SymSeq:
    """an opaque sequence of symbolic length whose elements are never inspected
    (e.g. `game` in _calculate_rankings)"""

    def __init__(self, length, elem=None):
        self.length = length
        self.elem = elem or (lambda k: object())

    def __iter__(self):
        raise EngineError("iteration over a symbolic sequence (needs a loop cut)")


# ---- rebound builtins for namespaces that use symbolic containers
def sym_enumerate(x, *a):
    if isinstance(x, (SymList, SymSeq, AnyObj)):
        return SymEnum(x)
    return enumerate(x, *a)


def sym_list(x=()):
    if isinstance(x, _Values):
        return SymList(None, x.d.arr, z3.K(IntS, z3.IntVal(KINT)), x.d.size)
    if isinstance(x, SymList):
        return x.copy()
    if isinstance(x, AnyObj) and x.elem is not None:
        # list() of an argument of symbolic dynamic type and symbolic length: TypeError unless it
        # is iterable, else a list of the same length and elements
        c = cur()
        if not c.decide(x._has_len()):
            raise TypeError(f"'{x.name}' object is not iterable")
        r = AnyObj(x.name + "!aslist", c, own_cls=x.own_cls, tag=z3.IntVal(AnyObj.LIST), length=x.length,
                   value=x.value, elem=x.elem, assume_domain=False)
        if "loop_inv" in x.__dict__:
            r.__dict__["loop_inv"] = x.__dict__["loop_inv"]
        return r
    return list(x)


def sym_len2(x):
    from .symrt import sym_len
    if isinstance(x, SymList):
        return x.len_()
    if isinstance(x, SymSeq):
        return int_num(x.length)
    return sym_len(x)


LOOP_REBINDS = {"enumerate": sym_enumerate, "list": sym_list, "len": sym_len2}
from .symrt import TYPE_ALIASES  # noqa: E402
TYPE_ALIASES[sym_list] = list


# ---- the cut itself
class LoopSpec:
    """sidecar for one loop: state variable names, invariant, havoc"""

    def __init__(self, state, inv, havoc=None):
        self.state = list(state)
        self.inv = inv            # inv(k, state: dict, lc) -> z3 Bool
        self.havoc = havoc or default_havoc


def default_havoc(name, old, lc):
    """a fresh value of the same symbolic shape as `old`"""
    n = f"{lc.key}!{name}!{lc.fresh()}"
    if isinstance(old, SymList):
        return SymList(n)
    if isinstance(old, SymIntDict):
        return SymIntDict(z3.Array(f"{n}!val", IntS, RealS), z3.Int(f"{n}!size"))
    if isinstance(old, dict) and not old:
        return SymIntDict(z3.Array(f"{n}!val", IntS, RealS), z3.Int(f"{n}!size"))
    if isinstance(old, list) and not old:
        return SymList(n)
    if isinstance(old, SymNum) or (isinstance(old, (int, float)) and not isinstance(old, bool)):
        kind = old.kind if isinstance(old, SymNum) else (KINT if isinstance(old, int) else KFLOAT)
        return SymNum(z3.Real(n) if kind != KINT else z3.ToReal(z3.Int(n)), kind)
    raise EngineError(f"cannot havoc {name} of type {type(old).__name__}")


def _normalise(v):
    """native empty containers at loop entry become their symbolic counterparts"""
    if isinstance(v, list) and not v:
        return SymList(None, length=z3.IntVal(0))
    if isinstance(v, dict) and not v:
        return SymIntDict()
    return v


class LoopCut:
    _count = 0

    def __init__(self, key, iterable, state, spec):
        self.ctx = cur()
        self.key = key
        self.iterable = iterable
        self.spec = spec
        self.entry = {k: _normalise(v) for k, v in state.items()}
        self.n = seq_len(iterable)
        self.k = None
        self._fresh = 0
        LoopCut._count += 1
        self.uid = LoopCut._count
        g = spec.inv(z3.IntVal(0), self.entry, self)
        self.ctx.oblige(f"{key}/invariant-holds-on-entry", g, meta={"unbounded": True, "fn": key.split("#")[0]})

    def fresh(self):
        self._fresh += 1
        return f"{self.uid}_{self._fresh}"

    def iterate(self):
        b = z3.Bool(f"iter!{self.key}!{self.uid}")
        return self.ctx.decide(b)

    def _havoc_all(self):
        return {name: self.spec.havoc(name, self.entry[name], self) for name in self.spec.state}

    def begin_iteration(self):
        self.k = z3.Int(f"k!{self.key}!{self.uid}")
        self.ctx.assume(z3.And(self.k >= 0, self.k < self.n))
        st = self._havoc_all()
        self.ctx.assume(self.spec.inv(self.k, st, self))
        self.cur_state = st
        vals = tuple(st[n] for n in self.spec.state)
        return vals

    def item(self):
        return seq_item(self.iterable, self.k)

    def end_iteration(self, state):
        g = self.spec.inv(self.k + 1, state, self)
        self.ctx.oblige(f"{self.key}/invariant-preserved", g, meta={"unbounded": True, "fn": self.key.split("#")[0]})
        raise PathAbort("loop cut: end of the arbitrary iteration")

    def exit_state(self):
        st = self._havoc_all()
        self.ctx.assume(self.spec.inv(self.n, st, self))
        self.ctx.assume(self.n >= 0)
        return tuple(st[n] for n in self.spec.state)


class CutLoops(ast.NodeTransformer):
    """rewrites the `for` loops named in `specs` ({(qualname, ordinal): LoopSpec});
    the body statements are the original nodes"""

    def __init__(self, specs):
        self.specs = specs
        self.stack = []
        self.counters = {}
        self.cut = []

    def visit_ClassDef(self, node):
        self.stack.append(node.name)
        self.generic_visit(node)
        self.stack.pop()
        return node

    def visit_FunctionDef(self, node):
        self.stack.append(node.name)
        q = ".".join(self.stack)
        self.counters[q] = 0
        self.generic_visit(node)
        self.stack.pop()
        return node

    def visit_For(self, node):
        q = ".".join(self.stack)
        self.counters[q] = self.counters.get(q, 0) + 1
        k = self.counters[q]
        # inner loops get their ordinal before the outer is rewritten: visit body first
        self.generic_visit(node)
        spec = self.specs.get((q, k))
        if spec is None:
            return node
        for sub in ast.walk(ast.Module(body=node.body, type_ignores=[])):
            if isinstance(sub, (ast.Break, ast.Continue, ast.Return)):
                raise EngineError(f"loop cut of {q}#{k}: break/continue/return inside the body")
        if node.orelse:
            raise EngineError(f"loop cut of {q}#{k}: for-else")
        self.cut.append((q, k))
        lc = f"__pyvc_lc_{len(self.cut)}"
        state = spec.state
        state_dict = ast.Dict(keys=[ast.Constant(n) for n in state], values=[ast.Name(n, ast.Load()) for n in state])
        begin = ast.Assign(targets=[ast.Name(lc, ast.Store())],
                           value=ast.Call(func=ast.Name("__pyvc_loop__", ast.Load()),
                                          args=[ast.Constant(q), ast.Constant(k), node.iter, state_dict], keywords=[]))

        def unpack(meth):
            call = ast.Call(func=ast.Attribute(ast.Name(lc, ast.Load()), meth, ast.Load()), args=[], keywords=[])
            if not state:
                return ast.Expr(call)
            return ast.Assign(targets=[ast.Tuple([ast.Name(n, ast.Store()) for n in state], ast.Store())], value=call)
        body = [unpack("begin_iteration"),
                ast.Assign(targets=[node.target], value=ast.Call(func=ast.Attribute(ast.Name(lc, ast.Load()), "item", ast.Load()), args=[], keywords=[]))]
        body += node.body
        body.append(ast.Expr(ast.Call(func=ast.Attribute(ast.Name(lc, ast.Load()), "end_iteration", ast.Load()),
                                      args=[ast.Dict(keys=[ast.Constant(n) for n in state], values=[ast.Name(n, ast.Load()) for n in state])], keywords=[])))
        iff = ast.If(test=ast.Call(func=ast.Attribute(ast.Name(lc, ast.Load()), "iterate", ast.Load()), args=[], keywords=[]),
                     body=body, orelse=[unpack("exit_state")])
        out = [begin, iff]
        for n in out:
            ast.copy_location(n, node)
        return out


def make_loop_factory(specs):
    def factory(qualname, k, iterable, state):
        return LoopCut(f"{qualname}#{k}", iterable, state, specs[(qualname, k)])
    return factory


# ---------------------------------------------------------------------------
# dynamic cut of pure validation loops, keyed by the *iterable* rather than by the
# position of the loop in the source: robust against moving a validation loop into a
# helper, reordering or renaming (a sidecar keyed by loop ordinals breaks on such edits)
_CHECK_CALLS = {"isinstance", "len", "type", "str", "repr", "TypeError", "ValueError", "bool", "int", "float"}


def _pure_check(stmts):
    """statements that can only inspect and raise: if / raise / pass / bare expressions, calling
    nothing but a few builtins and exception constructors; no assignment of any kind"""
    for st in stmts:
        if isinstance(st, ast.If):
            if not (_pure_expr(st.test) and _pure_check(st.body) and _pure_check(st.orelse)):
                return False
        elif isinstance(st, ast.Raise):
            if not ((st.exc is None or _pure_expr(st.exc)) and (st.cause is None or _pure_expr(st.cause))):
                return False
        elif isinstance(st, ast.Pass):
            pass
        elif isinstance(st, ast.Expr):
            if not _pure_expr(st.value):
                return False
        elif isinstance(st, ast.For):
            # a nested validation loop: its target is live inside it only
            if st.orelse or not (_pure_expr(st.iter) and _pure_check(st.body)):
                return False
        else:
            return False
    return True


def _pure_expr(e):
    for n in ast.walk(e):
        if isinstance(n, (ast.NamedExpr, ast.Await, ast.Yield, ast.YieldFrom, ast.Lambda, ast.ListComp, ast.SetComp, ast.DictComp, ast.GeneratorExp)):
            return False
        if isinstance(n, ast.Call) and not (isinstance(n.func, ast.Name) and n.func.id in _CHECK_CALLS):
            return False
    return True


class CutCheckLoops(ast.NodeTransformer):
    """every `for` loop whose body is a pure check is rewritten into a run-time dispatch:
    if the iterable turns out to be a symbolic container that carries an invariant
    (`loop_inv`, attached by the harness to the argument it describes) the loop is cut with
    that invariant, otherwise it runs natively on a copy of the original body"""

    def __init__(self):
        self.stack = []
        self.counters = {}
        self.rewritten = []

    def visit_ClassDef(self, node):
        self.stack.append(node.name)
        self.generic_visit(node)
        self.stack.pop()
        return node

    def visit_FunctionDef(self, node):
        self.stack.append(node.name)
        self.counters[".".join(self.stack)] = 0
        self.generic_visit(node)
        self.stack.pop()
        return node

    def visit_For(self, node):
        import copy as _copy
        q = ".".join(self.stack)
        self.counters[q] = self.counters.get(q, 0) + 1
        k = self.counters[q]
        pure = not node.orelse and _pure_check(node.body)      # judged on the original body
        self.generic_visit(node)
        if not pure:
            return node
        self.rewritten.append((q, k))
        n = len(self.rewritten)
        it, lc = f"__pyvc_it_{n}", f"__pyvc_dlc_{n}"

        def call(obj, meth, *args):
            return ast.Call(func=ast.Attribute(ast.Name(obj, ast.Load()), meth, ast.Load()), args=list(args), keywords=[])
        native = ast.For(target=_copy.deepcopy(node.target), iter=ast.Name(it, ast.Load()), body=_copy.deepcopy(node.body), orelse=[])
        cut_body = [ast.Expr(call(lc, "begin_iteration")),
                    ast.Assign(targets=[node.target], value=call(lc, "item"))] + node.body + \
                   [ast.Expr(call(lc, "end_iteration", ast.Dict(keys=[], values=[])))]
        cut = [ast.Assign(targets=[ast.Name(lc, ast.Store())],
                          value=ast.Call(func=ast.Name("__pyvc_loop_dyn__", ast.Load()),
                                         args=[ast.Constant(q), ast.Constant(k), ast.Name(it, ast.Load())], keywords=[])),
               ast.If(test=call(lc, "iterate"), body=cut_body, orelse=[ast.Expr(call(lc, "exit_state"))])]
        out = [ast.Assign(targets=[ast.Name(it, ast.Store())], value=node.iter),
               ast.If(test=ast.Call(func=ast.Name("__pyvc_symseq__", ast.Load()), args=[ast.Name(it, ast.Load())], keywords=[]),
                      body=cut, orelse=[native])]
        for x in out:
            ast.copy_location(x, node)
            ast.fix_missing_locations(x)
        return out


def _inv_of(x):
    if isinstance(x, SymEnum):
        return _inv_of(x.seq)
    if isinstance(x, AnyObj) and x.elem is not None:
        return x.__dict__.get("loop_inv")
    return None


def symseq_with_invariant(x):
    return _inv_of(x) is not None


DYN_CUTS = []      # (key) of every dynamic cut performed (a vacuity guard for the harness)


def dyn_loop_factory(qualname, k, iterable):
    inv = _inv_of(iterable)
    DYN_CUTS.append(f"{qualname}#{k}")
    return LoopCut(f"{qualname}#{k}", iterable, {}, LoopSpec([], lambda kk, st, lc: inv(kk)))


DYN_REBINDS = {"__pyvc_symseq__": symseq_with_invariant, "__pyvc_loop_dyn__": dyn_loop_factory}


def sidecar_mismatch(fn_node, specs, qualname):
    """why the loop sidecar `specs` (keyed by loop ordinal, naming the loop's state variables) does
    not describe the function any more, or None.  A sidecar that no longer matches means the
    unbounded proof is not attempted on this tree - it never means the property fails."""
    if fn_node is None:
        return f"{qualname} not found"
    loops = []

    def walk(stmts):
        for st in stmts:
            if isinstance(st, (ast.FunctionDef, ast.ClassDef)):
                continue
            if isinstance(st, ast.For):
                loops.append(st)
            for fld in ("body", "orelse", "finalbody"):
                walk(getattr(st, fld, []) or [])
            for h in getattr(st, "handlers", []) or []:
                walk(h.body)
    walk(fn_node.body)
    want = sorted(k for (q, k) in specs if q == qualname)
    if len(loops) != len(want):
        return f"{qualname} has {len(loops)} for-loops, the loop contracts describe {len(want)}"
    for (q, k), spec in specs.items():
        if q != qualname:
            continue
        stored = {n.id for n in ast.walk(loops[k - 1]) if isinstance(n, ast.Name) and isinstance(n.ctx, ast.Store)}
        called = {n.func.value.id for n in ast.walk(loops[k - 1]) if isinstance(n, ast.Call) and isinstance(n.func, ast.Attribute)
                  and isinstance(n.func.value, ast.Name)}
        subs = {n.value.id for n in ast.walk(loops[k - 1]) if isinstance(n, (ast.Subscript, ast.Attribute))
                and isinstance(n.ctx, (ast.Store, ast.Del)) and isinstance(n.value, ast.Name)}
        missing = [v for v in spec.state if v not in stored | called | subs]
        if missing:
            return f"loop {k} of {qualname} does not update {missing}, which its loop contract is about"
    return None
