"""Numeric evaluation of z3 real terms (floats) - used only for the CPython
cross-check of the engine and the self-check of the normaliser, never as proof."""
from __future__ import annotations

import math
from statistics import NormalDist

import z3

_N = NormalDist()
FUN = {
    "sqrt": math.sqrt, "exp": math.exp, "log": math.log, "erf": math.erf, "erfc": math.erfc,
    "Phi": lambda x: 0.5 * math.erfc(-x / math.sqrt(2.0)), "phi": _N.pdf, "PhiInv": _N.inv_cdf,
    "fsqrt": math.sqrt, "fexp": math.exp,
}
FUN2 = {"fadd": lambda a, b: a + b, "fsub": lambda a, b: a - b, "fmul": lambda a, b: a * b,
        "fdiv": lambda a, b: a / b, "fpow": lambda a, b: a ** b, "rpow": lambda a, b: a ** b}


class CannotEval(Exception):
    pass


def evalf(e, env, extra=None, memo=None):
    """env: {symbol name: float}; extra: {uf name: python callable}"""
    memo = {} if memo is None else memo
    k = e.get_id()
    if k in memo:
        return memo[k]
    r = _ev(e, env, extra or {}, memo)
    memo[k] = r
    return r


def _ev(e, env, extra, memo):
    if z3.is_rational_value(e):
        return e.numerator_as_long() / e.denominator_as_long()
    if z3.is_int_value(e):
        return float(e.as_long())
    if z3.is_true(e):
        return True
    if z3.is_false(e):
        return False
    d = e.decl()
    kd = d.kind()
    ch = e.children()
    ev = lambda x: evalf(x, env, extra, memo)
    if kd == z3.Z3_OP_UNINTERPRETED:
        n = d.name()
        if not ch:
            if n not in env:
                raise CannotEval(n)
            return env[n]
        if n in extra:
            return extra[n](*[ev(c) for c in ch])
        if n in FUN:
            return FUN[n](ev(ch[0]))
        if n in FUN2:
            return FUN2[n](ev(ch[0]), ev(ch[1]))
        raise CannotEval(n)
    if kd == z3.Z3_OP_ADD:
        return sum(ev(c) for c in ch)
    if kd == z3.Z3_OP_SUB:
        r = ev(ch[0])
        for c in ch[1:]:
            r -= ev(c)
        return r
    if kd == z3.Z3_OP_UMINUS:
        return -ev(ch[0])
    if kd == z3.Z3_OP_MUL:
        r = 1.0
        for c in ch:
            r *= ev(c)
        return r
    if kd == z3.Z3_OP_DIV:
        return ev(ch[0]) / ev(ch[1])
    if kd == z3.Z3_OP_POWER:
        return ev(ch[0]) ** ev(ch[1])
    if kd == z3.Z3_OP_TO_REAL:
        return ev(ch[0])
    if kd == z3.Z3_OP_ITE:
        return ev(ch[1]) if ev(ch[0]) else ev(ch[2])
    if kd == z3.Z3_OP_LE:
        return ev(ch[0]) <= ev(ch[1])
    if kd == z3.Z3_OP_LT:
        return ev(ch[0]) < ev(ch[1])
    if kd == z3.Z3_OP_GE:
        return ev(ch[0]) >= ev(ch[1])
    if kd == z3.Z3_OP_GT:
        return ev(ch[0]) > ev(ch[1])
    if kd == z3.Z3_OP_EQ:
        return ev(ch[0]) == ev(ch[1])
    if kd == z3.Z3_OP_DISTINCT:
        return ev(ch[0]) != ev(ch[1])
    if kd == z3.Z3_OP_AND:
        return all(ev(c) for c in ch)
    if kd == z3.Z3_OP_OR:
        return any(ev(c) for c in ch)
    if kd == z3.Z3_OP_NOT:
        return not ev(ch[0])
    if kd == z3.Z3_OP_IMPLIES:
        return (not ev(ch[0])) or ev(ch[1])
    raise CannotEval(d.name())


def eval_poly(N, p, env, extra=None):
    """evaluate a poly.Poly at the point env (atoms evaluated from their definitions)"""
    cache = {}

    def atom(i):
        if i in cache:
            return cache[i]
        kind, key, payload = N.atoms.info[i]
        if kind == "sym":
            v = env[key]
        elif kind == "sqrt":
            v = math.sqrt(pol(payload))
        elif kind == "inv":
            v = 1.0 / pol(payload)
        elif kind == "expm":
            m, q = key
            x = 1.0
            for (a, e) in m:
                x *= atom(a) ** e
            v = math.exp(x / q)
        elif kind == "uf":
            name = key[0]
            args = [pol(Poly_from_key(k)) for k in key[1:]]
            f = (extra or {}).get(name) or FUN.get(name) or FUN2.get(name)
            if f is None:
                raise CannotEval(name)
            v = f(*args)
        elif kind == "ite":
            cond, pa, pb = payload
            v = pol(pa) if evalf(cond, env, extra) else pol(pb)
        else:
            raise CannotEval(kind)
        cache[i] = v
        return v

    def pol(q):
        s = 0.0
        for m, c in q.t.items():
            x = float(c)
            for (a, e) in m:
                x *= atom(a) ** e
            s += x
        return s
    return pol(p)


def Poly_from_key(k):
    from .poly import Poly
    return Poly(dict(k))
