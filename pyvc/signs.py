"""pyvc.signs - structural sign prover (the `split` tactic).

Proves t >= 0 / t > 0 / t <= 0 / t < 0 for a z3 real term under hypotheses by
recursion over the term: a sum from its addends, a product/quotient from its
factors, an if-then-else from both branches; leaves (and any small term) go to
the SMT solver with the *relevant* lemma instances only."""
from __future__ import annotations

import time

import z3

from . import tactics
from .symrt import is_light

FLIP = {"ge": "le", "le": "ge", "gt": "lt", "lt": "gt"}
WEAK = {"gt": "ge", "lt": "le", "ge": "ge", "le": "le"}


def _size(t, cap=400):
    n = 0
    seen = set()
    stack = [t]
    while stack:
        e = stack.pop()
        if e.get_id() in seen:
            continue
        seen.add(e.get_id())
        n += 1
        if n > cap:
            return n
        stack.extend(e.children())
    return n


def _uf_app_ids(t):
    """ids of the uninterpreted applications (arity > 0) inside t"""
    out = set()
    seen = set()
    stack = [t]
    while stack:
        e = stack.pop()
        if e.get_id() in seen:
            continue
        seen.add(e.get_id())
        if z3.is_app(e) and e.num_args() > 0 and e.decl().kind() == z3.Z3_OP_UNINTERPRETED:
            out.add(e.get_id())
        stack.extend(e.children())
    return out


def _subterm_ids(t):
    seen = set()
    stack = [t]
    while stack:
        e = stack.pop()
        if e.get_id() in seen:
            continue
        seen.add(e.get_id())
        stack.extend(e.children())
    return seen


class SignProver:
    def __init__(self, hyps, facts, leaf_timeout_ms=1500, small=40):
        self.hyps = list(hyps)
        self.facts = list(facts)          # (formula, level, subject)
        self.leaf_timeout_ms = leaf_timeout_ms
        self.small = small
        self.cache = {}
        self.keep = []
        self.leaf_calls = 0
        self.leaf_time = 0.0
        self.trace = []
        self._hyp_ids = [(h, _uf_app_ids(h) if not is_light(h) else None) for h in self.hyps]

    # ---- leaf: SMT with relevant facts
    def _goal(self, t, want):
        z = z3.RealVal(0)
        return {"ge": t >= z, "le": t <= z, "gt": t > z, "lt": t < z}[want]

    def leaf(self, t, want, extra=()):
        ids = _subterm_ids(t)
        sel = []
        for (h, hid) in self._hyp_ids:
            # a non-light hypothesis is relevant if it shares an uninterpreted application with t
            if hid is None or (hid & ids):
                sel.append(h)
        apps = ids
        for (f, lvl, subj) in self.facts:
            if subj is not None and subj.get_id() in apps:
                sel.append(f)
        for h in extra:
            sel.append(h)
        t0 = time.time()
        r, be, m, why = tactics.check_sat(sel + [z3.Not(self._goal(t, want))], timeout_ms=self.leaf_timeout_ms,
                                          use_cvc5=False, nlsat=True)
        self.leaf_calls += 1
        self.leaf_time += time.time() - t0
        return r == "unsat"

    # ---- recursion
    def prove(self, t, want, extra=(), depth=0):
        key = (t.get_id(), want)
        if key in self.cache:
            return self.cache[key]
        self.keep.append(t)
        r = self._prove(t, want, extra, depth)
        self.cache[key] = r
        return r

    def _prove(self, t, want, extra, depth):
        if z3.is_rational_value(t) or z3.is_int_value(t):
            v = t.numerator_as_long() if z3.is_rational_value(t) else t.as_long()
            return {"ge": v >= 0, "le": v <= 0, "gt": v > 0, "lt": v < 0}[want]
        if depth > 60:
            return self.leaf(t, want, extra)
        sz = _size(t, self.small + 1)
        if sz <= self.small:
            if self.leaf(t, want, extra):
                return True
        kd = t.decl().kind() if z3.is_app(t) else None
        ch = t.children() if z3.is_app(t) else []
        if kd == z3.Z3_OP_ADD:
            if want in ("ge", "le"):
                if all(self.prove(c, want, extra, depth + 1) for c in ch):
                    return True
            else:
                w = WEAK[want]
                if all(self.prove(c, w, extra, depth + 1) for c in ch) and any(self.prove(c, want, extra, depth + 1) for c in ch):
                    return True
        elif kd == z3.Z3_OP_UMINUS:
            if self.prove(ch[0], FLIP[want], extra, depth + 1):
                return True
        elif kd in (z3.Z3_OP_MUL, z3.Z3_OP_DIV):
            if self._product(t, ch, kd, want, extra, depth):
                return True
        elif kd == z3.Z3_OP_SUB:
            # a - b - c ... : a `want` and the rest flipped
            if want in ("ge", "le"):
                if self.prove(ch[0], want, extra, depth + 1) and all(self.prove(c, FLIP[want], extra, depth + 1) for c in ch[1:]):
                    return True
        elif kd == z3.Z3_OP_ITE:
            c = ch[0]
            if self.prove(ch[1], want, tuple(extra) + (c,), depth + 1) and self.prove(ch[2], want, tuple(extra) + (z3.Not(c),), depth + 1):
                return True
        elif kd == z3.Z3_OP_POWER:
            if z3.is_rational_value(ch[1]) and ch[1].denominator_as_long() == 1 and ch[1].numerator_as_long() % 2 == 0 and ch[1].numerator_as_long() > 0:
                if want == "ge":
                    return True
                if want == "gt" and (self.prove(ch[0], "gt", extra, depth + 1) or self.prove(ch[0], "lt", extra, depth + 1)):
                    return True
        if sz > self.small:
            return self.leaf(t, want, extra)
        return False

    def _factor_sign(self, c, strict, extra, depth):
        """+1 / -1 / 0(unknown); strict asks for > / <"""
        pos, neg = ("gt", "lt") if strict else ("ge", "le")
        if self.prove(c, pos, extra, depth + 1):
            return 1
        if self.prove(c, neg, extra, depth + 1):
            return -1
        return 0

    def _product(self, t, ch, kd, want, extra, depth):
        strict = want in ("gt", "lt")
        sign = 1
        # x*x style squares
        if kd == z3.Z3_OP_MUL and len(ch) == 2 and z3.eq(ch[0], ch[1]):
            if want == "ge":
                return True
        for idx, c in enumerate(ch):
            need_strict = strict or (kd == z3.Z3_OP_DIV and idx == 1)
            s = self._factor_sign(c, need_strict, extra, depth)
            if s == 0:
                return False
            sign *= s
        return (sign > 0) == (want in ("ge", "gt"))
