"""pyvc.symrt - symbolic run-time.

Proxy values (SymNum, SymBool, AnyObj) on which the *real* function bodies are
executed by CPython, the path explorer (forks only inside ``__bool__``), and the
obligation store.  Two numeric algebras:

R  mathematical reals: + - * / are field operations, sqrt/exp/Phi/phi/PhiInv
   are uninterpreted functions constrained by instances of the assumed lemmas
   of DESIGN.md section 4 (recorded as *facts*).
U  "uninterpreted IEEE": + - * / ** sqrt exp ... are uninterpreted functions
   over the (real) values of the operands, fadd/fmul commutative; negation, abs
   and comparisons are exact on floats and therefore interpreted.  Two result
   terms that are equal in U are the same float whatever rounding does.
"""
from __future__ import annotations

import fractions
import math as _math
import os
import sys
import time

import z3

R = z3.RealSort()
B = z3.BoolSort()
I = z3.IntSort()


class EngineError(Exception):
    """A construct the engine does not model; never a verdict (exit 3)."""


class PathAbort(BaseException):
    """Ends the current path (infeasible assumption, loop-cut end)."""


_CUR = None


def cur():
    if _CUR is None:
        raise EngineError("no active pyvc context")
    return _CUR


def set_cur(ctx):
    global _CUR
    _CUR = ctx


class active:
    """with active(ctx): ...  - evaluate SymNum expressions in ctx after its exploration"""

    def __init__(self, ctx):
        self.ctx = ctx

    def __enter__(self):
        self.prev = _CUR
        set_cur(self.ctx)
        return self.ctx

    def __exit__(self, *a):
        set_cur(self.prev)
        return False


# --------------------------------------------------------------------------
# kinds
KBOOL, KINT, KFLOAT = 0, 1, 2
_KNAME = {KBOOL: "bool", KINT: "int", KFLOAT: "float"}


def _kind_of_py(x):
    if isinstance(x, bool):
        return KBOOL
    if isinstance(x, int):
        return KINT
    if isinstance(x, float):
        return KFLOAT
    if isinstance(x, fractions.Fraction):
        return KFLOAT
    raise EngineError(f"not a number: {x!r}")


def realval(x):
    """Exact z3 real for a Python number."""
    if isinstance(x, bool):
        return z3.RealVal(int(x))
    if isinstance(x, int):
        return z3.RealVal(x)
    if isinstance(x, float):
        if x != x or x in (float("inf"), float("-inf")):
            raise EngineError(f"non-finite constant {x!r}")
        fr = fractions.Fraction(x)
        return z3.RealVal(f"{fr.numerator}/{fr.denominator}")
    if isinstance(x, fractions.Fraction):
        return z3.RealVal(f"{x.numerator}/{x.denominator}")
    raise EngineError(f"not a number: {x!r}")


def _kterm(k):
    return z3.IntVal(k) if isinstance(k, int) else k


def _both_int(k1, k2):
    """z3 condition 'both operand kinds are int/bool' for symbolic kinds, or None"""
    if k1 is None or k2 is None or (isinstance(k1, int) and isinstance(k2, int)):
        return None
    return z3.And(_kterm(k1) <= KINT, _kterm(k2) <= KINT)


def _join_kind(k1, k2, op):
    """Python's result kind for a binary arithmetic operator."""
    if k1 is None or k2 is None:
        return None
    if op == "/":
        return KFLOAT
    if not isinstance(k1, int) or not isinstance(k2, int):
        if op == "**":
            return None  # int ** negative int is a float: value-dependent, not modelled
        # symbolic kinds: float if either operand is a float, else int (bool op bool is int)
        return z3.simplify(z3.If(z3.Or(_kterm(k1) == KFLOAT, _kterm(k2) == KFLOAT), z3.IntVal(KFLOAT), z3.IntVal(KINT)))
    if k1 == KFLOAT or k2 == KFLOAT:
        return KFLOAT
    return KINT


# --------------------------------------------------------------------------
class SymBool:
    __slots__ = ("e",)

    def __init__(self, e):
        self.e = e

    def __bool__(self):
        return cur().decide(self.e)

    def __and__(self, o):
        return SymBool(z3.And(self.e, _b(o)))

    __rand__ = __and__

    def __or__(self, o):
        return SymBool(z3.Or(self.e, _b(o)))

    __ror__ = __or__

    def __invert__(self):
        return SymBool(z3.Not(self.e))

    def __eq__(self, o):
        return SymBool(self.e == _b(o))

    def __ne__(self, o):
        return SymBool(self.e != _b(o))

    __hash__ = None

    def __repr__(self):
        return f"SymBool({self.e})"

    def __deepcopy__(self, memo):
        return self

    # a bool used as a number (True + 1): force a decision
    def __index__(self):
        return int(bool(self))


def _b(o):
    if isinstance(o, SymBool):
        return o.e
    if isinstance(o, bool):
        return z3.BoolVal(o)
    if z3.is_bool(o):
        return o
    raise EngineError(f"not a boolean: {o!r}")


def tobool(o):
    """z3 Bool for a Python/Sym boolean."""
    return _b(o)


# --------------------------------------------------------------------------
class SymNum:
    """A number whose value is the z3 Real term ``t``; ``kind`` is KBOOL/KINT/
    KFLOAT, a z3 Int term (symbolic kind) or None (unknown)."""

    __slots__ = ("t", "kind")

    def __init__(self, t, kind=KFLOAT):
        self.t = t
        self.kind = kind

    # ---- helpers
    @staticmethod
    def lift(x):
        if isinstance(x, SymNum):
            return x
        if isinstance(x, SymBool):
            return SymNum(z3.If(x.e, z3.RealVal(1), z3.RealVal(0)), KBOOL)
        if isinstance(x, (bool, int, float, fractions.Fraction)):
            return SymNum(realval(x), _kind_of_py(x))
        return None

    def _bin(self, o, op, swap=False):
        o = SymNum.lift(o)
        if o is None:
            return NotImplemented
        a, b = (o, self) if swap else (self, o)
        return cur().alg.binop(op, a, b)

    def __add__(self, o):
        return self._bin(o, "+")

    def __radd__(self, o):
        return self._bin(o, "+", True)

    def __sub__(self, o):
        return self._bin(o, "-")

    def __rsub__(self, o):
        return self._bin(o, "-", True)

    def __mul__(self, o):
        return self._bin(o, "*")

    def __rmul__(self, o):
        return self._bin(o, "*", True)

    def __truediv__(self, o):
        return self._bin(o, "/")

    def __rtruediv__(self, o):
        return self._bin(o, "/", True)

    def __pow__(self, o):
        return self._bin(o, "**")

    def __rpow__(self, o):
        return self._bin(o, "**", True)

    def __neg__(self):
        k = self.kind
        if k == KBOOL:
            k = KINT
        elif k is not None and not isinstance(k, int):
            k = z3.If(k == KBOOL, z3.IntVal(KINT), k)
        return SymNum(-self.t, k)

    def __pos__(self):
        return self

    def __abs__(self):
        k = self.kind
        if k == KBOOL:
            k = KINT
        return SymNum(z3.If(self.t >= 0, self.t, -self.t), k)

    def _cmp(self, o, f):
        o = SymNum.lift(o)
        if o is None:
            return NotImplemented
        return SymBool(f(self.t, o.t))

    def __lt__(self, o):
        return self._cmp(o, lambda a, b: a < b)

    def __le__(self, o):
        return self._cmp(o, lambda a, b: a <= b)

    def __gt__(self, o):
        return self._cmp(o, lambda a, b: a > b)

    def __ge__(self, o):
        return self._cmp(o, lambda a, b: a >= b)

    def __eq__(self, o):
        l = SymNum.lift(o)
        if l is None:
            return False if not isinstance(o, AnyObj) else NotImplemented
        return SymBool(self.t == l.t)

    def __ne__(self, o):
        l = SymNum.lift(o)
        if l is None:
            return True if not isinstance(o, AnyObj) else NotImplemented
        return SymBool(self.t != l.t)

    def __hash__(self):
        # recorded: a result that depends on the hash of a number is flagged by C14.  Every
        # symbolic number has the *same* hash: two different terms may denote equal values (and
        # equal floats hash equal), so a dict / set lookup must always fall through to ==, which
        # forks on the equality (a structural hash silently assumed "different terms are
        # different values": round-5 seed C09, a memo keyed by (mu_a, mu_b))
        c = _CUR
        if c is not None:
            c.events.append(("hash", "SymNum"))
        return 0x5eed

    def __bool__(self):
        return cur().decide(self.t != 0)

    def __float__(self):
        raise EngineError("float() of a symbolic number outside a rebound namespace")

    def __index__(self):
        # range(n) / seq[n] / seq[a:b] with a symbolic n: a concrete value is fine, anything else is a
        # construct the engine does not model (never the code's own TypeError)
        v = z3.simplify(self.t)
        if z3.is_rational_value(v) and v.denominator_as_long() == 1:
            return v.numerator_as_long()
        raise UncutLoop("a symbolic number is used as an index, a slice bound or a range() bound")

    def __deepcopy__(self, memo):
        return self

    def __copy__(self):
        return self

    def __repr__(self):
        k = _KNAME.get(self.kind, "?") if isinstance(self.kind, int) else "sym"
        s = str(self.t)
        if len(s) > 60:
            s = s[:57] + "..."
        return f"<{k} {s}>"

    __str__ = __repr__

    def __format__(self, spec):
        return repr(self)

    # ---- kind queries (used by the rebound isinstance)
    def isinstance_(self, types):
        if not isinstance(types, tuple):
            types = (types,)
        if self.kind is None:
            raise EngineError("isinstance() on a number of unknown kind")
        conc = isinstance(self.kind, int)
        res = False if conc else z3.BoolVal(False)
        for T in types:
            if T is object:
                return True
            if T is bool:
                ok = (self.kind == KBOOL)
            elif T is int:
                ok = (self.kind <= KINT) if conc else (self.kind <= KINT)
            elif T is float:
                ok = (self.kind == KFLOAT)
            else:
                continue
            if conc:
                res = res or ok
            else:
                res = z3.Or(res, ok)
        if conc:
            return res
        return SymBool(z3.simplify(res))


def term(x):
    """z3 Real term of a number-like value."""
    l = SymNum.lift(x)
    if l is None:
        raise EngineError(f"not a number: {x!r}")
    return l.t


# --------------------------------------------------------------------------
# uninterpreted functions
_sqrt = z3.Function("sqrt", R, R)
_exp = z3.Function("exp", R, R)
_log = z3.Function("log", R, R)
_Phi = z3.Function("Phi", R, R)
_phi = z3.Function("phi", R, R)
_PhiInv = z3.Function("PhiInv", R, R)
_erf = z3.Function("erf", R, R)
_erfc = z3.Function("erfc", R, R)
_pow = z3.Function("rpow", R, R, R)

UF = {"sqrt": _sqrt, "exp": _exp, "log": _log, "Phi": _Phi, "phi": _phi,
      "PhiInv": _PhiInv, "erf": _erf, "erfc": _erfc, "rpow": _pow}

_fadd = z3.Function("fadd", R, R, R)
_fsub = z3.Function("fsub", R, R, R)
_fmul = z3.Function("fmul", R, R, R)
_fdiv = z3.Function("fdiv", R, R, R)
_fpow = z3.Function("fpow", R, R, R)
_fsqrt = z3.Function("fsqrt", R, R)
_fexp = z3.Function("fexp", R, R)
_flog = z3.Function("flog", R, R)
_fPhi = z3.Function("fPhi", R, R)
_fphi = z3.Function("fphi", R, R)
_fPhiInv = z3.Function("fPhiInv", R, R)
_ferf = z3.Function("ferf", R, R)
_ferfc = z3.Function("ferfc", R, R)
# integer arithmetic is exact in Python: int (+,-,*) int stays interpreted in U


class _Alg:
    def __init__(self, ctx):
        self.ctx = ctx


class RAlg(_Alg):
    name = "R"

    def binop(self, op, a, b):
        k = _join_kind(a.kind, b.kind, op)
        if op == "+":
            return SymNum(a.t + b.t, k)
        if op == "-":
            return SymNum(a.t - b.t, k)
        if op == "*":
            r = a.t * b.t
            self._magnitude(r)
            return SymNum(r, k)
        if op == "/":
            self.ctx.safety_check("div-nonzero", b.t != 0)
            r = a.t / b.t
            self._magnitude(r)
            return SymNum(r, KFLOAT)
        if op == "**":
            e = z3.simplify(b.t)
            if z3.is_rational_value(e):
                fr = fractions.Fraction(e.numerator_as_long(), e.denominator_as_long())
                if fr.denominator == 1 and abs(fr.numerator) <= 8:
                    n = fr.numerator
                    if n == 0:
                        return SymNum(z3.RealVal(1), k)
                    t = a.t
                    for _ in range(abs(n) - 1):
                        t = t * a.t
                    if n < 0:
                        self.ctx.safety_check("div-nonzero", a.t != 0)
                        t = 1 / t
                        k = KFLOAT
                    self._magnitude(t, "power-no-overflow")
                    return SymNum(t, k)
                if fr == fractions.Fraction(1, 2):
                    return self.fn("sqrt", a)
            raise EngineError(f"unsupported power {b!r}")
        raise EngineError(op)

    _BIG = None

    def _magnitude(self, r, what="product-no-overflow"):
        """a float product / quotient / power must stay within the finite range (Python's ** even
        raises OverflowError); only generated when safety obligations are on"""
        if self.ctx.safety:
            if getattr(self.ctx, "safety_raising_only", False):
                # only operations that *raise* on overflow are obligations (float ** raises OverflowError,
                # a float product or quotient quietly becomes inf)
                if what != "power-no-overflow":
                    return
                big = z3.RealVal("17976931348623157" + "0" * 292)
                self.ctx.safety_check(what, z3.And(r <= big, r >= -big))
                return
            if RAlg._BIG is None:
                RAlg._BIG = z3.RealVal("1" + "0" * 300)
            self.ctx.safety_check(what, z3.And(r <= RAlg._BIG, r >= -RAlg._BIG))

    def fn(self, name, a):
        a = SymNum.lift(a)
        c = self.ctx
        if name not in UF:
            # any other one-argument library function: a deterministic function of its argument
            UF[name] = z3.Function(name, R, R)
        t = UF[name](a.t)
        if name == "sqrt":
            c.safety_check("sqrt-domain", a.t >= 0)
            c.fact(("sqrt", t), z3.Implies(a.t >= 0, t >= 0), "sign", t)
            c.fact(("sqrt+", t), z3.Implies(a.t > 0, t > 0), "sign", t)
            c.fact(("sqrtdef", t), z3.Implies(a.t >= 0, t * t == a.t), "def", t)
        elif name == "exp":
            if getattr(c, "safety_raising_only", False):
                c.safety_check("exp-range", a.t <= 709)      # math.exp raises above ~709.78; it underflows to 0.0 quietly
            else:
                c.safety_check("exp-range", z3.And(a.t <= 700, a.t >= -700))
            c.fact(("exp", t), t > 0, "sign", t)
        elif name == "log":
            c.safety_check("log-domain", a.t > 0)
        elif name == "Phi":
            c.fact(("Phi", t), z3.And(t > 0, t < 1), "sign", t)
        elif name == "phi":
            c.fact(("phi", t), z3.And(t > 0, t < z3.RealVal("2/5")), "sign", t)
        elif name == "PhiInv":
            c.safety_check("invcdf-domain", z3.And(a.t > 0, a.t < 1))
            # A-Phi: PhiInv is increasing with PhiInv(1/2) = 0
            half = z3.RealVal("1/2")
            c.fact(("PhiInv", t), z3.And(z3.Implies(a.t > half, t > 0), z3.Implies(a.t == half, t == 0),
                                         z3.Implies(a.t < half, t < 0)), "sign", t)
        elif name == "erf":
            c.fact(("erf", t), z3.And(t > -1, t < 1), "sign", t)
        elif name == "erfc":
            c.fact(("erfc", t), z3.And(t > 0, t < 2), "sign", t)
        c.apps.setdefault(name, {})[t.get_id()] = (t, a.t)
        return SymNum(t, KFLOAT)


    def fnn(self, name, xs):
        """n-ary library functions over the reals: fsum is the sum, hypot the root of the sum of squares"""
        xs = [SymNum.lift(v) for v in xs]
        if name == "fsum":
            r = SymNum(z3.RealVal(0), KFLOAT)
            for v in xs:
                r = self.binop("+", r, v)
            return SymNum(r.t, KFLOAT)
        if name == "hypot":
            r = SymNum(z3.RealVal(0), KFLOAT)
            for v in xs:
                r = self.binop("+", r, self.binop("*", v, v))
            return self.fn("sqrt", r)
        raise EngineError(f"n-ary {name} is not modelled")

    _F2 = {}

    def fn2(self, name, a, b, commutative=False):
        a, b = SymNum.lift(a), SymNum.lift(b)
        if name == "hypot":
            return self.fn("sqrt", self.binop("+", self.binop("*", a, a), self.binop("*", b, b)))
        if name not in self._F2:
            self._F2[name] = z3.Function(name, R, R, R)
        return SymNum(self._F2[name](a.t, b.t), KFLOAT)


class UAlg(_Alg):
    name = "U"

    def binop(self, op, a, b):
        k = _join_kind(a.kind, b.kind, op)
        exact_int = (isinstance(a.kind, int) and isinstance(b.kind, int)
                     and a.kind <= KINT and b.kind <= KINT)
        # symbolic operand kinds: the float operation stands for the int one as well (int and
        # float arithmetic coincide on integers below 2^53 - stated assumption); only the
        # result *kind* is tracked exactly
        if op == "+":
            if exact_int:
                return SymNum(a.t + b.t, k)
            # IEEE: 0 + x == x (up to the sign of a zero result, which no comparison observes)
            if _is_zero(a.t):
                return SymNum(b.t, k)
            if _is_zero(b.t):
                return SymNum(a.t, k)
            x, y = _order(a.t, b.t)
            return SymNum(_fadd(x, y), k)
        if op == "-":
            if exact_int:
                return SymNum(a.t - b.t, k)
            return SymNum(_fsub(a.t, b.t), k)
        if op == "*":
            if exact_int:
                return SymNum(a.t * b.t, k)
            # IEEE: x * 1 == x exactly
            if _is_one(b.t):
                return SymNum(a.t, k)
            if _is_one(a.t):
                return SymNum(b.t, k)
            x, y = _order(a.t, b.t)
            return SymNum(_fmul(x, y), k)
        if op == "/":
            self.ctx.safety_check("div-nonzero", b.t != 0)
            if _is_one(b.t):
                return SymNum(a.t, KFLOAT)
            return SymNum(_fdiv(a.t, b.t), KFLOAT)
        if op == "**":
            return SymNum(_fpow(a.t, b.t), k)
        raise EngineError(op)

    _F = {"sqrt": _fsqrt, "exp": _fexp, "log": _flog, "Phi": _fPhi, "phi": _fphi,
          "PhiInv": _fPhiInv, "erf": _ferf, "erfc": _ferfc}

    def fn(self, name, a):
        a = SymNum.lift(a)
        if name not in self._F:
            self._F[name] = z3.Function("f" + name, R, R)
        return SymNum(self._F[name](a.t), KFLOAT)

    _FN = {}

    def fnn(self, name, xs):
        """an n-ary library function whose value does not depend on the order of its arguments
        (fsum is the correctly rounded exact sum, hypot is symmetric): its own uninterpreted
        operation per arity, applied to the canonically ordered arguments - never identified
        with a chain of float additions"""
        ts = [SymNum.lift(v).t for v in xs]
        if not ts:
            return SymNum(z3.RealVal(0), KFLOAT)
        ts.sort(key=lambda t: (t.hash(), t.sexpr()))
        key = (name, len(ts))
        if key not in self._FN:
            self._FN[key] = z3.Function(f"f{name}{len(ts)}", *([R] * (len(ts) + 1)))
        return SymNum(self._FN[key](*ts), KFLOAT)

    _F2 = {}

    def fn2(self, name, a, b, commutative=False):
        """a two-argument library function (hypot, atan2, fmod, ...) as its own uninterpreted
        float operation: not identified with any formula built from other operations"""
        a, b = SymNum.lift(a), SymNum.lift(b)
        if name not in self._F2:
            self._F2[name] = z3.Function("f" + name, R, R, R)
        x, y = _order(a.t, b.t) if commutative else (a.t, b.t)
        return SymNum(self._F2[name](x, y), KFLOAT)


def _is_zero(t):
    return z3.is_rational_value(t) and t.numerator_as_long() == 0


def _is_one(t):
    return z3.is_rational_value(t) and t.numerator_as_long() == 1 and t.denominator_as_long() == 1


def _order(x, y):
    """Canonical argument order for the commutative fadd/fmul.  The structural
    hash is stable for structurally equal terms (AST ids are recycled by z3
    when terms are freed, so they are not)."""
    hx, hy = x.hash(), y.hash()
    if hx != hy:
        return (x, y) if hx < hy else (y, x)
    if z3.eq(x, y):
        return (x, y)
    return (x, y) if x.sexpr() <= y.sexpr() else (y, x)


# --------------------------------------------------------------------------
class SymMath:
    """Stand-in for the ``math`` module inside a scratch namespace."""

    pi = _math.pi
    e = _math.e
    inf = _math.inf

    @staticmethod
    def _f(name, native, x):
        if isinstance(x, SymNum):
            return cur().alg.fn(name, x)
        if isinstance(x, SymBool):
            return cur().alg.fn(name, SymNum.lift(x))
        return native(x)

    def sqrt(self, x):
        return self._f("sqrt", _math.sqrt, x)

    def exp(self, x):
        return self._f("exp", _math.exp, x)

    def log(self, x):
        return self._f("log", _math.log, x)

    def erf(self, x):
        return self._f("erf", _math.erf, x)

    def erfc(self, x):
        return self._f("erfc", _math.erfc, x)

    def fabs(self, x):
        if isinstance(x, SymNum):
            return abs(x)
        return _math.fabs(x)

    def copysign(self, x, y):
        if not any(isinstance(v, (SymNum, SymBool)) for v in (x, y)):
            return _math.copysign(x, y)
        lx, ly = SymNum.lift(x), SymNum.lift(y)
        # the sign of a zero y is not represented (no signed zeros in either mode): y = 0 counts as +0
        ax = abs(lx)
        r = _ite_num(ly.t >= 0, ax, -ax)
        return SymNum(r.t, KFLOAT)

    def hypot(self, *a):
        if not any(isinstance(v, (SymNum, SymBool)) for v in a):
            return _math.hypot(*a)
        if len(a) == 2:
            return cur().alg.fn2("hypot", a[0], a[1], commutative=True)
        return cur().alg.fnn("hypot", a)

    def fsum(self, xs):
        xs = list(xs)
        if not any(isinstance(v, (SymNum, SymBool)) for v in xs):
            return _math.fsum(xs)
        return cur().alg.fnn("fsum", xs)

    def prod(self, xs, *, start=1):
        xs = list(xs)
        if not any(isinstance(v, (SymNum, SymBool)) for v in xs + [start]):
            return _math.prod(xs, start=start)
        r = start
        for v in xs:
            r = r * v
        return r

    def pow(self, x, y):
        if not any(isinstance(v, (SymNum, SymBool)) for v in (x, y)):
            return _math.pow(x, y)
        return sym_float(SymNum.lift(x) ** y)

    def isfinite(self, x):
        if isinstance(x, SymNum):
            return True
        return _math.isfinite(x)

    def isinf(self, x):
        if isinstance(x, SymNum):
            return False
        return _math.isinf(x)

    def isnan(self, x):
        if isinstance(x, SymNum):
            return False
        return _math.isnan(x)

    def isclose(self, a, b, *, rel_tol=1e-09, abs_tol=0.0):
        if not any(isinstance(v, (SymNum, SymBool)) for v in (a, b, rel_tol, abs_tol)):
            return _math.isclose(a, b, rel_tol=rel_tol, abs_tol=abs_tol)
        la, lb = SymNum.lift(a), SymNum.lift(b)
        d = z3.If(la.t >= lb.t, la.t - lb.t, lb.t - la.t)
        aa = z3.If(la.t >= 0, la.t, -la.t)
        ab = z3.If(lb.t >= 0, lb.t, -lb.t)
        big = z3.If(aa >= ab, aa, ab)
        tol = term(rel_tol) * big
        at = term(abs_tol)
        # documented formula of math.isclose, over the reals (rounding of the products ignored)
        return SymBool(z3.Or(la.t == lb.t, d <= z3.If(tol >= at, tol, at)))

    def __getattr__(self, name):
        f = getattr(_math, name)

        def g(*a, **k):
            if any(isinstance(v, (SymNum, SymBool)) for v in a):
                # not modelled individually: a deterministic (uninterpreted) function of its arguments
                if k or name in ("floor", "ceil", "trunc", "frexp", "modf", "fsum", "prod", "dist", "isqrt", "gcd", "lcm", "comb", "perm", "factorial", "ldexp"):
                    raise EngineError(f"math.{name} on a symbolic value is not modelled")
                if len(a) == 1:
                    return cur().alg.fn("math_" + name, a[0])
                if len(a) == 2:
                    return cur().alg.fn2("math_" + name, a[0], a[1])
                raise EngineError(f"math.{name} on a symbolic value is not modelled")
            return f(*a, **k)
        return g if callable(f) else f


SYM_MATH = SymMath()


class SymStatistics:
    """Stand-in for the ``statistics`` module inside a scratch namespace: fmean / mean / fsum on
    symbolic numbers (fmean = fsum / n, as CPython computes it); everything else is the real module"""

    def fmean(self, data, weights=None):
        import statistics as _st
        data = list(data)
        if weights is not None or not any(isinstance(v, (SymNum, SymBool)) for v in data):
            return _st.fmean(data) if weights is None else _st.fmean(data, weights)
        if not data:
            raise _st.StatisticsError("fmean requires at least one data point")
        return SYM_MATH.fsum(data) / len(data)

    def mean(self, data):
        import statistics as _st
        data = list(data)
        if not any(isinstance(v, (SymNum, SymBool)) for v in data):
            return _st.mean(data)
        if not data:
            raise _st.StatisticsError("mean requires at least one data point")
        return SYM_MATH.fsum(data) / len(data)

    def __getattr__(self, name):
        import statistics as _st
        return getattr(_st, name)


SYM_STATISTICS = SymStatistics()


def rebind_library_names(ns):
    """names a module bound with `import statistics` / `from math import fsum, hypot` /
    `from statistics import fmean` are pointed at the stand-ins (the rebinding of `math` itself is
    in BUILTIN_REBINDS)"""
    import statistics as _st
    for n, obj in list(ns.items()):
        if obj is _st:
            ns[n] = SYM_STATISTICS
        elif callable(obj) and getattr(obj, "__module__", None) == "math" and getattr(_math, getattr(obj, "__name__", ""), None) is obj:
            ns[n] = getattr(SYM_MATH, obj.__name__)
        elif callable(obj) and getattr(obj, "__module__", None) == "statistics" and obj.__name__ in ("fmean", "mean"):
            ns[n] = getattr(SYM_STATISTICS, obj.__name__)


# --------------------------------------------------------------------------
# rebound builtins
TYPE_ALIASES = {}      # rebound constructor -> the type it stands for (float, list)


def sym_isinstance(x, types):
    # `float` / `list` are rebound in scratch namespaces
    if isinstance(types, tuple):
        types = tuple(TYPE_ALIASES.get(T, T) if callable(T) and not isinstance(T, type) else T for T in types)
    elif callable(types) and not isinstance(types, type):
        types = TYPE_ALIASES.get(types, types)
    if isinstance(x, SymNum):
        return x.isinstance_(types)
    if isinstance(x, SymBool):
        return SymNum.lift(x).isinstance_(types)
    if isinstance(x, AnyObj):
        return x.isinstance_(types)
    return isinstance(x, types)


def sym_float(x=0.0):
    if isinstance(x, SymNum):
        # int -> float conversion is exact below 2^53 (stated assumption)
        return SymNum(x.t, KFLOAT)
    if isinstance(x, SymBool):
        return SymNum(SymNum.lift(x).t, KFLOAT)
    if isinstance(x, AnyObj):
        return x.float_()
    return float(x)


TYPE_ALIASES[sym_float] = float


def _ite_num(c, a, b):
    a = SymNum.lift(a)
    b = SymNum.lift(b)
    if isinstance(a.kind, int) and isinstance(b.kind, int) and a.kind == b.kind:
        k = a.kind
    elif a.kind is None or b.kind is None:
        k = None
    else:
        k = z3.If(c, _kterm(a.kind), _kterm(b.kind))
    return SymNum(z3.If(c, a.t, b.t), k)


class MergeFail(Exception):
    pass


class UncutLoop(EngineError):
    """the code iterates a container of symbolic length in a way no loop contract covers: the
    unbounded proof cannot be attempted on this tree (the shape-bounded obligations still decide)"""


def per_path(obj):
    """argument supplier for Ctx.merged: the object itself on the first path, a deep copy of
    its pristine state on every further one (the same ids and names on every path)"""
    import copy as _copy
    pristine = _copy.deepcopy(obj)
    return lambda i: obj if i == 0 else _copy.deepcopy(pristine)


def merge_values(conds, vals):
    """if-then-else merge of structurally equal values (the last is the else branch)"""
    v0 = vals[0]
    if all(v is None for v in vals):
        return None
    if all(isinstance(v, SymBool) or isinstance(v, bool) for v in vals) and any(isinstance(v, SymBool) for v in vals):
        res = _b(vals[-1])
        for c, v in reversed(list(zip(conds[:-1], vals[:-1]))):
            res = z3.If(c, _b(v), res)
        return SymBool(res)
    if all(isinstance(v, (SymNum, SymBool, int, float, fractions.Fraction)) for v in vals):
        if not any(isinstance(v, (SymNum, SymBool)) for v in vals):
            if all(type(v) is type(v0) and v == v0 for v in vals):
                return v0
        res = SymNum.lift(vals[-1])
        for c, v in reversed(list(zip(conds[:-1], vals[:-1]))):
            res = _ite_num(c, v, res)
        return res
    if all(isinstance(v, (list, tuple)) for v in vals):
        if any(type(v) is not type(v0) or len(v) != len(v0) for v in vals):
            raise MergeFail("sequence shapes differ")
        return type(v0)(merge_values(conds, [v[i] for v in vals]) for i in range(len(v0)))
    if all(isinstance(v, dict) for v in vals):
        if any(list(v.keys()) != list(v0.keys()) for v in vals):
            raise MergeFail("dict keys differ")
        return {key: merge_values(conds, [v[key] for v in vals]) for key in v0}
    if all(isinstance(v, (str, bytes)) for v in vals):
        if all(v == v0 for v in vals):
            return v0
        raise MergeFail("strings differ")
    if all(v is v0 for v in vals):
        return v0
    if all(type(v) is type(v0) for v in vals) and hasattr(v0, "__dict__"):
        import copy as _copy
        cp = _copy.copy(v0)
        for attr in vars(v0):
            try:
                setattr(cp, attr, merge_values(conds, [getattr(v, attr) for v in vals]))
            except AttributeError as e:
                raise MergeFail(str(e))
        return cp
    raise MergeFail(f"cannot merge values of type {type(v0).__name__}")


def sym_max(*args, **kw):
    if len(args) == 1 and not kw:
        args = tuple(args[0])
    if kw or not any(isinstance(a, (SymNum, SymBool)) for a in args):
        return max(*args, **kw) if len(args) > 1 else max(args, **kw)
    best = args[0]
    for a in args[1:]:
        la, lb = SymNum.lift(a), SymNum.lift(best)
        # Python's max keeps the first maximal element
        best = _ite_num(la.t > lb.t, la, lb)
    return best


def sym_min(*args, **kw):
    if len(args) == 1 and not kw:
        args = tuple(args[0])
    if kw or not any(isinstance(a, (SymNum, SymBool)) for a in args):
        return min(*args, **kw) if len(args) > 1 else min(args, **kw)
    best = args[0]
    for a in args[1:]:
        la, lb = SymNum.lift(a), SymNum.lift(best)
        best = _ite_num(la.t < lb.t, la, lb)
    return best


def sym_len(x):
    if isinstance(x, AnyObj):
        return x.len_()
    return len(x)


def sym_hash(x):
    cur().events.append(("hash", type(x).__name__))
    return hash(x)


def sym_id(x):
    cur().events.append(("id", type(x).__name__))
    return id(x)


BUILTIN_REBINDS = {
    "isinstance": sym_isinstance,
    "float": sym_float,
    "max": sym_max,
    "min": sym_min,
    "len": sym_len,
    "hash": sym_hash,
    "id": sym_id,
    "math": SYM_MATH,
}


# --------------------------------------------------------------------------
class AnyObj:
    """A value of symbolic dynamic type (C13).  ``tag`` is a z3 Int term:

    0 None   1 bool   2 int   3 float   4 str   5 tuple   6 dict   7 list
    8 rating of the model under verification   9 rating of another model
    10 any other object (no __len__, no __iter__, truthy)

    ``truthy`` / ``length`` are z3 terms constrained by the tag.  Iteration is
    only possible for a concrete Python container (shape mode) - a symbolic
    container is handled by the loop cutter."""

    NONE, BOOL, INT, FLOAT, STR, TUPLE, DICT, LIST, OWN, FOREIGN, OTHER = range(11)
    NAMES = ["None", "bool", "int", "float", "str", "tuple", "dict", "list",
             "own-rating", "foreign-rating", "other-object"]

    def __init__(self, name, ctx=None, own_cls=None, allowed=None, tag=None, length=None, value=None, elem=None,
                 assume_domain=True):
        """tag / length / value may be given as z3 terms (e.g. applications of an
        uninterpreted function to a symbolic index); elem(i) builds the i-th
        element of a symbolic container (used by the loop cutter)."""
        ctx = ctx or cur()
        self.name = name
        self.tag = tag if tag is not None else z3.Int(f"tag!{name}")
        self.length = length if length is not None else z3.Int(f"len!{name}")
        self.value = value if value is not None else z3.Real(f"val!{name}")
        self.own_cls = own_cls
        self.elem = elem
        if assume_domain:
            dom = z3.And(self.tag >= 0, self.tag <= 10)
            if allowed is not None:
                dom = z3.Or([self.tag == a for a in allowed])
            ctx.assume(dom)
            ctx.assume(self.length >= 0)
        self.__dict__["_ready"] = True

    # which classes does a tag satisfy?
    def isinstance_(self, types):
        if not isinstance(types, tuple):
            types = (types,)
        alts = []
        for T in types:
            if T is object:
                return True
            if T is bool:
                alts.append(self.tag == self.BOOL)
            elif T is int:
                alts.append(z3.Or(self.tag == self.BOOL, self.tag == self.INT))
            elif T is float:
                alts.append(self.tag == self.FLOAT)
            elif T is str:
                alts.append(self.tag == self.STR)
            elif T is tuple:
                alts.append(self.tag == self.TUPLE)
            elif T is dict:
                alts.append(self.tag == self.DICT)
            elif T is list:
                alts.append(self.tag == self.LIST)
            elif T is type(None):
                alts.append(self.tag == self.NONE)
            elif self.own_cls is not None and T is self.own_cls:
                alts.append(self.tag == self.OWN)
            elif isinstance(T, type):
                # some other class (e.g. another model's rating class): the
                # grammar has no value of it other than FOREIGN/OTHER
                alts.append(z3.BoolVal(False))
            else:
                raise EngineError(f"isinstance against {T!r}")
        return SymBool(z3.simplify(z3.Or(alts)))

    def _has_len(self):
        return z3.Or([self.tag == k for k in (self.STR, self.TUPLE, self.DICT, self.LIST)])

    def len_(self):
        c = cur()
        if c.decide(self._has_len()):
            return SymNum(z3.ToReal(self.length), KINT)
        raise TypeError(f"object of type '{self.name}' has no len()")

    def __len__(self):
        if "_items" in self.__dict__:
            return len(self.__dict__["_items"])     # list(x)'s length hint, after x has been iterated
        raise EngineError("len() of AnyObj outside a rebound namespace")

    def __bool__(self):
        c = cur()
        t = self.tag
        truth = z3.If(t == self.NONE, False,
                z3.If(z3.Or(t == self.BOOL, t == self.INT, t == self.FLOAT), self.value != 0,
                z3.If(self._has_len(), self.length > 0, True)))
        return c.decide(truth)

    ITER_BOUND = 4

    def __iter__(self):
        """list(x) / tuple(x) / `for e in x` on an argument of symbolic dynamic type (only code
        that iterates before validating gets here; the unchanged models never do).  Not
        iterable -> TypeError, as in Python.  Otherwise the explorer enumerates the length up
        to ITER_BOUND (longer containers are excluded by a recorded assumption) and each
        element is a number of symbolic kind or a non-number object (strings yield strings)."""
        c = cur()
        if self.elem is not None:
            # a container of symbolic *length* (the unbounded harness): only a loop cut can handle it
            raise UncutLoop(f"loop over the symbolic-length container '{self.name}' is outside the loop-cut fragment")
        if not c.decide(self._has_len()):
            raise TypeError(f"'{self.name}' object is not iterable")
        if "_items" not in self.__dict__:
            c.assume(self.length <= self.ITER_BOUND)
            c.events.append(("bounded-iteration", self.name, self.ITER_BOUND))
            n = 0
            while n < self.ITER_BOUND and not c.decide(self.length == n):
                n += 1
            items, descs = [], []
            for q in range(n):
                nm = f"{self.name}_{q}"
                if not c.decide(self.tag == self.STR) and c.choose(f"{nm}_isnum", 2) == 0:
                    items.append(c.number(nm))
                    descs.append({"t": "num", "name": nm})
                else:
                    e = AnyObj(nm, c, own_cls=self.own_cls,
                               allowed=[k for k in range(11) if k not in (self.BOOL, self.INT, self.FLOAT)])
                    c.assume(z3.Implies(self.tag == self.STR, e.tag == self.STR))
                    items.append(e)
                    descs.append({"t": "obj", "name": nm})
            self.__dict__["_items"] = items
            c.iterated[self.name] = descs
        return iter(list(self.__dict__["_items"]))

    def __getitem__(self, i):
        if self.elem is None:
            raise EngineError("subscript of a symbolic object without an element function")
        c = cur()
        if isinstance(i, slice):
            raise UncutLoop(f"slice of the symbolic-length container '{self.name}'")
        it = SymNum.lift(i)
        if it is None:
            raise TypeError("indices must be integers")
        idx = z3.ToInt(it.t) if not z3.is_int(it.t) else it.t
        idx = z3.simplify(idx)
        if not c.decide(z3.And(idx >= 0, idx < self.length)):
            raise IndexError("index out of range")
        return self.elem(idx)

    def float_(self):
        raise EngineError("float() of AnyObj")

    def __getattr__(self, a):
        if a.startswith("__") or "_ready" not in self.__dict__:
            raise AttributeError(a)
        c = cur()
        if a == "__class__":
            raise AttributeError(a)
        # attribute access on an unvalidated object: ratings have mu/sigma/...,
        # everything else raises AttributeError in Python
        if c.decide(z3.Or(self.tag == self.OWN, self.tag == self.FOREIGN)):
            raise EngineError("attribute read on a symbolic rating object")
        raise AttributeError(f"'{self.name}' object has no attribute '{a}'")

    def __repr__(self):
        return f"<AnyObj {self.name}>"

    __hash__ = object.__hash__


# --------------------------------------------------------------------------
_LIGHT_CACHE = {}


def is_light(e):
    """no uninterpreted application of arity > 0, no product/quotient of two
    non-numerals, no quantifier: decidable by linear arithmetic alone"""
    k = e.get_id()
    r = _LIGHT_CACHE.get(k)
    if r is not None and z3.eq(r[0], e):
        return r[1]
    v = _is_light(e)
    if len(_LIGHT_CACHE) > 200000:
        _LIGHT_CACHE.clear()
    _LIGHT_CACHE[k] = (e, v)
    return v


def _is_light(e):
    stack = [e]
    seen = set()
    while stack:
        x = stack.pop()
        i = x.get_id()
        if i in seen:
            continue
        seen.add(i)
        if z3.is_quantifier(x):
            return False
        if not z3.is_app(x):
            continue
        d = x.decl()
        kd = d.kind()
        ch = x.children()
        if kd == z3.Z3_OP_UNINTERPRETED and ch:
            return False
        if kd == z3.Z3_OP_MUL:
            if sum(0 if (z3.is_rational_value(c) or z3.is_int_value(c)) else 1 for c in ch) > 1:
                return False
        if kd in (z3.Z3_OP_DIV, z3.Z3_OP_IDIV, z3.Z3_OP_MOD, z3.Z3_OP_POWER):
            if not (z3.is_rational_value(ch[1]) or z3.is_int_value(ch[1])):
                return False
        stack.extend(ch)
    return True


class Obligation:
    __slots__ = ("name", "goal", "hyps", "facts", "meta", "kind", "verdict",
                 "backend", "time", "model", "note", "reveal")

    def __init__(self, name, goal, hyps, facts, kind="post", meta=None, reveal=()):
        self.name = name
        self.goal = goal
        self.hyps = hyps
        self.facts = facts
        self.kind = kind
        self.meta = meta or {}
        self.verdict = None
        self.backend = None
        self.time = 0.0
        self.model = None
        self.note = ""
        self.reveal = reveal


class Ctx:
    def __init__(self, mode="R", safety=False, feas_timeout_ms=3000, label=""):
        self.mode = mode
        self.alg = RAlg(self) if mode == "R" else UAlg(self)
        self.safety = safety
        self.label = label
        self.feas_timeout_ms = feas_timeout_ms
        self.worklist = []
        self.npaths = 0
        self.all_obls = []
        self.exploring = 0
        self.begin_path([])

    # ---- path management
    def begin_path(self, schedule):
        self.schedule = list(schedule)
        self.taken = []
        self.pc = []
        self.assumptions = []
        self.facts = {}
        self._keepalive = []
        self.apps = {}
        self.obls = []
        self.events = []
        self.iterated = {}          # AnyObj name -> descriptions of the elements an iteration produced
        self.fresh_n = 0
        self.solver = None          # full solver, built lazily
        self.light = z3.Solver()    # only "light" constraints (linear, no uninterpreted applications)
        self.light.set("timeout", self.feas_timeout_ms)
        self._all = []              # every constraint so far (for the lazy full solver)
        self.site = ""
        self.fold_depth = 0
        self.fold_forked = None
        self.split_roots = {}
        self.fold_member_names = set()

    def _full(self):
        if self.solver is None:
            self.solver = z3.Solver()
            self.solver.set("timeout", self.feas_timeout_ms)
            for c in self._all:
                self.solver.add(c)
            for (e, level, _s) in self.facts.values():
                if level == "sign":
                    self.solver.add(e)
        return self.solver

    def _add(self, c):
        self._all.append(c)
        if is_light(c):
            self.light.add(c)
        if self.solver is not None:
            self.solver.add(c)

    def feasible(self, e):
        """May over-approximate (answer True for an infeasible branch) - sound:
        an infeasible path only yields vacuous obligations."""
        s = self.light if is_light(e) else self._full()
        s.push()
        s.add(e)
        r = s.check()
        s.pop()
        return r != z3.unsat

    def decide(self, e):
        e = z3.simplify(e)
        if z3.is_true(e):
            return True
        if z3.is_false(e):
            return False
        k = len(self.taken)
        if k < len(self.schedule):
            d = self.schedule[k]
            if getattr(self, "fold_depth", 0) > 0 and self._member_dependent(e) and self.feasible(z3.Not(e) if d else e):
                # a replayed decision inside the body run for the arbitrary member of a team: it was a
                # two-sided fork when it was first met (see below)
                self.fold_forked = str(e)[:100]
        else:
            t = self.feasible(e)
            f = self.feasible(z3.Not(e))
            if t and f:
                if getattr(self, "fold_depth", 0) > 0 and self._member_dependent(e):
                    # inside the body run for the *arbitrary* member of a team of symbolic size (teams.py):
                    # other members may take the other side.  Recorded; the fold decides whether the loop is
                    # still inside the rule (member-wise effects only, no sum over the members afterwards)
                    self.fold_forked = str(e)[:100]
                if not self.exploring:
                    # nobody would ever run the other side: refuse rather than cover half
                    raise EngineError(f"fork outside an exploration on {str(e)[:120]}")
                d = True
                self.worklist.append(self.taken + [False])
            elif t:
                d = True
            elif f:
                d = False
            else:
                raise PathAbort("path condition infeasible")
        self.taken.append(d)
        c = e if d else z3.Not(e)
        self.pc.append(c)
        self._add(c)
        return d

    def _member_dependent(self, e):
        """does a condition met inside a loop over a team of symbolic size mention the current member
        (its Skolem symbols, its index, a value carried through the loop)?  A loop-invariant condition
        (len(team) <= 4, a model parameter) is the same for every member and does not split the team."""
        names = getattr(self, "fold_member_names", None)
        if not names:
            return True
        seen, stack = set(), [e]
        while stack:
            x = stack.pop()
            if x.get_id() in seen:
                continue
            seen.add(x.get_id())
            if z3.is_const(x) and x.decl().kind() == z3.Z3_OP_UNINTERPRETED and x.decl().name() in names:
                return True
            stack.extend(x.children())
        return False

    # ---- merged sub-exploration
    def call_merged(self, fn, *a, **k):
        """merged(...) of call(fn, *a, **k), for an fn that does not mutate its arguments
        (predict_*); everything else goes through merged() with a thunk that builds
        fresh arguments for every path."""
        return self.merged(lambda _i: call(fn, *a, **k))

    MERGED_BUDGET_S = float(os.environ.get("PYVC_MERGED_BUDGET_S", "120"))

    def merged(self, thunk, max_paths=256, max_seconds=None):
        """thunk(path_index) -> call() outcome, run on every feasible path from the
        current state; the outcomes are merged into one if-then-else outcome, so
        that a caller written for a single-path function still covers a function
        that forks (a guard, a clamp).  Returns ("return", v) / ("raise", e) when
        all paths agree in kind, else ("split", [(condition, outcome), ...])."""
        base_pc, base_taken, base_sched, base_work = list(self.pc), list(self.taken), self.schedule, self.worklist
        base_all, base_asm = len(self._all), len(self.assumptions)
        base_split = dict(getattr(self, "split_roots", {}))
        had_full = self.solver is not None
        work = [[]]
        results, cond_asm, npath = [], [], 0
        overflow = False
        deadline = time.time() + (max_seconds if max_seconds is not None else self.MERGED_BUDGET_S)
        self.exploring += 1
        try:
            while work:
                if time.time() > deadline and results:
                    # a callee that forks on many undecidable conditions: left undecided like a path overflow
                    overflow = True
                    max_paths = f"{int(time.time() - deadline + (max_seconds or self.MERGED_BUDGET_S))} s"
                    break
                sched = work.pop()
                self.pc, self.taken, self.schedule, self.worklist = list(base_pc), [], list(sched), work
                self.fold_depth = 0
                self.fold_forked = None
                self.split_roots = dict(base_split)
                self.fold_member_names = set()
                self.light.push()
                if had_full:
                    self.solver.push()
                try:
                    try:
                        npath += 1
                        out = thunk(npath - 1)
                    except PathAbort:
                        out = None
                    conds = self.pc[len(base_pc):]
                    cnd = z3.And(conds) if conds else z3.BoolVal(True)
                    if out is not None:
                        results.append((cnd, out))
                    for x in self.assumptions[base_asm:]:
                        cond_asm.append(z3.Implies(cnd, x) if conds else x)
                finally:
                    del self.assumptions[base_asm:]
                    del self._all[base_all:]
                    self.light.pop()
                    if had_full:
                        self.solver.pop()
                    else:
                        self.solver = None
                if len(results) > max_paths:
                    # too many paths to enumerate: the call is left undecided (the caller reports the
                    # obligations that needed its value as failed, with the replay search to settle them)
                    overflow = True
                    break
        finally:
            self.exploring -= 1
            self.pc, self.taken, self.schedule, self.worklist = base_pc, base_taken, base_sched, base_work
        for x in cond_asm:
            self.assume(x)
        if overflow:
            return ("split", results + [(z3.BoolVal(True), ("path-budget", f"more than {max_paths} paths / seconds"))])
        if not results:
            raise PathAbort("no feasible path through the merged call")
        if len(results) == 1:
            return results[0][1]
        kinds = {o[0] for (_c, o) in results}
        if kinds == {"return"}:
            try:
                return ("return", merge_values([c for (c, _o) in results], [o[1] for (_c, o) in results]))
            except MergeFail:
                pass
        elif kinds == {"raise"} and len({type(o[1]) for (_c, o) in results}) == 1:
            return results[0][1]
        return ("split", results)

    def assume(self, e):
        """Add a hypothesis (precondition, stub postcondition)."""
        e = _b(e) if not z3.is_bool(e) else e
        self.assumptions.append(e)
        self._add(e)

    def fact(self, key, e, level, subject):
        k = (key[0], key[1].get_id())
        if k not in self.facts:
            # keep the key term alive: z3 recycles the ids of freed terms
            self._keepalive.append(key[1])
            self.facts[k] = (e, level, subject)
            if level == "sign" and self.solver is not None:
                self.solver.add(e)

    # ---- symbols
    def real(self, name, kind=KFLOAT):
        return SymNum(z3.Real(name), kind)

    def fresh(self, stem, kind=KFLOAT):
        self.fresh_n += 1
        return SymNum(z3.Real(f"{stem}!{self.fresh_n}"), kind)

    def kindvar(self, name):
        k = z3.Int(f"kind!{name}")
        self.assume(z3.And(k >= 0, k <= 2))
        return k

    def number(self, name, kinds=(KBOOL, KINT, KFLOAT)):
        """A number of symbolic value and symbolic kind drawn from ``kinds``;
        int-kind values are integers, bool-kind values are 0/1."""
        v = z3.Real(name)
        if len(kinds) == 1:
            k = kinds[0]
            if k == KBOOL:
                self.assume(z3.Or(v == 0, v == 1))
            elif k == KINT:
                self.assume(z3.IsInt(v))
            return SymNum(v, k)
        k = z3.Int(f"kind!{name}")
        self.assume(z3.Or([k == x for x in kinds]))
        if KINT in kinds or KBOOL in kinds:
            self.assume(z3.Implies(k <= KINT, z3.IsInt(v)))
        if KBOOL in kinds:
            self.assume(z3.Implies(k == KBOOL, z3.Or(v == 0, v == 1)))
        return SymNum(v, k)

    def choose(self, name, k):
        """A value in range(k) selected by the explorer (every value is a
        path); recorded in the model as the Int constant `name`."""
        c = z3.Int(f"choice!{name}")
        self.assume(z3.And(c >= 0, c < k))
        for v in range(k - 1):
            if self.decide(c == v):
                return v
        return k - 1

    # ---- obligations
    def hyps(self):
        return list(self.assumptions) + list(self.pc)

    def oblige(self, name, goal, kind="post", meta=None, reveal=()):
        if isinstance(goal, bool):
            goal = z3.BoolVal(goal)
        elif isinstance(goal, SymBool):
            goal = goal.e
        o = Obligation(name, goal, self.hyps(), dict(self.facts), kind, meta, reveal)
        self.obls.append(o)
        return o

    def safety_check(self, what, cond):
        if self.safety:
            site = self.site or _repo_site()
            self.oblige(f"{what}@{site}" if site else what, cond, kind="safety")


def _repo_site():
    """file:line of the innermost frame that executes repository (or stdlib statistics) code"""
    import os
    from . import REPO
    f = sys._getframe(2)
    while f is not None:
        fn = f.f_code.co_filename
        if fn.startswith(REPO) or fn.endswith("statistics.py"):
            return f"{os.path.basename(fn)}:{f.f_lineno}"
        f = f.f_back
    return ""


class PathRecord:
    __slots__ = ("schedule", "outcome", "value", "obls", "events", "pc", "aux")

    def __init__(self):
        self.aux = None


def call(fn, *a, **k):
    """Run fn natively; classify the outcome.  Engine exceptions propagate."""
    try:
        return ("return", fn(*a, **k))
    except (EngineError, PathAbort):
        raise
    except RecursionError:
        raise
    except Exception as exc:  # noqa: BLE001 - the outcome *is* the exception
        return ("raise", exc)


def explore(ctx, run_once, max_paths=200000):
    """Depth-first exploration of every feasible path of ``run_once(ctx)``.

    ``run_once`` builds the inputs (same symbol names every time), calls the
    function under verification through :func:`call` and emits obligations.
    Returns the list of PathRecords."""
    set_cur(ctx)
    ctx.worklist = [[]]
    records = []
    ctx.exploring += 1
    # a cooperative wall-clock budget (well inside the work unit's hard limit): a change that multiplies the
    # paths of a sort ends as "more than .. paths", which the callers that expect it report as an open
    # path-budget obligation instead of being killed with nothing to show
    thorough = os.environ.get("VERIF_TIER", "quick") == "thorough" or "--tier thorough" in " ".join(sys.argv)
    budget = float(os.environ.get("PYVC_EXPLORE_BUDGET_S", "0") or 0) or (1800.0 if thorough else 300.0)
    deadline = time.time() + budget
    try:
        while ctx.worklist:
            if time.time() > deadline and records:
                raise EngineError(f"more than {budget:.0f} s spent exploring paths ({ctx.npaths} paths so far)")
            sched = ctx.worklist.pop()
            ctx.begin_path(sched)
            rec = PathRecord()
            try:
                rec.aux = run_once(ctx)
                rec.outcome = "done"
            except PathAbort as pa:
                rec.outcome = "abort:" + str(pa)
            rec.schedule = list(ctx.taken)
            rec.obls = ctx.obls
            rec.events = ctx.events
            rec.pc = list(ctx.pc)
            records.append(rec)
            ctx.all_obls.extend(ctx.obls)
            ctx.npaths += 1
            if ctx.npaths > max_paths:
                raise EngineError(f"more than {max_paths} paths")
    finally:
        ctx.exploring -= 1
        set_cur(None)
    return records
