"""50-digit reference values of Phi, phi, V, W, V~, W~ in pure Python (decimal),
used by replays (measured error of the real functions) and to re-check the
tabulated enclosures A-tab on every run.  A numeric sanity reference, not proof."""
from decimal import Decimal as D, getcontext

getcontext().prec = 70
PI = D("3.14159265358979323846264338327950288419716939937510582097494459230781640628620899")
SQRT2 = D(2).sqrt()
SQRT_PI = PI.sqrt()


def _exp(x):
    return x.exp()


def erfc(y):
    """complementary error function for any Decimal y"""
    y = D(y)
    if y < 0:
        return 2 - erfc(-y)
    if y < D("2.5"):
        # erf series
        s = D(0)
        term = y
        n = 0
        while True:
            add = term / (2 * n + 1)
            s += add
            n += 1
            term = -term * y * y / n
            if abs(add) < D(10) ** -68:
                break
            if n > 2000:
                break
        return 1 - 2 * s / SQRT_PI
    # continued fraction (Lentz): erfc(y) = exp(-y^2)/(y sqrt(pi)) * 1/(1+ 1/(2y^2)/(1+2/(2y^2)/(1+...)))
    # use the standard form erfc(y) = exp(-y^2)/sqrt(pi) * 1/(y + (1/2)/(y + 1/(y + (3/2)/(y + 2/(y + ...)))))
    k = 400
    f = y
    for n in range(k, 0, -1):
        f = y + (D(n) / 2) / f
    return _exp(-y * y) / (SQRT_PI * f)


def Phi(x):
    x = D(x)
    return erfc(-x / SQRT2) / 2


def phi(x):
    x = D(x)
    return _exp(-x * x / 2) / (2 * PI).sqrt()


def V(y):
    return phi(y) / Phi(y)


def W(y):
    v = V(y)
    return v * (v + D(y))


def Vt(x, t):
    """V~ is odd in x; evaluate at |x| where both CDF arguments lie in the lower
    tail (accurate relative to their size), then restore the sign"""
    x, t = D(x), D(t)
    xx = abs(x)
    b = Phi(t - xx) - Phi(-t - xx)
    a = phi(-t - xx) - phi(t - xx)
    r = a / b
    return -r if x < 0 else r


def Wt(x, t):
    x, t = D(x), D(t)
    xx = abs(x)
    b = Phi(t - xx) - Phi(-t - xx)
    vt = Vt(xx, t)
    return ((t - xx) * phi(t - xx) + (t + xx) * phi(-t - xx)) / b + vt * vt


def relerr(approx, exact):
    exact = D(exact)
    if exact == 0:
        return D(0) if D(approx) == 0 else D("Infinity")
    return abs((D(approx) - exact) / exact)
