"""C09 - predict_win returns a probability distribution that respects symmetry and skill."""
from __future__ import annotations

import time

import z3

from .. import driver, extract
from ..symrt import term, active
from .predutil import PredictWorld, eq_rec, ge_rec, shapes, std_replay, generic_guard

PROP = "C09"


@generic_guard("C09")
def unit(model, sizes, generic=False):
    """generic: sizes = (1,)*n and every team has a symbolic number of members (the listed member is
    the arbitrary one, the aggregates are symbols): the same obligations for teams of every size"""
    recs = []
    n = len(sizes)
    shape = f"sizes={sizes}" if not generic else f"n={len(sizes)},any-team-size"
    fn = f"{model}.predict_win"
    rp = std_replay("c09_win", model, sizes)
    W = PredictWorld(model, sizes, generic=generic)
    base = W.run("predict_win")
    if base[0] != "return" or len(base[1]) != n:
        return [driver.rec(f"C09/{model}/predict_win/len@{shape}", "refuted", "explorer", 0, fn=fn, shape=shape, replay=rp, note=repr(base[1])[:200])]
    recs.append(driver.rec(f"C09/{model}/predict_win/len@{shape}", "discharged", "path-eval", 0, fn=fn, shape=shape, mode="R"))
    p = [term(x) for x in base[1]]
    # runs needed later (all before the prover is built, so that it sees every lemma instance)
    perms = []
    for k in range(n - 1):
        order = list(range(n))
        order[k], order[k + 1] = order[k + 1], order[k]
        perms.append((order, W.run("predict_win", order=order)))
    with active(W.ctx):
        d = W.ctx.real("bump")
        W.ctx.assume(d.t >= 0)
    bumps = []
    for i in ([0, n - 1] if n > 2 else [0, 1]):
        j = sizes[i] - 1
        bumps.append((i, W.run("predict_win", bump=(i, j, d))))
    P = W.prover()
    mono = W.phi_monotone(P)
    one, zero = z3.RealVal(1), z3.RealVal(0)
    for i in range(n):
        recs.append(ge_rec(P, f"C09/{model}/predict_win/range-lower[{i}]@{shape}", p[i], zero, fn, shape, rp))
        recs.append(ge_rec(P, f"C09/{model}/predict_win/range-upper[{i}]@{shape}", one, p[i], fn, shape, rp))
    tot = p[0]
    for x in p[1:]:
        tot = tot + x
    recs.append(eq_rec(P, f"C09/{model}/predict_win/sum-one@{shape}", tot, one, fn, shape, rp))
    wrong = P.prove_eq(tot, z3.RealVal("3/2"))[0]
    recs.append(driver.rec(f"C09/{model}/predict_win/canary-sum-is-1.5@{shape}", "discharged" if wrong else "refuted", "field", 0, kind="canary",
                           fn=fn, shape=shape, replay=dict(rp, clause="canary")))
    for (order, out) in perms:
        ok = out[0] == "return" and len(out[1]) == n
        if ok:
            for pos in range(n):
                ok = ok and P.prove_eq(term(out[1][pos]), p[order[pos]])[0]
        recs.append(driver.rec(f"C09/{model}/predict_win/perm-equivariant[{order}]@{shape}", "discharged" if ok else "refuted", "field", 0,
                               fn=fn, shape=shape, mode="R", replay=None if ok else rp))
    for (i, out) in bumps:
        if out[0] != "return":
            recs.append(driver.rec(f"C09/{model}/predict_win/monotone@{shape}", "refuted", "explorer", 0, fn=fn, shape=shape, replay=rp))
            continue
        q = [term(x) for x in out[1]]
        recs.append(ge_rec(P, f"C09/{model}/predict_win/monotone-own[{i}]@{shape}", q[i], p[i], fn, shape, rp, extra=mono))
        for k in range(n):
            if k != i:
                recs.append(ge_rec(P, f"C09/{model}/predict_win/monotone-other[{i}->{k}]@{shape}", p[k], q[k], fn, shape, rp, extra=mono))
    # identical teams (first and last carry the same symbols)
    if sizes[0] == sizes[-1]:
        W2 = PredictWorld(model, sizes, identical=[(0, n - 1)], generic=generic)
        o2 = W2.run("predict_win")
        o3 = W2.run("predict_win", alias={n - 1: 0})       # the same list object in two slots
        P2 = W2.prover()
        ok = o2[0] == "return"
        ok3 = ok and o3[0] == "return" and len(o3[1]) == n and all(P2.prove_eq(term(o3[1][k]), term(o2[1][k]))[0] for k in range(n))
        recs.append(driver.rec(f"C09/{model}/predict_win/same-list-object-in-two-slots@{shape}", "discharged" if ok3 else "refuted", "field", 0,
                               fn=fn, shape=shape, mode="R", replay=None if ok3 else dict(rp, alias=True)))
        recs.append(eq_rec(P2, f"C09/{model}/predict_win/identical-equal@{shape}", term(o2[1][0]), term(o2[1][n - 1]), fn, shape, rp) if ok else
                    driver.rec(f"C09/{model}/predict_win/identical-equal@{shape}", "refuted", "explorer", 0, fn=fn, shape=shape, replay=rp))
        if n == 2 and ok:
            half = z3.RealVal("1/2")
            r = eq_rec(P2, f"C09/{model}/predict_win/two-identical-half@{shape}", term(o2[1][0]), half, fn, shape, rp)
            r2 = eq_rec(P2, f"C09/{model}/predict_win/two-identical-half[1]@{shape}", term(o2[1][1]), half, fn, shape, rp)
            recs += [r, r2]
    from .predutil import history_records
    if n <= 3 and not generic:
        recs += history_records("C09", W, model, sizes, ("predict_win",))
    return recs


def units(tier):
    us = [("unit", (m, s)) for m in extract.MODELS for s in shapes(tier, nmax=4 if tier == "quick" else 6)] + [("unit", (m, (1,) * n, True)) for m in extract.MODELS for n in range(2, (4 if tier == "quick" else 6) + 1)]
    if tier == "quick":
        us += [("unit", (m, (1,) * 6)) for m in extract.MODELS]
    return us


def main(tier, seed):
    t0 = time.time()
    records, errors, walls = driver.run_units(__name__, units(tier))
    fns = {f"{extract.MODEL_FILES[m]}::{m}.{f}" for m in extract.MODELS for f in ("predict_win", "_calculate_team_ratings", "_calculate_rankings", "_check_teams")}
    return driver.finish(
        PROP, tier, seed, "other", records, errors, walls, t0,
        functions=fns,
        assumptions=[
            __import__("pyvc.props.anysize", fromlist=["A_SUM"]).A_SUM,
            "A-Phi: 0 < Phi < 1, Phi(x) + Phi(-x) = 1, Phi(0) = 1/2, Phi monotone (instances); phi_major enters as Phi (C17) [A-Phi is machine-checked against Mathlib in lemmas/Phi.lean for Phi := the standard Gaussian CDF (thorough tier of C17); that libm's erfc/2 is this Phi stays assumed]",
            "A-fp: reals; 'to floating-point accuracy' and the float statement 'exactly one half' are not decided (the real-valued identity p = 1/2 is)",
            "sigma >= 0, beta > 0; shape-bounded (coverage.shapes)",
        ],
        explanation=("The real predict_win is executed on symbolic teams (several executions on the same symbols: base, every adjacent transposition of the teams, a member's mu raised by a symbolic d >= 0, identical teams); "
                     "length, range, sum = 1, permutation equivariance and identical-team equality are exact normal-form identities (Phi reflection made syntactic), monotonicity is proved by z3 over the canonical atoms with Phi-monotonicity instances."),
        shapes=[str(s) for s in shapes(tier, nmax=4 if tier == "quick" else 6)] + [f"n=2..{4 if tier == 'quick' else 6} teams of every size (symbolic member counts)"],
    )
