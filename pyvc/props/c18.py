"""C18 - rating comparison operators order players exactly as ordinal() does.

Loop-free, U-mode (the statement is about the floats Python computes), all five
rating classes, every obligation unbounded (all values, all numeric kinds)."""
from __future__ import annotations

import time

import z3

from .. import driver, extract
from ..symrt import (AnyObj, Ctx, EngineError, SymBool, SymNum, call, explore, tobool)
from .util import enc_model, settle, vacuity_record

PROP = "C18"
OPS = {"lt": "__lt__", "le": "__le__", "gt": "__gt__", "ge": "__ge__"}
Z3OP = {"lt": lambda a, b: a < b, "le": lambda a, b: a <= b,
        "gt": lambda a, b: a > b, "ge": lambda a, b: a >= b}
FOREIGN_TAGS = [t for t in range(11) if t != AnyObj.OWN]


def spec_ordinal(mu, sigma, z=3.0):
    """The property's formula, evaluated with Python's own operators."""
    return mu - z * sigma


def _mk(ctx, R, who):
    mu = ctx.number(f"mu_{who}")
    sg = ctx.number(f"sigma_{who}")
    return R(mu, sg), mu, sg


def _retbool(v):
    if isinstance(v, (bool, SymBool)):
        return tobool(v)
    raise EngineError(f"comparison returned {v!r}")


def unit_class(model):
    S = extract.Scratch(model)
    R = S.rating_cls
    fnq = f"{model}Rating"
    recs = []

    def rp_pair(op, clause=None):
        def mk(md):
            return {"kind": "c18_order", "model": model, "op": op, "clause": clause,
                    "a": [enc_model(md, "mu_a"), enc_model(md, "sigma_a")],
                    "b": [enc_model(md, "mu_b"), enc_model(md, "sigma_b")]}
        return mk

    # ---- ordinal
    for zmode in ("default", "given"):
        ctx = Ctx("U")

        def run(ctx, zmode=zmode):
            a, mu, sg = _mk(ctx, R, "a")
            if zmode == "default":
                out = call(a.ordinal)
                want = spec_ordinal(mu, sg)
                zr = None
            else:
                z = ctx.number("z")
                out = call(a.ordinal, z)
                want = spec_ordinal(mu, sg, z)
                zr = True

            def mk(md, clause=None):
                return {"kind": "c18_ordinal", "model": model, "clause": clause,
                        "a": [enc_model(md, "mu_a"), enc_model(md, "sigma_a")],
                        "z": enc_model(md, "z") if zr else None}
            if out[0] != "return" or not isinstance(out[1], SymNum):
                ctx.oblige(f"C18/{fnq}/ordinal[{zmode}]", False, meta={"replay": mk, "fn": fnq + ".ordinal"})
                return
            ctx.oblige(f"C18/{fnq}/ordinal[{zmode}]", out[1].t == want.t,
                       meta={"replay": mk, "fn": fnq + ".ordinal"})
            if zmode == "default":
                wrong = mu + 3.0 * sg
                ctx.oblige(f"C18/{fnq}/ordinal/canary", out[1].t == wrong.t, kind="canary",
                           meta={"replay": lambda md: mk(md, "canary"), "fn": fnq + ".ordinal"})
        explore(ctx, run)
        recs += settle(ctx.all_obls, mode="U", unbounded=True)

    # ---- order operators, same class
    for op, meth in OPS.items():
        ctx = Ctx("U")

        def run(ctx, op=op, meth=meth):
            a, mua, sga = _mk(ctx, R, "a")
            b, mub, sgb = _mk(ctx, R, "b")
            out = call(getattr(a, meth), b)
            name = f"C18/{fnq}/{op}"
            if out[0] != "return":
                ctx.oblige(name, False, meta={"replay": rp_pair(op), "fn": f"{fnq}.{meth}"})
                return
            ret = _retbool(out[1])
            oa, ob = spec_ordinal(mua, sga), spec_ordinal(mub, sgb)
            ctx.oblige(name, ret == Z3OP[op](oa.t, ob.t), meta={"replay": rp_pair(op), "fn": f"{fnq}.{meth}"})
            flip = {"lt": "le", "le": "lt", "gt": "ge", "ge": "gt"}[op]
            ctx.oblige(name + "/canary", ret == Z3OP[flip](oa.t, ob.t), kind="canary",
                       meta={"replay": rp_pair(op, "canary"), "fn": f"{fnq}.{meth}"})
        explore(ctx, run)
        # a canary is refuted if it fails on at least one path
        recs += _merge_canaries(settle(ctx.all_obls, mode="U", unbounded=True))

    # ---- the same after the operands have been compared once and `a` was then updated in place (rate()
    # writes mu / sigma of the objects it is given): the verdict must follow the *current* values
    for op, meth in OPS.items():
        ctx = Ctx("U")

        def run(ctx, op=op, meth=meth):
            a, mua, sga = _mk(ctx, R, "a")
            b, mub, sgb = _mk(ctx, R, "b")
            for m2 in OPS.values():
                call(getattr(a, m2), b)
                call(getattr(b, m2), a)
            call(a.ordinal), call(b.ordinal), call(hash, a), call(hash, b), call(a.__eq__, b)
            mu2, sg2 = ctx.number("mu_a2"), ctx.number("sigma_a2")
            a.mu, a.sigma = mu2, sg2

            def mk(md, op=op):
                return {"kind": "c18_update", "model": model, "op": op,
                        "a": [enc_model(md, "mu_a"), enc_model(md, "sigma_a")], "a2": [enc_model(md, "mu_a2"), enc_model(md, "sigma_a2")],
                        "b": [enc_model(md, "mu_b"), enc_model(md, "sigma_b")]}
            oa, ob = spec_ordinal(mu2, sg2), spec_ordinal(mub, sgb)
            for (x, y, ox, oy, tag) in ((a, b, oa, ob, "updated-left"), (b, a, ob, oa, "updated-right")):
                out = call(getattr(x, meth), y)
                name = f"C18/{fnq}/{op}/after-in-place-update[{tag}]"
                if out[0] != "return":
                    ctx.oblige(name, False, meta={"replay": mk, "fn": f"{fnq}.{meth}"})
                    continue
                ctx.oblige(name, _retbool(out[1]) == Z3OP[op](ox.t, oy.t), meta={"replay": mk, "fn": f"{fnq}.{meth}"})
        explore(ctx, run)
        recs += settle(ctx.all_obls, mode="U", unbounded=True)

    # ---- order operators and ==, foreign operand of symbolic type
    for op, meth in list(OPS.items()) + [("eq", "__eq__")]:
        ctx = Ctx("U")

        def run(ctx, op=op, meth=meth):
            a, mua, sga = _mk(ctx, R, "a")
            other = AnyObj("other", ctx, own_cls=R, allowed=FOREIGN_TAGS)
            out = call(getattr(a, meth), other)
            name = f"C18/{fnq}/{op}/foreign-operand"

            def mk(md):
                tg = md.get("tag!other", [AnyObj.OTHER, 1])
                return {"kind": "c18_foreign", "model": model, "op": op,
                        "tag": AnyObj.NAMES[tg[0] if isinstance(tg, list) else AnyObj.OTHER],
                        "a": [enc_model(md, "mu_a"), enc_model(md, "sigma_a")]}
            if op == "eq":
                ok = out[0] == "return" and out[1] is NotImplemented
            else:
                ok = out[0] == "raise" and type(out[1]) is ValueError
            ctx.oblige(name, bool(ok), meta={"replay": mk, "fn": f"{fnq}.{meth}"})
        explore(ctx, run)
        recs += settle(ctx.all_obls, mode="U", unbounded=True)

    # ---- concrete foreign classes: the other four rating classes + protocol
    import importlib
    from ..concrete import MODEL_MODULES
    for other_model in extract.MODELS:
        if other_model == model:
            continue
        OR = getattr(importlib.import_module(MODEL_MODULES[other_model]), other_model + "Rating")
        for op, meth in list(OPS.items()) + [("eq", "__eq__")]:
            ctx = Ctx("U")

            def run(ctx, op=op, meth=meth, OR=OR, other_model=other_model):
                a, mua, sga = _mk(ctx, R, "a")
                o = OR(ctx.number("mu_b"), ctx.number("sigma_b"))
                name = f"C18/{fnq}/{op}/foreign-class[{other_model}]"
                rp = lambda md: {"kind": "c18_foreign", "model": model, "op": op,
                                 "tag": "rating-of:" + other_model,
                                 "a": [enc_model(md, "mu_a"), enc_model(md, "sigma_a")]}
                if op == "eq":
                    out = call(lambda: a == o)   # the full Python protocol
                    ok = out[0] == "return" and out[1] is False
                else:
                    out = call(getattr(a, meth), o)
                    ok = out[0] == "raise" and type(out[1]) is ValueError
                ctx.oblige(name, bool(ok), meta={"replay": rp, "fn": f"{fnq}.{meth}"})
            explore(ctx, run)
            recs += settle(ctx.all_obls, mode="U", unbounded=True)

    # ---- ==, same class
    ctx = Ctx("U")

    def run_eq(ctx):
        a, mua, sga = _mk(ctx, R, "a")
        b, mub, sgb = _mk(ctx, R, "b")
        out = call(a.__eq__, b)

        def mk(md, clause=None):
            return {"kind": "c18_eq", "model": model, "clause": clause,
                    "a": [enc_model(md, "mu_a"), enc_model(md, "sigma_a")],
                    "b": [enc_model(md, "mu_b"), enc_model(md, "sigma_b")]}
        if out[0] != "return":
            ctx.oblige(f"C18/{fnq}/eq", False, meta={"replay": mk, "fn": fnq + ".__eq__"})
            return
        ret = _retbool(out[1])
        ctx.oblige(f"C18/{fnq}/eq", ret == z3.And(mua.t == mub.t, sga.t == sgb.t),
                   meta={"replay": mk, "fn": fnq + ".__eq__"})
        ctx.oblige(f"C18/{fnq}/eq/canary", ret == (mua.t == mub.t), kind="canary",
                   meta={"replay": lambda md: mk(md, "canary"), "fn": fnq + ".__eq__"})
    explore(ctx, run_eq)
    recs += _merge_canaries(settle(ctx.all_obls, mode="U", unbounded=True))

    # ---- lemma over the contracts: '<' is the strict weak order induced by
    # the ordinal, so sorted() yields non-decreasing ordinals (NaN excluded)
    t0 = time.time()
    oa, ob, oc = z3.Reals("o_a o_b o_c")
    lt = lambda x, y: x < y      # contract of __lt__ proved above
    lem = z3.And(z3.Not(lt(oa, oa)),
                 z3.Implies(z3.And(lt(oa, ob), lt(ob, oc)), lt(oa, oc)),
                 z3.Implies(z3.And(z3.Not(lt(oa, ob)), z3.Not(lt(ob, oa)), z3.Not(lt(ob, oc)), z3.Not(lt(oc, ob))),
                            z3.And(z3.Not(lt(oa, oc)), z3.Not(lt(oc, oa)))))
    s = z3.Solver()
    s.add(z3.Not(lem))
    ok = s.check() == z3.unsat
    recs.append(driver.rec(f"C18/{fnq}/sort-consistency", "discharged" if ok else "open", "z3",
                           time.time() - t0, kind="post", fn=fnq + ".__lt__", mode="R", unbounded=True))
    return recs


def _merge_canaries(recs):
    """A canary appears once per path; it counts as refuted if any path refutes it."""
    out, can = [], {}
    for r in recs:
        if r["kind"] != "canary":
            out.append(r)
            continue
        c = can.get(r["name"])
        if c is None or (c["verdict"] != "refuted" and r["verdict"] == "refuted"):
            can[r["name"]] = r
    return out + list(can.values())


def units(tier):
    return [("unit_class", (m,)) for m in extract.MODELS]


def main(tier, seed):
    t0 = time.time()
    records, errors, walls = driver.run_units(__name__, units(tier))
    fns = set()
    for m in extract.MODELS:
        for f in ("ordinal", "__lt__", "__le__", "__gt__", "__ge__", "__eq__"):
            fns.add(f"{extract.MODEL_FILES[m]}::{m}Rating.{f}")
    return driver.finish(
        PROP, tier, seed, "proof", records, errors, walls, t0,
        functions=fns,
        assumptions=[
            "U-mode: every float operation is a deterministic function of its operand values; comparison, negation and abs of non-NaN floats are exact; NaN operands excluded",
            "Python's rich-comparison protocol turns a NotImplemented from both operands' __eq__ into identity comparison (A-py; additionally executed natively for the four foreign rating classes)",
            "the grammar of foreign operands: None, bool, int, float, str, tuple, dict, list, rating of another model, any other object - the code may inspect them only through isinstance/len/truthiness",
        ],
        explanation=("Each comparison method of each of the five rating classes is executed from its real AST on ratings whose mu/sigma are symbolic numbers of symbolic kind; every path's return value is proved equivalent to the same comparison of mu - z*sigma "
                     "as Python evaluates it (uninterpreted-IEEE terms, so equality is bit-identity). Loop-free code, so all obligations are unbounded."),
        exhaustive=False,
    )
