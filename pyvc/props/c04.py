"""C04 - rate() is equivariant under reordering of teams and of players within a team.

  _compute/tie-swap      (PL, BT-full, TM-full) two executions of the real _compute on the same
                         symbolic game whose presentations differ by swapping two adjacent tied
                         teams: every player's (mu, sigma) terms are identical normal forms
  _compute/player-swap   (all five) presentations differing by swapping two players of a team
  rate/presentation      the real rate() on a symbolic game with symbolic rank values, presented
                         in order pi (ranks permuted alongside) and/or with the players of one team
                         listed in another order: result[pi] == result, on every path
                         of the sort; for the partial-pairing models only on paths where pi keeps
                         mutually tied teams in their relative order (the stated exception)
Meta-step (stated, not machine-checked): adjacent transpositions generate all permutations."""
from __future__ import annotations

import itertools
import time

import z3

from .. import driver, extract, field, game
from ..symrt import Ctx, KFLOAT, KINT, call, explore, term
from .computil import CodeWorld, compositions, field_rec, ranks_of, scale_of, size_vectors
from . import c01

PROP = "C04"
FULL = ("PlackettLuce", "BradleyTerryFull", "ThurstoneMostellerFull")


def _rp(model, sizes, ranks):
    rp = c01._std_replay(model, sizes, ranks, "default", scale_of(model))
    rp["kind"] = "c04_perm"
    return rp


def _compare(P, ra, rb, sizes):
    ok, notes = True, []
    pa, pb = ra.post(), rb.post()
    for i in range(len(sizes)):
        for j in range(sizes[i]):
            for k, nm in ((0, "mu"), (1, "sigma")):
                o, be, note, t = P.prove_eq(term(pa[i][j][k]), term(pb[i][j][k]))
                if not o:
                    ok = False
                    notes.append(f"{nm}[{i},{j}] {note}")
    return ok, "; ".join(notes)[:300]


def unit_compute(model, sizes):
    recs = []
    n = len(sizes)
    fn = f"{model}._compute"
    for blocks in compositions(n):
        ranks = ranks_of(blocks)
        shape = f"sizes={sizes},ties={blocks}"
        W = CodeWorld(model, sizes)
        base = W.presentation(list(range(n)), ranks)
        variants = []
        if model in FULL:
            for k in range(n - 1):
                if ranks[k] == ranks[k + 1]:
                    order = list(range(n))
                    order[k], order[k + 1] = order[k + 1], order[k]
                    variants.append((f"tie-swap[{k},{k + 1}]", W.presentation(order, ranks)))
        for i in range(n):
            if sizes[i] > 1:
                po = list(range(sizes[i]))
                po[0], po[-1] = po[-1], po[0]
                variants.append((f"player-swap[team{i}]", W.presentation(list(range(n)), ranks, player_order={i: po})))
        if not variants:
            continue
        P = W.prover()
        for nm, run in variants:
            t0 = time.time()
            ok, note = _compare(P, base, run, sizes)
            recs.append(field_rec(f"C04/{model}/_compute/{nm}@{shape}", ok, "field", note, time.time() - t0, fn, shape, _rp(model, sizes, ranks)))
        if blocks == (1,) * n and n >= 2:
            # canary: swapping two teams of *different* rank is not a symmetry
            order = list(range(n))
            order[0], order[1] = order[1], order[0]
            bad = W.presentation(order, ranks)
            P2 = W.prover()
            ok, _ = _compare(P2, base, bad, sizes)
            recs.append(driver.rec(f"C04/{model}/_compute/canary-swap-winner-and-loser@{shape}", "discharged" if ok else "refuted", "field", 0, kind="canary",
                                   fn=fn, shape=shape, replay=dict(_rp(model, sizes, ranks), clause="canary")))
    return recs


def unit_compute_anysize(model, n):
    """tie-swap on the real _compute for teams of every size (PL and the two full-pairing models): two
    adjacent teams of equal rank listed in the other order get each other's results, everybody else the same"""
    from .computil import GenericRun
    from ..symrt import UncutLoop
    recs = []
    fn = f"{model}._compute"
    for blocks in compositions(n):
        ranks = ranks_of(blocks)
        ties = [k for k in range(n - 1) if ranks[k] == ranks[k + 1]]
        if not ties:
            continue
        shape = f"n={n},ties={blocks},any-team-size"
        try:
            base = GenericRun(model, n, ranks)
            P = None
            for k in ties:
                order = list(range(n))
                order[k], order[k + 1] = order[k + 1], order[k]
                run = GenericRun(model, n, ranks, order=order)
                W = CodeWorld(model, (1,) * n)
                W.runs = [base, run]
                P = W.prover()
                t0 = time.time()
                ok, note = _compare(P, base, run, (1,) * n)
                recs.append(field_rec(f"C04/{model}/_compute/any-team-size/tie-swap[{k},{k + 1}]@{shape}", ok, "field", note, time.time() - t0, fn, shape,
                                      _rp(model, (6, 5, 7, 2, 2, 2, 2, 2)[:n], ranks)))
        except UncutLoop as e:
            recs.append(driver.rec(f"C04/{model}/_compute/any-team-size/unbounded-proof@{shape}", "note", "explorer", 0, kind="note", fn=fn, shape=shape, note=f"not attempted: {e}"))
    return recs


def unit_rate(model, sizes, perm, player_order=None, limit=False, generic=False):
    """perm: presentation order of the teams; player_order: {team: order of its players} in presentation B;
    generic: sizes = (1,)*n, every team has a symbolic number of members (pyvc/teams.py) and the listed
    member is the arbitrary one"""
    n = len(sizes)
    player_order = dict(player_order or {})
    if generic:
        from .. import teams as T
        S = T.scratch(model)
    else:
        S = extract.Scratch(model)
    game.stub_tm_real(S)
    game.stub_phi_real(S)
    member = (lambda row, j: row.g) if generic else (lambda row, j: row[j])
    shape = (f"sizes={sizes}" if not generic else f"n={n},any-team-size") + f",pi={perm}" + (f",players={player_order}" if player_order else "") + (",limit_sigma=True" if limit else "")
    fn = f"{model}.rate"
    ctx = Ctx("R", feas_timeout_ms=300)
    recs = []
    stats = {"paths": 0, "skipped": 0}

    def run(ctx):
        mA, params = game.mk_model(ctx, S, limit_sigma=limit)
        mB, _ = game.mk_model(ctx, S, limit_sigma=limit)
        ctx.assume(term(params["kappa"]) <= 1)
        r = [ctx.number(f"r{i}", kinds=(KINT, KFLOAT)) for i in range(n)]
        if generic:
            tA = [T.SymTeam(ctx, S.rating_cls, i) for i in range(n)]
            tB0 = [T.SymTeam(ctx, S.rating_cls, i) for i in range(n)]
            ctx.team_heap = [mA, mB]
        else:
            tA = game.mk_teams(ctx, S, sizes)
            tB0 = game.mk_teams(ctx, S, sizes)
        for k, po in player_order.items():
            tB0[k] = [tB0[k][j] for j in po]
        tB = [tB0[k] for k in perm]
        rB = [r[k] for k in perm]
        oa = call(mA.rate, tA, ranks=list(r))
        ob = call(mB.rate, tB, ranks=list(rB))
        if generic:
            from .. import teams as _T
            _T.guard(oa, ob)
        stats["paths"] += 1
        if model not in FULL:
            # the stated exception: pi must keep mutually tied teams in their relative order
            pos = {k: p for p, k in enumerate(perm)}
            for i in range(n):
                for j in range(i + 1, n):
                    if pos[i] > pos[j] and bool(r[i] == r[j]):
                        stats["skipped"] += 1
                        return
        rp = _rp(model, sizes, None)
        rp["perm"] = list(perm)
        rp["limit"] = limit
        if oa[0] != "return" or ob[0] != "return":
            recs.append(driver.rec(f"C04/{model}/rate/presentation@{shape}", "refuted", "explorer", 0, fn=fn, shape=shape, replay=rp))
            return
        P = field.Prover(ctx.hyps(), list(ctx.facts.values()))
        ok, notes = True, []
        t0 = time.time()
        for p, k in enumerate(perm):
            for jj in range(sizes[k]):
                j = player_order[k][jj] if k in player_order else jj
                for a, b, nm in ((member(oa[1][k], j).mu, member(ob[1][p], jj).mu, "mu"), (member(oa[1][k], j).sigma, member(ob[1][p], jj).sigma, "sigma")):
                    o, be, note, t = P.prove_eq(term(a), term(b))
                    if not o:
                        ok = False
                        notes.append(f"{nm}[{k},{j}] {note}")
        if not ok:
            from ..tactics import check_sat, model_to_dict
            from .util import enc_model
            rr, _, mdl, _ = check_sat(ctx.hyps(), timeout_ms=5000, use_cvc5=False, nlsat=False)
            md = model_to_dict(mdl) if mdl is not None else {}
            rp["ranks"] = [enc_model(md, f"r{i}") for i in range(n)]
        recs.append(field_rec(f"C04/{model}/rate/presentation@{shape},path{stats['paths']}", ok, "field", "; ".join(notes)[:300], time.time() - t0, fn, shape, rp))
    try:
        explore(ctx, run, max_paths=500)
    except Exception as e:  # noqa: BLE001
        from ..symrt import UncutLoop
        if isinstance(e, UncutLoop):
            return [driver.rec(f"C04/{model}/rate/presentation/any-team-size/unbounded-proof@{shape}", "note", "explorer", 0, kind="note", fn=fn, shape=shape,
                               note=f"not attempted: {e}")]
        if "paths" not in str(e):
            raise
        recs.append(driver.rec(f"C04/{model}/rate/presentation/path-budget@{shape}", "open", "explorer", 0, fn=fn, shape=shape,
                               note=f"more than 500 paths (the unchanged tree has at most a few dozen): {e}", replay=_rp(model, sizes, None)))
    recs.append(driver.rec(f"C04/{model}/rate/presentation/paths@{shape}", "discharged" if stats["paths"] > stats["skipped"] else "open", "explorer", 0,
                           kind="vacuity", note=str(stats)))
    return recs


def units(tier):
    us = []
    nmax = 4 if tier == "quick" else 8
    for m in extract.MODELS:
        for n in range(2, nmax + 1):
            svs = size_vectors(n, tier)
            for sizes in ((svs[:3] + [s for s in svs if max(s) > 4]) if tier == "quick" else svs):
                if m in FULL or any(s > 1 for s in sizes):
                    us.append(("unit_compute", (m, sizes)))
        for sizes in ([(1, 1), (2, 1), (5, 2), (1, 1, 1)] if tier == "quick" else [(1, 1), (2, 1), (5, 2), (1, 1, 1), (1, 2, 1)]):
            n = len(sizes)
            for perm in itertools.permutations(range(n)):
                if list(perm) != list(range(n)):
                    us.append(("unit_rate", (m, sizes, perm)))
        # the limit_sigma clamp pairs each result with its own prior whatever the presentation
        for sizes, perm in ([((1, 1), (1, 0)), ((2, 1), (1, 0))] if tier == "quick" else [((1, 1), (1, 0)), ((1, 1, 1), (1, 2, 0)), ((1, 1, 1), (2, 1, 0)), ((2, 1), (1, 0))]):
            us.append(("unit_rate", (m, sizes, perm, None, True)))
        # players of one team listed in another order, teams in place, symbolic ranks (ties are paths)
        for sizes, po in ([((2, 1), {0: [1, 0]}), ((2, 1, 1), {0: [1, 0]}), ((1, 2, 2), {1: [1, 0]})] if tier == "quick" else
                          [((2, 1), {0: [1, 0]}), ((2, 1, 1), {0: [1, 0]}), ((1, 2, 2), {1: [1, 0]}), ((1, 2, 2), {2: [1, 0]}), ((3, 1, 2), {0: [2, 0, 1]})]):
            us.append(("unit_rate", (m, sizes, tuple(range(len(sizes))), po)))
        if tier == "thorough":
            sizes = (1, 1, 1, 1)
            for k in range(3):
                perm = list(range(4))
                perm[k], perm[k + 1] = perm[k + 1], perm[k]
                us.append(("unit_rate", (m, sizes, tuple(perm))))
        # teams of every size (symbolic member counts): every presentation order for n = 2, 3 (the adjacent
        # transpositions for n = 4 in the thorough tier), with and without the clamp for n = 2
        for n in ((2, 3) if tier == "quick" else (2, 3, 4)):
            perms = [p for p in itertools.permutations(range(n)) if list(p) != list(range(n))] if n <= 3 else \
                [tuple(range(k)) + (k + 1, k) + tuple(range(k + 2, n)) for k in range(n - 1)]
            for perm in perms:
                us.append(("unit_rate", (m, (1,) * n, perm, None, False, True)))
        us.append(("unit_rate", (m, (1, 1), (1, 0), None, True, True)))
        if m in FULL:
            for n in ((2, 3, 4) if tier == "quick" else (2, 3, 4, 5, 6)):
                us.append(("unit_compute_anysize", (m, n)))
    us.sort(key=lambda u: -(sum(u[1][1]) * 2 ** len(u[1][1]) * (10 if u[0] == "unit_rate" else 1)) if u[0] != "unit_compute_anysize" else -(2 ** u[1][1]))
    if tier == "quick":
        us += [("unit_compute", (m, (1,) * 6)) for m in extract.MODELS if m in FULL]
    return us


def main(tier, seed):
    t0 = time.time()
    records, errors, walls = driver.run_units(__name__, units(tier))
    fns = {f"{extract.MODEL_FILES[m]}::{m}.{f}" for m in extract.MODELS for f in ("rate", "_compute", "_calculate_team_ratings", "_calculate_rankings", "_c", "_sum_q", "_a")}
    fns |= {f"{extract.WL_COMMON}::_unwind", f"{extract.WL_COMMON}::_ladder_pairs"}
    return driver.finish(
        PROP, tier, seed, "other", records, errors, walls, t0,
        functions=fns,
        assumptions=[
            "A-fp: 'to floating-point accuracy' is exact equality over the reals (sums are reordered between presentations)",
            "META (not machine-checked): adjacent transpositions generate every permutation of a tie block, of a team's players and of the presentation",
            "partial-pairing models: only presentations that keep mutually tied teams in their relative order are claimed (the property's exception); checked per path",
            "A-exp in the normaliser; v/w/vt/wt as contract functions; shape-bounded (coverage.shapes); rate-level: all permutations for n <= 3, adjacent transpositions for n = 4 (thorough)",
        ],
        explanation=("Two symbolic executions of the real code on the same symbolic game under different presentations are compared as exact normal forms: the real _compute with two adjacent tied teams swapped (PL, BT-full, TM-full; all tie patterns) and with two players of a team swapped (all five models); "
                     "the real rate() with symbolic rank values, presented in every order pi for n <= 3 (ranks permuted alongside), on every path of the two sorts; every player's posterior (mu, sigma) must coincide."),
        shapes=sorted({str(u[1][1:]) for u in units(tier)})[:40],
    )
