"""C06 - sigma stays positive, grows by at most tau per game, and limit_sigma caps it.

Obligations (R-mode), all on the result terms of the real code:
  _compute/sigma-in-(0,prior]   per shape and tie pattern: the exact normal form of the returned
              sigma is sigma_in * sqrt(Y) with Y = max(a, b), a <= 1, b <= 1 and a > 0 or b > 0
              (1 - a is the variance step share*Delta: term-wise non-negative after raising to
              common denominators, with w, wt in [0,1] and gamma >= 0 from their contracts)
  rate/tau-bound, rate/limit    the same on the real rate() for symbolic rank values and per-call
              tau, every weak order a path: sigma_out = sqrt(sigma^2+tau^2) * sqrt(Y); with the
              clamp on, sigma_out is the prior itself or satisfies the path condition sigma_out <= prior
  lemmas      shape-independent, over fresh reals, by z3:
              sigma-step     sigma>0, 0<Y<=1, r=sqrt(Y) => 0 < sigma*r <= sigma
              inflate        s=sqrt(sigma^2+tau^2) => sigma <= s
              clamp          min(a,b) <= a and <= b
              history-step   x <= sqrt(a^2+t^2), x >= 0 => x^2 <= a^2 + t^2
"""
from __future__ import annotations

import time

import z3

from .. import driver, extract
from ..symrt import term, active
from .computil import (ComputeRun, compositions, field_rec, generic_lemma, ranks_of, scale_of, size_vectors, sqrt_inst)
from . import c01

PROP = "C06"


def unit_compute(model, sizes, gamma_mode):
    recs = []
    n = len(sizes)
    fn = f"{model}._compute"
    for blocks in compositions(n):
        ranks = ranks_of(blocks)
        shape = f"sizes={sizes},ties={blocks},gamma={gamma_mode}"
        run = ComputeRun(model, sizes, ranks, gamma_mode)
        rp = c01._std_replay(model, sizes, ranks, gamma_mode, scale_of(model))
        rp["kind"] = "c06_sigma"
        if not run.ok():
            recs.append(driver.rec(f"C06/{model}/_compute/returns@{shape}", "refuted", "explorer", 0, fn=fn, shape=shape, note=repr(run.out[1]), replay=rp))
            continue
        P = run.prover(timeout_ms=5000)
        t0 = time.time()
        post = run.post()
        bad = []
        for i in range(n):
            for j in range(sizes[i]):
                if not _direct_sigma(P, term(post[i][j][1]), term(run.prior[i][j][1])):
                    bad.append((i, j))
        recs.append(driver.rec(f"C06/{model}/_compute/sigma-in-(0,prior]@{shape}", "discharged" if not bad else "open", "field-sign+z3", time.time() - t0,
                               fn=fn, shape=shape, mode="R", note=f"failed for players {bad}" if bad else "",
                               replay=None if not bad else rp))
        if blocks == (1,) * n and gamma_mode == "default":
            # canary: "sigma' <= sigma/2" must not be provable
            with active(run.ctx):
                half = term(run.prior[0][0][1] * 0.5)
            wrong = _direct_sigma(P, term(post[0][0][1]), half)
            recs.append(driver.rec(f"C06/{model}/_compute/canary-sigma-halves@{shape}", "discharged" if wrong else "refuted", "field-sign+z3", 0,
                                   kind="canary", fn=fn, shape=shape, replay=dict(rp, clause="canary")))
    return recs


def _direct_sigma(P, sg1, sg0):
    """sigma' = sigma0 * sqrt(Y) with 0 < Y <= 1, read off the exact normal form"""
    from ..poly import Poly, Unsupported
    try:
        N = P.N
        p1 = N.norm(sg1)
        p0 = N.norm(sg0)
        s1 = p1.single()
        s0 = p0.single()
        if s1 is None or s0 is None or s1[1] != s0[1]:
            return False
        rest = dict(s1[0])
        for (a, e) in s0[0]:
            rest[a] = rest.get(a, 0) - e
        rest = {a: e for a, e in rest.items() if e}
        if len(rest) != 1:
            return False
        (a, e), = rest.items()
        if e != 1 or N.atoms.info[a][0] != "sqrt":
            return False
        Y = N.sqrt_of[a]
        one = Poly.const(1)
        sy = Y.single()
        if sy is not None and sy[1] == 1 and len(sy[0]) == 1 and sy[0][0][1] == 1 and N.atoms.info[sy[0][0][0]][0] == "ite":
            ck = N.atoms.info[sy[0][0][0]][1][0]
            cond, pa, pb = N.atoms.info[sy[0][0][0]][2]
            # is the ite a max? its canonical condition is (pa - pb >= 0) up to a positive factor
            kind = None
            if isinstance(ck, tuple) and ck[0] == "ge0":
                from math import gcd
                from fractions import Fraction
                for sign, tag in ((1, "max"), (-1, "min")):
                    dl = N.reduce((pa - pb).scale(sign))
                    if dl.is_zero():
                        continue
                    num, den = 0, 1
                    for v in dl.t.values():
                        num = gcd(num, abs(v.numerator))
                        den = den * v.denominator // gcd(den, v.denominator)
                    if dl.scale(Fraction(den, num)).key() == ck[1]:
                        kind = tag
            if kind == "max":
                # 0 < max(pa, pb) <= 1  <=  (pa > 0 or pb > 0) and pa <= 1 and pb <= 1
                pos = any(P.prove_ge_poly(q, strict=True)[0] == "discharged" for q in (pb, pa))
                return pos and all(P.prove_ge_poly(N.reduce(one - q))[0] == "discharged" for q in (pa, pb))
            branches = [(pa, cond), (pb, z3.Not(cond))]
        else:
            branches = [(Y, None)]
        for (q, cond) in branches:
            hy = [cond] if cond is not None else []
            if P.prove_ge_poly(N.reduce(one - q), extra_hyps=hy)[0] != "discharged":
                return False
            if P.prove_ge_poly(q, strict=True, extra_hyps=hy)[0] != "discharged":
                return False
        return True
    except Unsupported:
        return False


def unit_lemmas():
    recs = []
    s, k, X, r, tau, a, b, x, t = z3.Reals("sigma kappa X r tau a b x t")

    def sigma_step():
        Y = z3.If(k > 1 - X, k, 1 - X)      # max(1 - X, kappa)
        return [s > 0, k > 0, k <= 1, X >= 0] + sqrt_inst(r, Y), z3.And(s * r > 0, s * r <= s)
    recs.append(generic_lemma("C06/lemma/sigma-step", sigma_step))

    def sigma_step_canary():
        Y = z3.If(k > 1 - X, k, 1 - X)
        return [s > 0, k > 0, k <= 1] + sqrt_inst(r, Y), z3.And(s * r > 0, s * r <= s)   # without X >= 0: must fail
    c = generic_lemma("C06/lemma/canary-sigma-step-without-delta-nonneg", sigma_step_canary)
    c["kind"] = "canary"
    c["replay"] = None
    recs.append(c)

    def inflate():
        return [s >= 0, tau >= 0] + sqrt_inst(r, s * s + tau * tau), s <= r
    recs.append(generic_lemma("C06/lemma/inflated-sigma-not-below-prior", inflate))

    def clamp():
        m = z3.If(a < b, a, b)
        return [], z3.And(m <= a, m <= b)
    recs.append(generic_lemma("C06/lemma/clamp", clamp))

    def history():
        return [x >= 0, x <= r] + sqrt_inst(r, a * a + t * t), x * x <= a * a + t * t
    recs.append(generic_lemma("C06/lemma/history-step", history))
    return recs


def unit_rate(model, sizes, vec, limit, use_t):
    """the real rate() (tau inflation, sort, real _compute, unsort, clamp) on symbolic
    rank values and per-call tau: on every path the returned sigma is, as an exact normal
    form, inflated*sqrt(Y) with 0 < Y <= 1 (limit off), and additionally <= prior (limit on)"""
    from .. import extract as ex, field as fld, game as gm
    from ..symrt import Ctx, call, explore, KFLOAT, KINT
    n = len(sizes)
    S = ex.Scratch(model)
    gm.stub_tm_real(S)
    gm.stub_phi_real(S)
    shape = f"sizes={sizes},{vec},limit_sigma={limit},tau={'per-call' if use_t else 'model'}"
    fn = f"{model}.rate"
    ctx = Ctx("R", feas_timeout_ms=300)
    recs = []
    npaths = [0]

    def run(ctx):
        m, params = gm.mk_model(ctx, S, limit_sigma=limit)
        ctx.assume(term(params["kappa"]) <= 1)
        teams = gm.mk_teams(ctx, S, sizes)
        prior = [[(p.mu, p.sigma) for p in t] for t in teams]
        kw = {}
        if vec != "none":
            kw[vec] = [ctx.number(f"r{i}", kinds=(KINT, KFLOAT)) for i in range(n)]
        tau = params["tau"]
        if use_t:
            tau = ctx.real("t")
            ctx.assume(tau.t >= 0)
            kw["tau"] = tau
        out = call(m.rate, teams, **kw)
        npaths[0] += 1
        rp = c01._std_replay(model, sizes, None, "default", scale_of(model), limit=limit)
        rp["kind"] = "c06_sigma"
        rp["vec"] = vec
        if out[0] != "return":
            recs.append(driver.rec(f"C06/{model}/rate/returns@{shape}", "refuted", "explorer", 0, fn=fn, shape=shape, note=repr(out[1]), replay=rp))
            return
        P = fld.Prover(ctx.hyps(), list(ctx.facts.values()), timeout_ms=5000)
        X = gm.SymX()
        t0 = time.time()
        bad = []
        for i in range(n):
            for j in range(sizes[i]):
                F = out[1][i][j].sigma
                sg0 = prior[i][j][1]
                infl = X.sqrt(sg0 * sg0 + tau * tau)
                if limit and F is sg0:
                    continue            # clamped to the prior itself
                if limit:
                    # positive: its normal form is a product of positive atoms
                    ok = P.prove_ge_poly(P.N.norm(term(F)), strict=True)[0] == "discharged"
                else:
                    ok = _direct_sigma(P, term(F), term(infl))
                if ok and limit:
                    # not clamped on this path: the path condition contains F <= prior
                    from ..tactics import check_sat
                    ok = check_sat([h for h in ctx.pc] + [z3.Not(term(F) <= term(sg0))], timeout_ms=3000, use_cvc5=False, nlsat=False)[0] == "unsat"
                if not ok:
                    bad.append((i, j))
        nm = "limit" if limit else "tau-bound"
        recs.append(driver.rec(f"C06/{model}/rate/{nm}@{shape},path{npaths[0]}", "discharged" if not bad else "open", "field-sign+z3", time.time() - t0,
                               fn=fn, shape=shape, mode="R", note=f"failed for players {bad}" if bad else "", replay=None if not bad else rp))
    explore(ctx, run)
    return recs


def unit_anysize(model, n, gamma_mode):
    """sigma' in (0, prior] for an arbitrary member of teams of every size"""
    from . import anysize
    return anysize.c06(model, n, gamma_mode)


def unit_gauss_contracts():
    """premises of this property's proofs: the contract clauses of w and wt that the obligations above
    assume are verified on the real bodies (the C17 units, re-run here under this property's name, so
    that a change inside a callee that breaks a clause this property relies on is reported here too)"""
    from . import c17
    out = []
    for u in ('unit_w', 'unit_wt'):
        for r in getattr(c17, u)():
            if r["kind"] == "canary" or not any(k in r["name"] for k in ('/w/range', '/wt/range')):
                continue          # only the clauses this property's proofs rely on
            r = dict(r)
            r["name"] = r["name"].replace("C17/", "C06/helper/")
            out.append(r)
    return out


def unit_anysize_rate(model, n, vec, limit, use_t):
    """the real rate() on n teams of every size (anysize.rate_units)"""
    from . import anysize
    return anysize.rate_units("C06", model, n, vec, limit, use_t)


def units(tier):
    us = [("unit_lemmas", ())]
    nmax = 4 if tier == "quick" else 8
    for m in extract.MODELS:
        for n in range(2, (4 if tier == "quick" else 7) + 1):
            us.append(("unit_anysize", (m, n, "default")))
            if n <= 4:
                us.append(("unit_anysize", (m, n, "custom")))
        for n in range(2, nmax + 1):
            svs = size_vectors(n, tier)
            for sizes in (svs if n <= 3 or tier == "thorough" else svs[:1]):
                us.append(("unit_compute", (m, sizes, "default")))
            us.append(("unit_compute", (m, tuple([1] * n) if n > 2 else (2, 1), "custom")))
        for sizes in ([(1, 1), (2, 1)] if tier == "quick" else [(1, 1), (2, 1), (1, 1, 1)]):
            for limit in (False, True):
                us.append(("unit_rate", (m, sizes, "ranks", limit, True)))
        # one team beyond four members, no outcome vector (a single order), clamp on and off
        for limit in (False, True):
            us.append(("unit_rate", (m, (5, 1), "none", limit, False)))
        # the other two ways of giving the outcome run through their own code in rate()
        for vec in ("scores", "none"):
            for limit in (False, True):
                us.append(("unit_rate", (m, (1, 1) if tier == "quick" else (2, 1), vec, limit, True)))
    us.sort(key=lambda u: (-(sum(u[1][1]) * 2 ** len(u[1][1])) if u[0] not in ("unit_lemmas", "unit_anysize") else (-(2 ** u[1][1]) if u[0] == "unit_anysize" else 0)))
    us.insert(0, ("unit_gauss_contracts", ()))
    for m in extract.MODELS:
        for a in ([(2, 'ranks', False, True), (2, 'scores', True, False), (3, 'none', False, False)] if tier == "quick" else [(2, 'ranks', False, True), (2, 'scores', True, False), (3, 'none', False, False), (3, 'ranks', False, True), (3, 'scores', False, False), (2, 'none', True, True), (4, 'ranks', False, False)]):
            us.append(("unit_anysize_rate", (m,) + a))
    if tier == "quick":
        us += [("unit_compute", (m, (1,) * 6, "default")) for m in extract.MODELS]
    return us


def main(tier, seed):
    t0 = time.time()
    records, errors, walls = driver.run_units(__name__, units(tier))
    fns = {f"{extract.MODEL_FILES[m]}::{m}.{f}" for m in extract.MODELS for f in ("_compute", "rate", "_calculate_team_ratings", "_c", "_sum_q", "_a")}
    return driver.finish(
        PROP, tier, seed, "other", records, errors, walls, t0,
        functions=fns,
        assumptions=[
            "A-fp: reals, not floats (rounding inside w/wt for teams many deviations apart is C17's business)",
            "contracts of w, wt (0 <= value <= 1) and of a custom gamma (>= 0, no side effects) are assumed here; C17 verifies w/wt against theirs",
            "kappa in (0, 1] (the property's range is (0, 1e-2]); sigma > 0 on entry, tau >= 0",
            "league histories are NOT run: the per-call bounds are inductive (lemma history-step), so sigma_n^2 <= sigma_0^2 + n tau^2 and non-increasing under limit_sigma follow by induction on the history (meta-step)",
            "'finite' is C08's business",
            __import__("pyvc.props.anysize", fromlist=["A_SUM"]).A_SUM,
            "shape-bounded: all tie patterns, n = 2..4 quick / 2..8 thorough, team-size vectors in coverage.shapes; rate-level link for small shapes with every weak order",
        ],
        explanation=("Per shape and tie pattern the sigma returned by the real _compute is reduced to its exact normal form sigma_in*sqrt(max(a,b)); b = kappa, 1 - a = the variance step, which is proved >= 0 term-wise after raising to common denominators (w, wt, gamma >= 0 from contracts), so 0 < Y <= 1; "
                     "the same is proved for the sigma returned by the real rate() on every path of the sort for symbolic rank values and per-call tau, with sigma_in = sqrt(prior^2+tau^2), and with limit_sigma the result is the prior itself or satisfies the path condition sigma <= prior. "
                     "Shape-independent lemmas by z3 give 0 < sigma*sqrt(Y) <= sigma, prior <= sqrt(prior^2+tau^2) and the inductive history step."),
        shapes=sorted({(str(u[1][1]) if u[0] != "unit_anysize" else f"n={u[1][1]}, every team size") for u in units(tier) if len(u[1]) > 1 and u[0] != "unit_anysize_rate"} | {f"rate(): n={u[1][1]}, {u[1][2]}, limit_sigma={u[1][3]}, every team size" for u in units(tier) if u[0] == "unit_anysize_rate"}),
    )
