"""C06 - sigma stays positive, grows by at most tau per game, and limit_sigma caps it.

Chain of obligations (R-mode):
  link        the real _compute equals the published update for the shape (field)
  delta>=0    the variance step share*Delta of every player is >= 0 in that update
              (structural sign prover over the spec's sums; w, wt >= 0 and gamma >= 0
              come from their contracts)
  lemmas      shape-independent, over fresh reals, by z3:
              sigma-step     sigma>0, 0<kappa<=1, X>=0, r=sqrt(max(1-X,kappa)) => 0 < sigma*r <= sigma
              inflate        s=sqrt(sigma^2+tau^2) => sigma <= s  (so the clamp target is below the tau bound)
              clamp          min(a,b) <= a and <= b
              history-step   x <= sqrt(a^2+t^2), x >= 0 => x^2 <= a^2 + t^2
  rate link   the real rate equals rate_spec (tau inflation, update, clamp) for symbolic
              rank vectors and per-call tau (field; every weak order of the small shapes)
"""
from __future__ import annotations

import time

import z3

from .. import driver, extract, signs
from ..symrt import term, active
from .computil import (ComputeRun, compositions, field_rec, generic_lemma, link, ranks_of, scale_of, size_vectors, sqrt_inst)
from . import c01

PROP = "C06"


def unit_compute(model, sizes, gamma_mode):
    recs = []
    n = len(sizes)
    fn = f"{model}._compute"
    for blocks in compositions(n):
        ranks = ranks_of(blocks)
        shape = f"sizes={sizes},ties={blocks},gamma={gamma_mode}"
        run = ComputeRun(model, sizes, ranks, gamma_mode)
        rp = c01._std_replay(model, sizes, ranks, gamma_mode, scale_of(model))
        rp["kind"] = "c06_sigma"
        if not run.ok():
            recs.append(driver.rec(f"C06/{model}/_compute/returns@{shape}", "refuted", "explorer", 0, fn=fn, shape=shape, note=repr(run.out[1]), replay=rp))
            continue
        ok, note, t, spec, det, P = link(run, which=("sigma",))
        recs.append(field_rec(f"C06/{model}/_compute/sigma-equals-published-update@{shape}", ok, "field", note, t, fn, shape, rp))
        SP = signs.SignProver(run.hyps, run.facts)
        t0 = time.time()
        bad = []
        for i in range(n):
            for j in range(sizes[i]):
                sg = run.prior[i][j][1]
                with active(run.ctx):
                    X = (sg * sg / det["s"][i]) * det["delta"][i]
                if not SP.prove(term(X), "ge"):
                    bad.append((i, j))
        recs.append(driver.rec(f"C06/{model}/update/variance-step-nonneg@{shape}", "discharged" if not bad else "open", "split+z3", time.time() - t0,
                               fn=fn, shape=shape, mode="R", note=f"failed for players {bad}" if bad else f"{SP.leaf_calls} leaf queries",
                               replay=None if not bad else rp))
        if blocks == (1,) * n and gamma_mode == "default":
            # canary: "the variance step is <= 0" must not be provable
            sg = run.prior[0][0][1]
            with active(run.ctx):
                X = (sg * sg / det["s"][0]) * det["delta"][0]
            wrong = SP.prove(term(X), "le")
            recs.append(driver.rec(f"C06/{model}/update/canary-variance-step-nonpos@{shape}", "discharged" if wrong else "refuted", "split+z3", 0,
                                   kind="canary", fn=fn, shape=shape, replay=dict(rp, clause="canary")))
    return recs


def unit_lemmas():
    recs = []
    s, k, X, r, tau, a, b, x, t = z3.Reals("sigma kappa X r tau a b x t")

    def sigma_step():
        Y = z3.If(k > 1 - X, k, 1 - X)      # max(1 - X, kappa)
        return [s > 0, k > 0, k <= 1, X >= 0] + sqrt_inst(r, Y), z3.And(s * r > 0, s * r <= s)
    recs.append(generic_lemma("C06/lemma/sigma-step", sigma_step))

    def sigma_step_canary():
        Y = z3.If(k > 1 - X, k, 1 - X)
        return [s > 0, k > 0, k <= 1] + sqrt_inst(r, Y), z3.And(s * r > 0, s * r <= s)   # without X >= 0: must fail
    c = generic_lemma("C06/lemma/canary-sigma-step-without-delta-nonneg", sigma_step_canary)
    c["kind"] = "canary"
    c["replay"] = None
    recs.append(c)

    def inflate():
        return [s >= 0, tau >= 0] + sqrt_inst(r, s * s + tau * tau), s <= r
    recs.append(generic_lemma("C06/lemma/inflated-sigma-not-below-prior", inflate))

    def clamp():
        m = z3.If(a < b, a, b)
        return [], z3.And(m <= a, m <= b)
    recs.append(generic_lemma("C06/lemma/clamp", clamp))

    def history():
        return [x >= 0, x <= r] + sqrt_inst(r, a * a + t * t), x * x <= a * a + t * t
    recs.append(generic_lemma("C06/lemma/history-step", history))
    return recs


def unit_rate(model, sizes, vec, limit, use_t):
    recs = c01.unit_rate(model, sizes, vec, limit, use_t)
    for r in recs:
        r["name"] = r["name"].replace("C01/", "C06/").replace("/rate/mu@", "/rate/equals-spec-mu@").replace("/rate/sigma@", "/rate/equals-spec-sigma@")
        if r["replay"]:
            r["replay"]["kind"] = "c06_sigma"
    return [r for r in recs if "/rate/equals-spec-mu@" not in r["name"]]


def units(tier):
    us = [("unit_lemmas", ())]
    nmax = 4 if tier == "quick" else 8
    for m in extract.MODELS:
        for n in range(2, nmax + 1):
            svs = size_vectors(n, tier)
            for sizes in (svs if n <= 3 or tier == "thorough" else svs[:1]):
                us.append(("unit_compute", (m, sizes, "default")))
            us.append(("unit_compute", (m, tuple([1] * n) if n > 2 else (2, 1), "custom")))
        for sizes in ([(1, 1), (2, 1)] if tier == "quick" else [(1, 1), (2, 1), (1, 1, 1)]):
            for limit in (False, True):
                us.append(("unit_rate", (m, sizes, "ranks", limit, True)))
    us.sort(key=lambda u: -(sum(u[1][1]) * 2 ** len(u[1][1])) if u[0] != "unit_lemmas" else 0)
    return us


def main(tier, seed):
    t0 = time.time()
    records, errors, walls = driver.run_units(__name__, units(tier))
    fns = {f"{extract.MODEL_FILES[m]}::{m}.{f}" for m in extract.MODELS for f in ("_compute", "rate", "_calculate_team_ratings", "_c", "_sum_q", "_a")}
    return driver.finish(
        PROP, tier, seed, "other", records, errors, walls, t0,
        functions=fns,
        assumptions=[
            "A-fp: reals, not floats (rounding inside w/wt for teams many deviations apart is C17's business)",
            "contracts of w, wt (0 <= value <= 1) and of a custom gamma (>= 0, no side effects) are assumed here; C17 verifies w/wt against theirs",
            "kappa in (0, 1] (the property's range is (0, 1e-2]); sigma > 0 on entry, tau >= 0",
            "league histories are NOT run: the per-call bounds are inductive (lemma history-step), so sigma_n^2 <= sigma_0^2 + n tau^2 and non-increasing under limit_sigma follow by induction on the history (meta-step)",
            "'finite' is C08's business",
            "shape-bounded: all tie patterns, n = 2..4 quick / 2..8 thorough, team-size vectors in coverage.shapes; rate-level link for small shapes with every weak order",
        ],
        explanation=("Per shape: (1) the real _compute is proved equal to the published update (exact normal forms); (2) in that update every player's variance step share*Delta is proved >= 0 by a structural sign proof over its sums (leaves by z3 with the relevant lemma instances); "
                     "(3) shape-independent lemmas by z3 turn that into 0 < sigma' <= sigma_in, sigma_prior <= sqrt(sigma_prior^2+tau^2), the clamp bound and the inductive history step; (4) the real rate() is proved equal to tau-inflation + update + clamp for symbolic ranks and per-call tau. "
                     "Together: result sigma > 0, <= sqrt(prior^2 + tau^2), and <= prior when limit_sigma is in force."),
        shapes=sorted({str(u[1][1]) for u in units(tier) if u[0] != "unit_lemmas"}),
    )
