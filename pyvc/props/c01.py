"""C01 - rate() computes the published Weng-Lin posterior for each of the five models.

Oracle: pyvc/specs/weng_lin.py (Algorithms 1-4 of Weng & Lin 2011 + the
documented extensions).  Obligations (R-mode, tactic `field`: exact normal
forms, the difference must be the zero polynomial):

  C01/<model>/_compute/{mu,sigma}@shape   the real _compute on a rank-sorted game
                                           equals the published update, per tie pattern
  C01/<model>/rate/{mu,sigma}@shape       the real rate (tau inflation, sort/unsort,
                                           real _compute, clamp) equals rate_spec for
                                           symbolic rank/score vectors (every weak order)
"""
from __future__ import annotations

import time

import z3

from .. import driver, extract, field, game
from ..symrt import Ctx, SymNum, call, explore, term, KFLOAT, KINT
from ..specs import weng_lin as WS
from .computil import ComputeRun, compositions, field_rec, ranks_of, size_vectors
from .util import enc_model

PROP = "C01"


def _std_replay(model, sizes, ranks, gamma_mode, pair_scale=1, clause=None, vec="ranks", limit=False):
    from ..concrete import enc, _std_params
    import random
    rnd = random.Random(hash((model, tuple(sizes))) & 0xffff)
    gm = [[[enc(rnd.uniform(15, 35)), enc(rnd.uniform(2, 9))] for _ in range(n)] for n in sizes]
    d = {"kind": "c01_rate", "model": model, "game": gm, "params": _std_params(), "limit": limit,
         "gamma": gamma_mode, "pair_scale": pair_scale, "clause": clause}
    if ranks is not None:
        d[vec] = [enc(r) for r in ranks]
    return d


def unit_compute(model, sizes, gamma_mode):
    recs = []
    n = len(sizes)
    fn = f"{model}._compute"
    scale = 2 if model == "ThurstoneMostellerPart" else 1
    first = True
    for blocks in compositions(n):
        ranks = ranks_of(blocks)
        shape = f"sizes={sizes},ties={blocks},gamma={gamma_mode}"
        t0 = time.time()
        run = ComputeRun(model, sizes, ranks, gamma_mode)
        if not run.ok():
            recs.append(driver.rec(f"C01/{model}/_compute/returns@{shape}", "refuted", "explorer", 0, fn=fn, shape=shape,
                                   note=repr(run.out[1]), replay=_std_replay(model, sizes, ranks, gamma_mode, scale)))
            continue
        if first:
            ok, note = run.cross_check()
            recs.append(driver.rec(f"C01/{model}/_compute/engine-cross-check@{shape}", "discharged" if ok else "open", "cpython", time.time() - t0,
                                   kind="vacuity", fn=fn, shape=shape, note=note))
            first = False
        post = run.post()
        spec = run.spec(pair_scale=scale)
        P = run.prover()
        tm, ts, okm, oks, notes = 0.0, 0.0, True, True, []
        for i in range(n):
            for j in range(sizes[i]):
                ok, be, note, t = P.prove_eq(term(post[i][j][0]), term(spec[i][j][0]))
                tm += t
                if not ok:
                    okm = False
                    notes.append(f"mu[{i},{j}]: {note}")
                ok, be, note, t = P.prove_eq(term(post[i][j][1]), term(spec[i][j][1]))
                ts += t
                if not ok:
                    oks = False
                    notes.append(f"sigma[{i},{j}]: {note}")
        rp = _std_replay(model, sizes, ranks, gamma_mode, scale)
        recs.append(field_rec(f"C01/{model}/_compute/mu@{shape}", okm, "field", "; ".join(notes)[:300], tm, fn, shape, rp))
        recs.append(field_rec(f"C01/{model}/_compute/sigma@{shape}", oks, "field", "; ".join(notes)[:300], ts, fn, shape, rp))
        if model == "ThurstoneMostellerPart" and sizes == (1,) * n and gamma_mode == "default" and blocks == (1,) * n:
            # K1: is the pair scale the published one (k = 1)?
            spec1 = run.spec(pair_scale=1)
            ok, be, note, t = P.prove_eq(term(post[0][0][0]), term(spec1[0][0][0]))
            recs.append(field_rec(f"C01/{model}/_compute/pair-scale-is-published@{shape}", ok, "field", note[:200], t, fn, shape,
                                  _std_replay(model, sizes, ranks, gamma_mode, 1)))
        if blocks == (1,) * n and gamma_mode == "default":
            # canary: "the update ignores kappa's floor" is wrong; simpler: mu' == mu must be refuted
            ok, be, note, t = P.prove_eq(term(post[0][0][0]), term(run.prior[0][0][0]))
            recs.append(driver.rec(f"C01/{model}/_compute/canary-no-update@{shape}", "discharged" if ok else "refuted", "field", t,
                                   kind="canary", fn=fn, shape=shape, replay=_std_replay(model, sizes, ranks, gamma_mode, scale, clause="canary")))
    return recs


def unit_rate(model, sizes, vec, limit, use_t, history=False):
    """the real rate() against rate_spec, symbolic rank/score values: every weak order is a path.
    history: the same model instance has rated before - the same rating objects' stored snapshots (deep
    copies: same ids, other values) and a game of other players - and must still return the published
    update of the game at hand (a memo keyed by ids / names / too little would not)"""
    n = len(sizes)
    S = extract.Scratch(model)
    tmf = game.stub_tm_real(S)
    game.stub_phi_real(S)
    scale = 2 if model == "ThurstoneMostellerPart" else 1
    shape = f"sizes={sizes},{vec},limit_sigma={limit},tau={'per-call' if use_t else 'model'}" + (",after earlier calls" if history else "")
    fn = f"{model}.rate"
    ctx = Ctx("R", feas_timeout_ms=300)
    recs = []
    npaths = [0]

    def run(ctx):
        m, params = game.mk_model(ctx, S, limit_sigma=limit)
        ctx.assume(term(params["kappa"]) <= 1)
        teams = game.mk_teams(ctx, S, sizes)
        prior = [[(p.mu, p.sigma) for p in t] for t in teams]
        kw = {}
        vals = None
        if vec != "none":
            vals = [ctx.number(f"r{i}", kinds=(KINT, KFLOAT)) for i in range(n)]
            kw[vec] = list(vals)
        tau = params["tau"]
        if use_t:
            tau = ctx.real("t")
            ctx.assume(tau.t >= 0)
            kw["tau"] = tau
        if history:
            import copy as _copy
            snap = _copy.deepcopy(teams)                  # stored snapshots: same ids and names
            for i, t in enumerate(snap):
                for j, p in enumerate(t):
                    p.mu, p.sigma = ctx.real(f"hv_mu_{i}_{j}"), ctx.real(f"hv_sg_{i}_{j}")
                    ctx.assume(p.sigma.t > 0)
            others = game.mk_teams(ctx, S, (1, 1), tag="o")
            h1 = call(m.rate, snap)
            h2 = call(m.rate, others, ranks=[2, 1])
            if h1[0] != "return" or h2[0] != "return":
                recs.append(driver.rec(f"C01/{model}/rate/returns@{shape}", "refuted", "explorer", 0, fn=fn, shape=shape, note="an earlier call raised"))
                return
        out = call(m.rate, teams, **kw)
        npaths[0] += 1
        order = None
        if vals is not None:
            from ..tactics import check_sat
        if out[0] != "return":
            recs.append(driver.rec(f"C01/{model}/rate/returns@{shape}", "refuted", "explorer", 0, fn=fn, shape=shape, note=repr(out[1])))
            return
        X = game.SymX(tmf)
        spec = WS.rate_spec(model, prior, list(vals) if vec == "ranks" else None, list(vals) if vec == "scores" else None,
                            params["beta"], params["kappa"], tau, limit, X, pair_scale=scale)
        P = field.Prover(ctx.hyps(), list(ctx.facts.values()))
        okm = oks = True
        notes = []
        t0 = time.time()
        for i in range(n):
            for j in range(sizes[i]):
                ok, be, note, t = P.prove_eq(term(out[1][i][j].mu), term(spec[i][j][0]))
                if not ok:
                    okm = False
                    notes.append(f"mu[{i},{j}] {note}")
                ok, be, note, t = P.prove_eq(term(out[1][i][j].sigma), term(spec[i][j][1]))
                if not ok:
                    oks = False
                    notes.append(f"sigma[{i},{j}] {note}")
        dt = time.time() - t0
        # replay: an outcome vector realising this path's weak order
        rp = None
        if not (okm and oks):
            from ..tactics import check_sat, model_to_dict
            r, _, mdl, _ = check_sat(ctx.hyps(), timeout_ms=5000, use_cvc5=False, nlsat=False)
            md = model_to_dict(mdl) if mdl is not None else {}
            rp = _std_replay(model, sizes, None, "default", scale, limit=limit)
            rp["history"] = bool(history)
            if vals is not None:
                rp[vec] = [enc_model(md, f"r{i}") for i in range(n)]
            if use_t:
                rp["t"] = enc_model(md, "t", KFLOAT) if "t" in md else {"v": [1, 2], "k": "float"}
        path = f"path{npaths[0]}"
        recs.append(field_rec(f"C01/{model}/rate/mu@{shape},{path}", okm, "field", "; ".join(notes)[:300], dt / 2, fn, shape, rp))
        recs.append(field_rec(f"C01/{model}/rate/sigma@{shape},{path}", oks, "field", "; ".join(notes)[:300], dt / 2, fn, shape, rp))
    explore(ctx, run)
    return recs


def unit_helpers():
    """contracts of the shared helpers rate() is composed with, as premises of the rate-level
    obligations: _unary_minus returns exactly -x with the operand's own numeric kind (the rate-level
    proof treats int -> float conversion as exact, which is only true if no conversion happens)"""
    from . import c03
    out = []
    for r in c03.unit_neg():
        r = dict(r)
        r["name"] = r["name"].replace("C03/", "C01/helper/")
        out.append(r)
    return out


def anysize_note():
    from .anysize import A_SUM
    return A_SUM


def unit_anysize(model, n, gamma_mode):
    """_compute == published update for teams of every size (anysize.py)"""
    from . import anysize
    return anysize.c01(model, n, gamma_mode)


def unit_gauss_contracts():
    """premises of this property's proofs: the contract clauses of v, w, vt, wt that the obligations above
    assume are verified on the real bodies (the C17 units, re-run here under this property's name, so
    that a change inside a callee that breaks a clause this property relies on is reported here too)"""
    from . import c17
    out = []
    for u in ('unit_v', 'unit_w', 'unit_vt', 'unit_wt'):
        for r in getattr(c17, u)():
            if r["kind"] == "canary" or not any(k in r["name"] for k in ('equals', 'returns')):
                continue          # only the clauses this property's proofs rely on
            r = dict(r)
            r["name"] = r["name"].replace("C17/", "C01/helper/")
            out.append(r)
    return out


def unit_anysize_rate(model, n, vec, limit, use_t):
    """the real rate() on n teams of every size (anysize.rate_units)"""
    from . import anysize
    return anysize.rate_units("C01", model, n, vec, limit, use_t)


def units(tier):
    us = [("unit_helpers", ())]
    nmax = 4 if tier == "quick" else 8
    for m in extract.MODELS:
        for n in range(2, (4 if tier == "quick" else 7) + 1):
            us.append(("unit_anysize", (m, n, "default")))
            if n <= 5:
                us.append(("unit_anysize", (m, n, "custom")))
        for n in range(2, nmax + 1):
            for sizes in size_vectors(n, tier):
                us.append(("unit_compute", (m, sizes, "default")))
            us.append(("unit_compute", (m, tuple([1] * n) if n > 2 else (2, 1), "custom")))
        rate_shapes = [(1, 1), (2, 1), (1, 1, 1)] if tier == "quick" else [(1, 1), (2, 1), (1, 1, 1), (1, 2, 1), (1, 1, 1, 1)]
        for sizes in rate_shapes:
            for vec in ("none", "ranks", "scores"):
                for limit in (False, True):
                    if (limit and len(sizes) > 2) or (vec == "scores" and len(sizes) > 3):
                        continue
                    us.append(("unit_rate", (m, sizes, vec, limit, vec == "ranks" and not limit)))
    # biggest first for better packing
    us.sort(key=lambda u: 0 if u[0] == "unit_helpers" else -((sum(u[1][1]) * 2 ** len(u[1][1])) if u[0] != "unit_anysize" else 2 ** u[1][1]))
    us.insert(0, ("unit_gauss_contracts", ()))
    for m in extract.MODELS:
        for a in ([(2, 'ranks', False, True), (2, 'scores', True, False), (3, 'none', False, False)] if tier == "quick" else [(2, 'ranks', False, True), (2, 'scores', True, False), (3, 'none', False, False), (3, 'ranks', False, True), (3, 'scores', False, False), (2, 'none', True, True), (4, 'ranks', False, False)]):
            us.append(("unit_anysize_rate", (m,) + a))
    if tier == "quick":
        us += [("unit_compute", (m, (1,) * 6, "default")) for m in extract.MODELS]
    if tier == "quick":
        us += [("unit_rate", (m, (1,) * 6, "none", False, False)) for m in extract.MODELS]
    us += [("unit_rate", (m, (2, 1), "ranks", False, False, True)) for m in extract.MODELS]
    return us


def main(tier, seed):
    t0 = time.time()
    records, errors, walls = driver.run_units(__name__, units(tier))
    fns = {f"{extract.MODEL_FILES[m]}::{m}.{f}" for m in extract.MODELS for f in
           ("_compute", "rate", "_calculate_team_ratings", "_calculate_rankings", "_c", "_sum_q", "_a")}
    fns |= {f"{extract.MODEL_FILES[m]}::_gamma" for m in extract.MODELS}
    fns |= {f"{extract.WL_COMMON}::_ladder_pairs", f"{extract.WL_COMMON}::_unwind", f"{extract.COMMON}::_unary_minus"}
    return driver.finish(
        PROP, tier, seed, "other", records, errors, walls, t0,
        functions=fns,
        assumptions=[
            "A-fp: machine arithmetic treated as mathematical (R-mode); the property's '1e-9 relative' is not decided, exact equality over the reals with the published formula is",
            "A-exp (exp(a+b) = exp a * exp b, exp > 0) and A-sqrt (sqrt(x)^2 = x, sqrt(k^2 x) = k sqrt x for k > 0) are used by the normaliser; machine-checked against Mathlib in lemmas/Axioms.lean (thorough tier of C16)",
            "denominators non-zero and sqrt arguments non-negative on the path (side conditions of the field normal form; proved by C08's safety obligations)",
            "v, w, vt, wt enter as the uninterpreted V, W, Vt, Wt of their contracts (the property's 'documented asymptotic form' is C17's business); a custom gamma is an uninterpreted function >= 0 of its arguments (A-gamma)",
            "oracle = pyvc/specs/weng_lin.py, transcribed from Weng & Lin (2011) Algorithms 1-4 and the property text (trusted transcription)",
            anysize_note(),
            "shape-bounded: tie patterns all 2^(n-1) per n, n = 2..4 quick / 2..8 thorough, team-size vectors in coverage.shapes; rate-level: every weak order of symbolic rank/score values for the listed small shapes",
        ],
        explanation=("For every listed shape the real _compute of each model is executed on symbolic ratings and its per-player (mu, sigma) result terms are proved *identical as exact normal forms* (Laurent polynomials over canonical sqrt/exp/V/W atoms with named denominators) to the published Weng-Lin update written from the paper; "
                     "the real rate() (tau inflation, stable sort by rank, _compute, unsort, limit_sigma clamp) is proved equal to the spec composition for symbolic rank or score vectors on every path of the sort (every weak order). Values unbounded, shapes bounded. "
                     "Known finding K1: ThurstoneMostellerPart uses pair scale 2*sqrt(..) (proved equal to the published update with k = 2; the k = 1 obligation fails)."),
        shapes=sorted({str(u[1][1]) if u[0] != "unit_anysize" else f"n={u[1][1]}, every team size (gamma {u[1][2]})" for u in units(tier) if len(u[1]) > 1 and u[0] != "unit_anysize_rate"} | {f"rate(): n={u[1][1]}, {u[1][2]}, limit_sigma={u[1][3]}, every team size" for u in units(tier) if u[0] == "unit_anysize_rate"}),
    )
