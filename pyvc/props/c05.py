"""C05 - direction of learning: winning never costs mu, losing never earns it.

link       the real _compute's mu results equal the published update (field)
           and move each member by share*Omega_i (same-direction identity, field, on the code's terms)
spec-level sign obligations on Omega_i of that update:
  first-alone / last-alone   structural sign proof (split + z3)
  two-team-order             loss <= draw <= win, loss <= 0 <= win, draw does not raise the
                             stronger / lower the weaker team (TM: beyond (s_i/c) * kappa/c)
  swap-up                    (PL, BT-full, TM-full; no ties) taking a better place does not lower Omega
  identical-teams            (no ties) Omega ordered by place, strictly for PL / full pairing
using A-exp monotonicity instances and the contract clauses of v, vt."""
from __future__ import annotations

import itertools
import time

import z3

from .. import driver, extract, field, game, signs
from ..symrt import Ctx, active, term
from ..specs import weng_lin as WS
from .computil import (CodeWorld, ComputeRun, compositions, field_rec, ge_rec, generic_lemma, link, ranks_of, scale_of, size_vectors)
from . import c01

PROP = "C05"


def _rp(model, sizes, ranks, clause=None):
    rp = c01._std_replay(model, sizes, ranks, "default", scale_of(model), clause=clause)
    rp["kind"] = "c05_dir"
    return rp


def unit_compute(model, sizes):
    recs = []
    n = len(sizes)
    fn = f"{model}._compute"
    for blocks in compositions(n):
        ranks = ranks_of(blocks)
        shape = f"sizes={sizes},ties={blocks}"
        run = ComputeRun(model, sizes, ranks, "default")
        rp = _rp(model, sizes, ranks)
        if not run.ok():
            recs.append(driver.rec(f"C05/{model}/_compute/returns@{shape}", "refuted", "explorer", 0, fn=fn, shape=shape, note=repr(run.out[1]), replay=rp))
            continue
        ok, note, t, spec, det, P = link(run, which=("mu",))
        post = run.post()
        # same direction, proportional to own variance: (mu'_j - mu_j) sigma_k^2 == (mu'_k - mu_k) sigma_j^2
        t0 = time.time()
        okd = True
        for i in range(n):
            for j in range(sizes[i] - 1):
                with active(run.ctx):
                    a = (post[i][j][0] - run.prior[i][j][0]) * (run.prior[i][j + 1][1] * run.prior[i][j + 1][1])
                    b = (post[i][j + 1][0] - run.prior[i][j + 1][0]) * (run.prior[i][j][1] * run.prior[i][j][1])
                okd = okd and P.prove_eq(term(a), term(b))[0]
        if any(s > 1 for s in sizes):
            recs.append(field_rec(f"C05/{model}/_compute/same-direction@{shape}", okd, "field", "", time.time() - t0, fn, shape, rp))
        SP = signs.SignProver(run.hyps, run.facts)

        def alone(i, want, nm):
            """fast path: the code's mu equals mu + share*Omega_i of the published update (exact), whose Omega_i
            is signed structurally; otherwise directly on the code's own result terms"""
            t0 = time.time()
            if ok and SP.prove(term(det["omega"][i]), want):
                return driver.rec(f"C05/{model}/_compute/{nm}@{shape}", "discharged", "field+split+z3", time.time() - t0, fn=fn, shape=shape, mode="R")
            res_all = None
            for j in range(sizes[i]):
                with active(run.ctx):
                    d = term(post[i][j][0] - run.prior[i][j][0])
                res = P.prove_ge(d, z3.RealVal(0)) if want == "ge" else P.prove_ge(z3.RealVal(0), d)
                if res[0] != "discharged":
                    res_all = res
                    break
                res_all = res
            return ge_rec(f"C05/{model}/_compute/{nm}@{shape}", res_all, fn, shape, rp)
        if blocks[0] == 1:
            recs.append(alone(0, "ge", "first-alone"))
        if blocks[-1] == 1:
            recs.append(alone(n - 1, "le", "last-alone"))
            if blocks == (1,) * n and ok:
                wrong = SP.prove(term(det["omega"][n - 1]), "gt")
                recs.append(driver.rec(f"C05/{model}/_compute/canary-last-gains@{shape}", "discharged" if wrong else "refuted", "split+z3", 0,
                                       kind="canary", fn=fn, shape=shape, replay=_rp(model, sizes, ranks, "canary")))
    return recs


def exp_mono(W):
    """A-exp monotonicity instances for the exp applications of the runs"""
    apps = W.apps("exp")
    out, seen = [], set()
    for (a, xa), (b, xb) in itertools.permutations(apps, 2):
        k = (a.get_id(), b.get_id())
        if k in seen or z3.eq(a, b):
            continue
        seen.add(k)
        out.append(z3.Implies(xa >= xb, a >= b))
    return out


def tm_instances(W, P):
    """instances of the relational contract clauses of v / vt whose arguments match canonically"""
    out = []
    vs = {a.get_id(): (a, x, t) for (a, x, t) in W.apps("v")}
    vts = {a.get_id(): (a, x, t) for (a, x, t) in W.apps("vt")}
    for (b, xb, tb) in vts.values():
        out.append(z3.Implies(xb >= 0, b <= tb))
        out.append(z3.Implies(xb <= 0, b >= -tb))
        for (a, xa, ta) in vs.values():
            if not P.prove_eq(ta, tb)[0]:
                continue
            if P.prove_eq(xa, xb)[0]:
                out.append(a >= b)           # v(x,t) >= vt(x,t)
            if P.prove_eq(xa + xb, z3.RealVal(0))[0]:
                out.append(b >= -a)          # vt(x,t) >= -v(-x,t)
    return out


def unit_two_team(model, sizes):
    """three executions of the real _compute on one symbolic two-team game: team 0 wins / draw / loses"""
    recs = []
    shape = f"sizes={sizes}"
    fn = f"{model}._compute"
    W = CodeWorld(model, sizes)
    win, draw, loss = W.outcome([0, 1]), W.outcome([0, 0]), W.outcome([1, 0])
    P = W.prover()
    tmm = model.startswith("Thurstone")
    extra = exp_mono(W) + (tm_instances(W, P) if tmm else [])
    rp = _rp(model, sizes, [0, 1])
    with active(win.ctx):
        th = [0, 0]
        sv = [0, 0]
        for i in (0, 1):
            for (mu, sg) in win.prior[i]:
                th[i] = th[i] + mu
                sv[i] = sv[i] + sg * sg
        c = scale_of(model) * game.SymX(win.tm).sqrt(sv[0] + sv[1] + 2 * win.params["beta"] * win.params["beta"])
        th0, th1 = term(th[0]), term(th[1])
    zero = z3.RealVal(0)
    for i, (better, worse) in ((0, (win, loss)), (1, (loss, win))):
        for j in range(sizes[i]):
            d = lambda run: W.dmu(run, i, j)
            for nm, a, b in (("win>=draw", d(better), d(draw)), ("draw>=loss", d(draw), d(worse)),
                             ("win>=prior", d(better), zero), ("prior>=loss", zero, d(worse))):
                res = P.prove_ge(a, b, extra_hyps=list(extra))
                recs.append(ge_rec(f"C05/{model}/_compute/two-team/{nm}[team{i},player{j}]@{shape}", res, fn, shape, rp))
            # a draw never raises the stronger team / lowers the weaker one
            # (TM: beyond share * (s_i/c_iq) * (kappa/c_iq), c_iq the documented pair scale)
            with active(win.ctx):
                if tmm:
                    sg = win.prior[i][j][1]
                    margin = term((sg * sg / sv[i]) * (sv[i] / c) * (win.params["kappa"] / c))
                else:
                    margin = zero
            stronger = (th0 >= th1) if i == 0 else (th1 >= th0)
            weaker = (th0 <= th1) if i == 0 else (th1 <= th0)
            res = P.prove_ge(margin, d(draw), extra_hyps=list(extra) + [stronger])
            recs.append(ge_rec(f"C05/{model}/_compute/two-team/draw-does-not-raise-stronger[team{i},player{j}]@{shape}", res, fn, shape, rp))
            res = P.prove_ge(d(draw), -margin, extra_hyps=list(extra) + [weaker])
            recs.append(ge_rec(f"C05/{model}/_compute/two-team/draw-does-not-lower-weaker[team{i},player{j}]@{shape}", res, fn, shape, rp))
    # canary: "a draw never lowers team 0" is false when team 0 is the stronger one
    res = P.prove_ge(W.dmu(draw, 0), zero, extra_hyps=list(extra))
    recs.append(driver.rec(f"C05/{model}/_compute/two-team/canary-draw-never-lowers@{shape}", "discharged" if res[0] == "discharged" else "refuted", res[1], res[3],
                           kind="canary", fn=fn, shape=shape, replay=None))
    return recs


def unit_swap_up(model, n):
    """no ties: team b takes the place of a better-placed team a (and a takes b's);
    both outcomes are executions of the real _compute on the same symbolic game"""
    recs = []
    sizes = (1,) * n if n > 2 else (2, 1)
    shape = f"sizes={sizes}"
    fn = f"{model}._compute"
    W = CodeWorld(model, sizes)
    base = list(range(n))                # team k at place k
    r0 = W.outcome(base)
    outs = {}
    for a in range(n):
        for b in range(a + 1, n):
            r2 = list(base)
            r2[a], r2[b] = base[b], base[a]
            outs[(a, b)] = W.outcome(r2)
    P = W.prover()
    for (a, b), r1 in outs.items():
        for j in range(sizes[b]):
            res = P.prove_ge(W.dmu(r1, b, j), W.dmu(r0, b, j))
            recs.append(ge_rec(f"C05/{model}/_compute/swap-up[{b}->{a},player{j}]@{shape}", res, fn, shape, _rp(model, sizes, base)))
    return recs


def unit_identical(model, n):
    recs = []
    sizes = (2,) * n
    shape = f"n={n},identical teams of 2"
    fn = f"{model}._compute"
    W = CodeWorld(model, sizes, identical=True)
    r = W.outcome(list(range(n)))
    P = W.prover()
    strict = model in ("PlackettLuce", "BradleyTerryFull", "ThurstoneMostellerFull")
    for k in range(n - 1):
        for j in range(2):
            res = P.prove_ge(W.dmu(r, k, j), W.dmu(r, k + 1, j), strict=strict)
            recs.append(ge_rec(f"C05/{model}/_compute/identical-teams-ordered-by-place[{k}>{k + 1},player{j}]@{shape}", res, fn, shape, _rp(model, sizes, list(range(n)))))
    return recs


def unit_rate_alone(model, sizes):
    """first/last-alone on the result of the real rate() for symbolic rank values (every weak order a path,
    unsorted presentations included): the posterior handed back *at the winner's position* must not be below
    that player's prior, and the one at the loser's position not above"""
    from .. import extract as ex
    from ..symrt import KFLOAT, KINT, call, explore
    n = len(sizes)
    S = ex.Scratch(model)
    game.stub_tm_real(S)
    game.stub_phi_real(S)
    shape = f"sizes={sizes},symbolic ranks"
    fn = f"{model}.rate"
    ctx = Ctx("R", feas_timeout_ms=300)
    recs = []
    np_ = [0]

    def run(ctx):
        m, params = game.mk_model(ctx, S)
        ctx.assume(term(params["kappa"]) <= 1)
        teams = game.mk_teams(ctx, S, sizes)
        prior = [[p.mu for p in t] for t in teams]
        r = [ctx.number(f"r{i}", kinds=(KINT, KFLOAT)) for i in range(n)]
        out = call(m.rate, teams, ranks=list(r))
        np_[0] += 1
        rp = _rp(model, sizes, None)
        if out[0] != "return":
            recs.append(driver.rec(f"C05/{model}/rate/returns@{shape}", "refuted", "explorer", 0, fn=fn, shape=shape, replay=rp))
            return
        first = [i for i in range(n) if all(bool(r[i] < r[q]) for q in range(n) if q != i)]
        last = [i for i in range(n) if all(bool(r[i] > r[q]) for q in range(n) if q != i)]
        if not first and not last:
            return
        P = field.Prover(ctx.hyps(), list(ctx.facts.values()), timeout_ms=5000)
        from ..tactics import check_sat, model_to_dict
        from .util import enc_model
        zero = z3.RealVal(0)
        for i, nm in [(i, "first-alone") for i in first] + [(i, "last-alone") for i in last]:
            ok = True
            for j in range(sizes[i]):
                d = term(out[1][i][j].mu) - term(prior[i][j])
                res = P.prove_ge(d, zero) if nm == "first-alone" else P.prove_ge(zero, d)
                ok = ok and res[0] == "discharged"
            if not ok:
                rr, _, mdl, _ = check_sat(ctx.hyps(), timeout_ms=5000, use_cvc5=False, nlsat=False)
                md = model_to_dict(mdl) if mdl is not None else {}
                rp = dict(rp, ranks=[enc_model(md, f"r{k}") for k in range(n)])
            recs.append(driver.rec(f"C05/{model}/rate/{nm}@{shape},path{np_[0]}", "discharged" if ok else "open", "field-sign+z3", 0,
                                   fn=fn, shape=shape, mode="R", replay=None if ok else rp))
    explore(ctx, run, max_paths=500)
    return recs


def unit_lemmas():
    mu, s2, S, om = z3.Reals("mu sigma2 s omega")

    def up():
        return [S > 0, s2 >= 0, om >= 0], mu + (s2 / S) * om >= mu

    def down():
        return [S > 0, s2 >= 0, om <= 0], mu + (s2 / S) * om <= mu

    def mono():
        o2 = z3.Real("omega2")
        return [S > 0, s2 >= 0, om >= o2], mu + (s2 / S) * om >= mu + (s2 / S) * o2
    return [generic_lemma("C05/lemma/share-times-omega-nonneg", up), generic_lemma("C05/lemma/share-times-omega-nonpos", down),
            generic_lemma("C05/lemma/mu-monotone-in-omega", mono)]


def unit_rate_two_team(model, sizes, vec):
    """the two-team order clauses are proved on the published update; this carries them to the
    real rate(): for symbolic rank / score values (win, draw and loss are the three paths of the
    sort) every posterior mu of rate() is, as an exact normal form, the published update of
    that outcome - so a rate() that mis-routes an outcome (a tie rated as a win) fails here"""
    out = []
    for r in c01.unit_rate(model, sizes, vec, False, False):
        if "/rate/mu@" in r["name"] or "/rate/returns@" in r["name"]:
            r = dict(r)
            r["name"] = r["name"].replace("C01/", "C05/").replace("/rate/mu@", "/rate/two-team/mu-is-the-published-update-of-the-outcome@")
            out.append(r)
    return out


def unit_anysize(model, n):
    """same-direction (two arbitrary members), first/last-alone for teams of every size"""
    from . import anysize
    return anysize.c05(model, n)


def unit_gauss_contracts():
    """premises of this property's proofs: the contract clauses of v and vt that the obligations above
    assume are verified on the real bodies (the C17 units, re-run here under this property's name, so
    that a change inside a callee that breaks a clause this property relies on is reported here too)"""
    from . import c17
    out = []
    for u in ('unit_v', 'unit_vt', 'unit_contract_v_vt'):
        for r in getattr(c17, u)():
            if r["kind"] == "canary" or not any(k in r["name"] for k in ('/v/positive', '/vt/contract/', '/contract/')):
                continue          # only the clauses this property's proofs rely on
            r = dict(r)
            r["name"] = r["name"].replace("C17/", "C05/helper/")
            out.append(r)
    return out


def units(tier):
    us = [("unit_lemmas", ())]
    nmax = 4 if tier == "quick" else 8
    for m in extract.MODELS:
        for n in range(2, (4 if tier == "quick" else 7) + 1):
            us.append(("unit_anysize", (m, n)))
        for n in range(2, nmax + 1):
            svs = size_vectors(n, tier)
            for sizes in (svs if n <= 3 or tier == "thorough" else svs[:2]):
                us.append(("unit_compute", (m, sizes)))
        for sizes in ([(1, 1), (2, 1), (1, 2), (2, 2)] + ([(3, 1), (1, 3), (3, 3), (8, 1)] if tier == "thorough" else [])):
            us.append(("unit_two_team", (m, sizes)))
        for sizes in ([(1, 1, 1)] if tier == "quick" else [(1, 1, 1), (2, 1, 1), (1, 1, 1, 1)]):
            us.append(("unit_rate_alone", (m, sizes)))
        for sizes in ([(1, 1)] if tier == "quick" else [(1, 1), (2, 1), (2, 2)]):
            for vec in ("ranks", "scores"):
                us.append(("unit_rate_two_team", (m, sizes, vec)))
        for n in range(2, (4 if tier == "quick" else 6) + 1):
            if m in ("PlackettLuce", "BradleyTerryFull", "ThurstoneMostellerFull"):
                us.append(("unit_swap_up", (m, n)))
            us.append(("unit_identical", (m, n)))
    us.insert(0, ("unit_gauss_contracts", ()))
    if tier == "quick":
        us += [("unit_compute", (m, (1,) * 6)) for m in extract.MODELS]
    return us


def main(tier, seed):
    t0 = time.time()
    records, errors, walls = driver.run_units(__name__, units(tier))
    fns = {f"{extract.MODEL_FILES[m]}::{m}.{f}" for m in extract.MODELS for f in ("_compute", "_calculate_team_ratings", "_c", "_sum_q", "_a")}
    fns.add(f"{extract.WL_COMMON}::_ladder_pairs")
    return driver.finish(
        PROP, tier, seed, "other", records, errors, walls, t0,
        functions=fns,
        assumptions=[
            "A-fp: reals, not floats: that rounding inside v/w/vt cannot flip a sign for teams 5-8 deviations apart is NOT decided here (root cause D4 is decided by C17)",
            "A-exp: exp > 0, monotone (instances), exp(a+b) = exp a exp b",
            "contract clauses of v, vt assumed here and verified in C17: v > 0; v(x,t) >= vt(x,t) >= -v(-x,t); x >= 0 => vt(x,t) <= t; x <= 0 => vt(x,t) >= -t",
            "two-team-order, swap-up, identical-teams are proved on the published update; they transfer to the code through the link obligations mu-equals-published-update (all tie patterns of every listed shape); for two teams the link is also proved on the real rate() for symbolic rank and score values (win / draw / loss are paths), for more teams rate's sort is C02/C03's business",
            "Thurstone-Mosteller partial pairing is linked with pair scale 2 (known finding K1 of C01)",
            __import__("pyvc.props.anysize", fromlist=["A_SUM"]).A_SUM,
            "shape-bounded: n = 2..4 quick / 2..8 thorough; two-team sizes and swap-up/identical n listed in coverage.shapes",
        ],
        explanation=("Per shape the mu results of the real _compute are proved equal (exact normal forms) to the published update mu + share*Omega_i, and the same-direction/proportionality identity is proved on the code's own terms. The sign clauses are then proved for Omega_i of that update: first/last-alone by a structural sign proof (sums from addends, products from factors, leaves by z3 with the relevant lemma instances); "
                     "two-team loss<=draw<=win, prior between loss and win, draw direction; swap-up; identical teams ordered by place - by the exact normal form of the difference being term-wise non-negative or by z3 over the canonical atoms, with exp-monotonicity instances and the v/vt contract clauses."),
        shapes=sorted({(str(u[1][1]) if u[0] != "unit_anysize" else f"n={u[1][1]}, every team size") for u in units(tier) if len(u[1]) > 1}),
    )
