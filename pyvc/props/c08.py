"""C08 - totality: valid games give finite ratings and probabilities, never an exception.

Classic safety obligations, generated automatically at every partial operation met
while the real bodies of _compute / rate / predict_* run in R-mode on symbolic
games: division by a non-zero value, square root of a non-negative value, exp
argument within [-700, 700], inverse-CDF argument inside (0, 1), no path ending
in an exception, results bounded by 1e300.  Discharged by the `interval` tactic
(pyvc/intervals.py): sound interval evaluation over the property's input domain
with a scale degree in beta, so every bound holds for beta anywhere in
[25/6 * 1e-3, 25/6 * 1e3]."""
from __future__ import annotations

import time

import z3

from .. import driver, extract, game, intervals
from ..intervals import IV, Evaluator
from ..symrt import Ctx, active, call, explore, term
from .computil import ComputeRun, compositions, ranks_of, scale_of
from .predutil import PredictWorld
from . import c01

PROP = "C08"


def domain(sigma_zero=False, inflated=False):
    def dom(name):
        if name == "m_beta":
            return IV(1, 1, 1, True)
        if name == "m_kappa":
            return IV(0, 1e-2, 0, True)
        if name in ("m_tau", "t"):
            return IV(0, 100, 1, sigma_zero)          # tau > 0 when sigma may be 0
        if name.startswith("mu_"):
            return IV(-20, 20, 1)
        if name.startswith("sg_"):
            if sigma_zero:
                return IV(0, 10, 1)
            return IV(1e-4, 101 if inflated else 10, 1, True)
        if name in ("m_mu0", "m_sigma0"):
            return IV(0, 100, 1)
        # teams of every size up to 16 members (pyvc/teams.py): the aggregates and the size
        if name.startswith("theta_"):
            return IV(-320, 320, 1)
        if name.startswith("s_"):
            return IV(1e-8, 16 * (101.0 if inflated else 10.0) ** 2, 2, True)
        if name.startswith("L_"):
            return IV(1, 16, 0, True)
        return None
    return dom


def judge(obls, dom, prefix, shape, fn, replay, away=True):
    """group the safety obligations by (kind@site) and decide each instance by intervals;
    away: a denominator must be bounded away from zero (|d| >= 1e-300), not merely non-zero
    over the reals - a float denominator can underflow"""
    ev = Evaluator(dom)
    groups = {}
    t0 = time.time()
    for o in obls:
        if o.kind != "safety":
            continue
        ok = ev.holds(o.goal)
        if ok and away and o.name.startswith("div-nonzero"):
            g = o.goal
            den = g.children()[0].children()[0] if g.decl().kind() == z3.Z3_OP_NOT else g.children()[0]
            try:
                v = ev.ev(den).numeric()
                ok = v.lo >= 1e-300 or v.hi <= -1e-300
            except Exception:  # noqa: BLE001
                ok = False
        g = groups.setdefault(o.name, [0, 0, None])
        g[0] += 1
        g[1] += ok
        if not ok and g[2] is None:
            g[2] = str(o.goal)[:200]
    dt = time.time() - t0
    recs = []
    for name, (n, k, bad) in sorted(groups.items()):
        recs.append(driver.rec(f"{prefix}/{name}@{shape}", "discharged" if n == k else "open", "interval", dt / max(1, len(groups)), fn=fn, shape=shape, mode="R",
                               note=f"{k}/{n} instances" + (f"; first open: {bad}" if bad else ""), replay=None if n == k else replay))
    return recs, ev


def finite_rec(ev, name, terms, shape, fn, replay):
    ok, note = True, ""
    for t in terms:
        try:
            v = ev.ev(t).numeric()
            if not (abs(v.lo) <= 1e300 and abs(v.hi) <= 1e300):
                ok, note = False, f"bound {v}"
                break
        except Exception as e:  # noqa: BLE001
            ok, note = False, f"{type(e).__name__}: {e}"
            break
    return driver.rec(name, "discharged" if ok else "open", "interval", 0, fn=fn, shape=shape, mode="R", note=note, replay=None if ok else replay)


def _rp(model, sizes, ranks=None):
    rp = c01._std_replay(model, sizes, ranks, "default", scale_of(model))
    rp["kind"] = "c08_total"
    return rp


def unit_compute(model, sizes, gamma_mode):
    recs = []
    n = len(sizes)
    fn = f"{model}._compute"
    pats = compositions(n) if n <= 4 else [tuple([1] * n), (n,), tuple([2] * (n // 2) + [1] * (n % 2))]
    for blocks in pats:
        ranks = ranks_of(blocks)
        shape = f"sizes={sizes},ties={blocks},gamma={gamma_mode}"
        run = ComputeRun(model, sizes, ranks, gamma_mode, safety=True)
        rp = _rp(model, sizes, ranks)
        recs.append(driver.rec(f"C08/{model}/_compute/no-raise@{shape}", "discharged" if run.ok() else "refuted", "explorer", 0, fn=fn, shape=shape,
                               note="" if run.ok() else repr(run.out[1])[:200], replay=None if run.ok() else rp))
        if not run.ok():
            continue
        r, ev = judge(run.ctx.all_obls, domain(inflated=True), f"C08/{model}/_compute", shape, fn, rp)
        recs += r
        post = run.post()
        recs.append(finite_rec(ev, f"C08/{model}/_compute/results-bounded-by-1e300@{shape}", [term(x) for t in post for p in t for x in p], shape, fn, rp))
        if blocks == (1,) * n and gamma_mode == "default" and sizes == (1,) * n:
            # canary: with mu unbounded the exp-range obligation must not be provable
            d0 = domain(inflated=True)
            wild = lambda name: IV(-1e6, 1e6, 1) if name.startswith("mu_") else d0(name)
            evw = Evaluator(wild)
            bad = [o for o in run.ctx.all_obls if o.kind == "safety" and o.name.startswith("exp-range") and not evw.holds(o.goal)]
            if model.startswith("Thurstone"):
                bad = [o for o in run.ctx.all_obls if o.kind == "safety" and not Evaluator(lambda nm: IV(0, 10, 1) if nm.startswith("sg_") else d0(nm)).holds(o.goal)]
            recs.append(driver.rec(f"C08/{model}/_compute/canary-outside-the-domain@{shape}", "refuted" if bad else "discharged", "interval", 0, kind="canary",
                                   fn=fn, shape=shape, replay=dict(rp, clause="canary")))
    return recs


def unit_compute_anysize(model, n, gamma_mode):
    """the same safety obligations on the real _compute for teams of every size from 1 to 16 members
    (symbolic member counts; the aggregates range over what 16 members of the domain can add up to)"""
    from .computil import GenericRun
    from ..symrt import UncutLoop
    recs = []
    fn = f"{model}._compute"
    pats = compositions(n) if n <= 3 else [tuple([1] * n), (n,), tuple([2] * (n // 2) + [1] * (n % 2))]
    for blocks in pats:
        ranks = ranks_of(blocks)
        shape = f"n={n},ties={blocks},gamma={gamma_mode},any-team-size (1..16 members)"
        rp = _rp(model, (16,) * min(n, 2) + (1,) * max(0, n - 2), ranks)
        try:
            run = GenericRun(model, n, ranks, gamma_mode, safety=True)
        except UncutLoop as e:
            recs.append(driver.rec(f"C08/{model}/_compute/any-team-size/unbounded-proof@{shape}", "note", "explorer", 0, kind="note", fn=fn, shape=shape, note=f"not attempted: {e}"))
            continue
        if not run.ok():
            if isinstance(run.out[1], UncutLoop):
                recs.append(driver.rec(f"C08/{model}/_compute/any-team-size/unbounded-proof@{shape}", "note", "explorer", 0, kind="note", fn=fn, shape=shape, note=f"not attempted: {run.out[1]}"))
            else:
                recs.append(driver.rec(f"C08/{model}/_compute/any-team-size/no-raise@{shape}", "refuted", "explorer", 0, fn=fn, shape=shape, note=repr(run.out[1])[:200], replay=rp))
            continue
        recs.append(driver.rec(f"C08/{model}/_compute/any-team-size/no-raise@{shape}", "discharged", "explorer", 0, fn=fn, shape=shape))
        r, ev = judge(run.ctx.all_obls, domain(inflated=True), f"C08/{model}/_compute/any-team-size", shape, fn, rp)
        recs += r
        post = run.post()
        recs.append(finite_rec(ev, f"C08/{model}/_compute/any-team-size/results-bounded-by-1e300@{shape}", [term(x) for t in post for p in t for x in p], shape, fn, rp))
    return recs


def unit_rate(model, sizes, ranks, limit, sigma_zero):
    S = extract.Scratch(model)
    game.stub_tm_real(S)
    game.stub_phi_real(S)
    shape = f"sizes={sizes},ranks={ranks},limit_sigma={limit},sigma>={'0 (tau>0)' if sigma_zero else '1e-4 beta'}"
    fn = f"{model}.rate"
    ctx = Ctx("R", safety=True, feas_timeout_ms=200)
    outs = []

    def run(ctx):
        m, params = game.mk_model(ctx, S, limit_sigma=limit)
        teams = game.mk_teams(ctx, S, sizes, sigma_pos=not sigma_zero)
        o = call(m.rate, teams, ranks=list(ranks) if ranks else None)
        outs.append(o)
    explore(ctx, run)
    rp = _rp(model, sizes, ranks)
    rp["limit"] = limit
    if sigma_zero:
        for t in rp["game"]:
            t[0][1] = {"v": [0, 1], "k": "float"}
    recs = []
    bad = [o for o in outs if o[0] != "return"]
    recs.append(driver.rec(f"C08/{model}/rate/no-raise@{shape}", "discharged" if not bad else "refuted", "explorer", 0, fn=fn, shape=shape,
                           note=f"{len(outs)} paths" + (f"; {bad[0][1]!r}" if bad else ""), replay=None if not bad else rp))
    r, ev = judge(ctx.all_obls, domain(sigma_zero=sigma_zero), f"C08/{model}/rate", shape, fn, rp, away=not sigma_zero)
    recs += r
    good = [o for o in outs if o[0] == "return"]
    if good and not sigma_zero:
        recs.append(finite_rec(ev, f"C08/{model}/rate/results-bounded-by-1e300@{shape}", [term(x) for o in good[:4] for t in o[1] for p in t for x in (p.mu, p.sigma)], shape, fn, rp))
    return recs


def unit_predict(model, sizes):
    recs = []
    shape = f"sizes={sizes}"
    W = PredictWorld(model, sizes, safety=True)
    rp = {"kind": "c08_predict", "model": model, "game": c01._std_replay(model, sizes, None, "default")["game"]}
    outs = {}
    for op in ("predict_win", "predict_draw", "predict_rank"):
        outs[op] = W.run(op)
        fn = f"{model}.{op}"
        ok = outs[op][0] == "return"
        recs.append(driver.rec(f"C08/{model}/{op}/no-raise@{shape}", "discharged" if ok else "refuted", "explorer", 0, fn=fn, shape=shape,
                               note="" if ok else repr(outs[op][1])[:200], replay=None if ok else dict(rp, op=op)))
    dom0 = domain()
    r, ev = judge(W.ctx.obls, dom0, f"C08/{model}/predict", shape, f"{model}.predict_*", rp)
    recs += r
    for op, o in outs.items():
        if o[0] == "return":
            terms = [x for x in game.flatten(o[1]) if isinstance(x, z3.ExprRef)]
            recs.append(finite_rec(ev, f"C08/{model}/{op}/results-bounded@{shape}", terms, shape, f"{model}.{op}", dict(rp, op=op)))
    return recs


def unit_gauss():
    """the bodies of v, w, vt, wt (real AST, phi_major/phi_minor by contract): every division has a
    denominator that the branch guard keeps away from zero *as a float*: |denominator| >= 2^-1000 on
    the path (a denominator that is merely non-zero over the reals can underflow to 0.0)"""
    from . import c17
    from .. import tactics
    from .util import settle, enc_model
    recs = []
    tiny = z3.RealVal(2) ** -1000 if False else z3.RealVal("1/" + str(2 ** 1000))
    for fnname in ("v", "w", "vt", "wt"):
        G = c17.GaussWorld()
        ctx = Ctx("R", safety=True, feas_timeout_ms=2000)
        npaths = [0]

        def run(ctx, fnname=fnname):
            x, t = G.inputs(ctx)
            del G.phis[:]
            out = call(G.wl[fnname], x, t)
            npaths[0] += 1
            mk = lambda md: {"kind": "c08_gauss", "fn": fnname, "x": enc_model(md, "x", 2), "t": enc_model(md, "t", 2)}
            ctx.oblige(f"C08/{fnname}/no-raise", out[0] == "return", meta={"replay": mk, "fn": fnname, "unbounded": True})
            # strengthen the generated div-nonzero obligations
            for o in list(ctx.obls):
                if o.kind == "safety" and o.name.startswith("div-nonzero") and not o.meta.get("done"):
                    g = o.goal
                    den = g.children()[0].children()[0] if g.decl().kind() == z3.Z3_OP_NOT else g.children()[0]
                    o.meta["done"] = True
                    o.name = f"C08/{fnname}/denominator-kept-away-from-zero@" + o.name.split("@")[-1]
                    o.goal = z3.Or(den >= tiny, den <= -tiny)
                    o.kind = "post"
                    o.meta.update(replay=mk, fn=fnname, unbounded=True)
                    # the obligation is about the path *up to the division*: hypotheses were snapshotted then
        explore(ctx, run)
        recs += settle([o for o in ctx.all_obls if o.kind != "safety"], mode="R", unbounded=True, timeout_ms=20000)
    return recs


def units(tier):
    us = [("unit_gauss", ())]
    for m in extract.MODELS:
        shapes = [(1, 1), (2, 1), (16, 1), (16, 16), (2, 1, 3), (1, 1, 1, 1)] if tier == "quick" else \
            [(1, 1), (2, 1), (16, 1), (16, 16), (2, 1, 3), (1, 1, 1, 1), (2, 16, 1, 3), (1,) * 6, (1,) * 8, (16, 1, 2, 1, 1, 3, 1, 16)]
        for s in shapes:
            us.append(("unit_compute", (m, s, "default")))
        us.append(("unit_compute", (m, (2, 1, 1), "custom")))
        for (s, r) in [((1, 1), None), ((2, 1), [1, 1]), ((1, 1, 1), [2, 1, 2])]:
            for limit in (False, True):
                us.append(("unit_rate", (m, s, r, limit, False)))
            us.append(("unit_rate", (m, s, r, False, True)))
        for s in ([(1, 1), (2, 1), (16, 16), (1, 1, 1), (2, 1, 1, 3)] if tier == "quick" else [(1, 1), (2, 1), (16, 16), (1, 1, 1), (2, 1, 1, 3), (1,) * 6, (16,) * 8]):
            us.append(("unit_predict", (m, s)))
    us.sort(key=lambda u: -sum(u[1][1]) * len(u[1][1]) if u[0] != "unit_gauss" else -10 ** 6)
    for m in extract.MODELS:
        for n in range(2, (4 if tier == "quick" else 8) + 1):
            us.append(("unit_compute_anysize", (m, n, "default")))
        us.append(("unit_compute_anysize", (m, 3, "custom")))
    if tier == "quick":
        us += [("unit_compute", (m, (1,) * 6, "default")) for m in extract.MODELS] + [("unit_predict", (m, (1,) * 6)) for m in extract.MODELS]
    return us


def main(tier, seed):
    t0 = time.time()
    records, errors, walls = driver.run_units(__name__, units(tier))
    fns = {f"{extract.MODEL_FILES[m]}::{m}.{f}" for m in extract.MODELS for f in ("rate", "_compute", "predict_win", "predict_draw", "predict_rank", "_calculate_team_ratings", "_c", "_sum_q", "_a")}
    fns |= {f"{extract.MODEL_FILES[m]}::_gamma" for m in extract.MODELS}
    return driver.finish(
        PROP, tier, seed, "other", records, errors, walls, t0,
        functions=fns,
        assumptions=[
            "input domain (the property's, relative to beta in [25/6*1e-3, 25/6*1e3]): |mu| <= 20 beta, sigma in [1e-4 beta, 10 beta] (or sigma >= 0 with tau > 0), tau in [0, 100 beta] (finite upper bound added), kappa in (0, 1e-2], custom gamma in [0, 1e6], teams of up to 16 players",
            "A-fp: division by zero, sqrt / inverse-CDF domain errors, exp overflow and index errors are excluded by proof; 'finite' then rests on rounding not pushing a value bounded by 1e300 in the reals over the float range",
            "v, w, vt, wt enter _compute through the value clauses of their contracts (0 < v <= |x-t|+1, |vt| <= |x|+t, w, wt in [0,1]); their own bodies are executed here too (unit_gauss): no path raises and every denominator is kept >= 2^-1000 in magnitude by the branch guard (a merely non-zero real denominator can underflow to 0.0); with sigma = 0 allowed (tau > 0 without a lower bound) denominators are only proved non-zero over the reals",
            "phi_major / phi_major_inverse as Phi / PhiInv with the inverse-CDF argument proved inside (0,1); erfc / exp with non-positive argument in the stdlib wrappers cannot overflow",
            "shape-bounded: tie patterns all for n <= 4, three representative ones above; shapes in coverage.shapes",
        ],
        explanation=("While the real _compute, rate (tau inflation, sort, update, clamp) and predict_win/draw/rank run in R-mode on symbolic games, every division, square root, exp and inverse-CDF call emits a safety obligation named after its source line; each is discharged by sound interval evaluation of the operand over the property's domain, with a scale degree in beta so that the bound holds for every beta in six orders of magnitude (e.g. |theta/c| <= 227 for exp, s_i >= (1e-4 beta)^2 for the share, 1+exp >= 1, max(.,kappa) > 0 under the root); "
                     "no path of a well-formed call ends in an exception and every result is bounded by 1e300."),
        shapes=sorted({(str(u[1][1]) if u[0] != "unit_compute_anysize" else f"_compute: n={u[1][1]}, every team size 1..16") for u in units(tier) if u[0] != "unit_gauss"}),
    )
