"""C07 - no rating inflation: precision-weighted mu change sums to zero over a game.

T = sum_i (sum_j (mu'_ij - mu_ij)) / s_i   on the result terms of the real _compute.
PL / BT: T is the zero polynomial (exact normal form).  TM: T equals
sum over tied pairs of (vt(x,t) + vt(-x,t)) / c_iq exactly, and the vt contract
clause |vt(x,t) + vt(-x,t)| <= 2t bounds each pair by 2 kappa / c_iq^2."""
from __future__ import annotations

import time

import z3

from .. import driver, extract
from ..symrt import term, active
from .computil import (ComputeRun, compositions, field_rec, generic_lemma, ranks_of, scale_of, size_vectors)
from . import c01

PROP = "C07"


def unit_compute(model, sizes, gamma_mode, twins=False):
    """twins: every team is a deep copy of the first (same values, same id - the
    `template = model.rating(); copy.deepcopy(template)` idiom)"""
    recs = []
    n = len(sizes)
    fn = f"{model}._compute"
    tm = model.startswith("Thurstone")
    for blocks in compositions(n):
        ranks = ranks_of(blocks)
        shape = f"sizes={sizes},ties={blocks},gamma={gamma_mode}" + (",deep-copied twins" if twins else "")
        run = ComputeRun(model, sizes, ranks, gamma_mode, identical="twins" if twins else False)
        rp = c01._std_replay(model, sizes, ranks, gamma_mode, scale_of(model))
        rp["kind"] = "c07_zero"
        rp["twins"] = bool(twins)
        if not run.ok():
            recs.append(driver.rec(f"C07/{model}/_compute/returns@{shape}", "refuted", "explorer", 0, fn=fn, shape=shape, note=repr(run.out[1]), replay=rp))
            continue
        post = run.post()
        P = run.prover()
        with active(run.ctx):
            T = 0
            for i in range(n):
                s_i = 0
                d_i = 0
                for j in range(sizes[i]):
                    sg = run.prior[i][j][1]
                    s_i = s_i + sg * sg
                    d_i = d_i + (post[i][j][0] - run.prior[i][j][0])
                T = T + d_i / s_i
        if not tm:
            ok, be, note, t = P.prove_eq(term(T), z3.RealVal(0))
            recs.append(field_rec(f"C07/{model}/_compute/zero-sum@{shape}", ok, "field", note[:300], t, fn, shape, rp))
        else:
            det = {}
            run.spec(pair_scale=scale_of(model), details=det)
            tied = [(i, q) for (i, q), d in det["pairs"].items() if d["kind"] == "tie" and i < q and (q, i) in det["pairs"]]
            with active(run.ctx):
                E = 0
                for (i, q) in tied:
                    a, b = det["pairs"][(i, q)], det["pairs"][(q, i)]
                    E = E + (a["v"] + b["v"]) / a["c"]
            t0 = time.time()
            ok, be, note, t = P.prove_eq(term(T), term(E) if not isinstance(E, int) else z3.RealVal(0))
            inst_ok = True
            for (i, q) in tied:
                a, b = det["pairs"][(i, q)], det["pairs"][(q, i)]
                o1 = P.prove_eq(term(a["x"]) + term(b["x"]), z3.RealVal(0))[0]
                o2 = P.prove_eq(term(a["t"]), term(b["t"]))[0]
                o3 = P.prove_eq(term(a["c"]), term(b["c"]))[0]
                with active(run.ctx):
                    o4 = P.prove_eq(term(a["t"] * a["c"]), term(run.params["kappa"]))[0]
                inst_ok = inst_ok and o1 and o2 and o3 and o4
            recs.append(field_rec(f"C07/{model}/_compute/sum-is-tied-pair-terms@{shape}", ok, "field", note[:300], t, fn, shape, rp))
            recs.append(field_rec(f"C07/{model}/_compute/vt-contract-instances@{shape}", inst_ok, "field",
                                  f"{len(tied)} tied pairs: x_qi = -x_iq, t_qi = t_iq = kappa/c_iq", time.time() - t0 - t, fn, shape, rp))
        if blocks == (1,) * n and gamma_mode == "default" and not twins:
            with active(run.ctx):
                U = 0
                for i in range(n):
                    for j in range(sizes[i]):
                        U = U + (post[i][j][0] - run.prior[i][j][0])
            okc = P.prove_eq(term(U), z3.RealVal(0))[0]
            # canary: the *unweighted* sum of mu changes is not zero in general
            recs.append(driver.rec(f"C07/{model}/_compute/canary-unweighted-zero-sum@{shape}", "discharged" if okc else "refuted", "field", 0,
                                   kind="canary", fn=fn, shape=shape, replay=dict(rp, clause="canary")))
    return recs


def unit_lemmas():
    recs = []
    a, t, ic = z3.Reals("a t ic")

    def pair():
        absl = lambda x: z3.If(x >= 0, x, -x)
        return [ic > 0, t >= 0, absl(a) <= 2 * t], absl(ic * a) <= 2 * t * ic
    recs.append(generic_lemma("C07/lemma/tied-pair-bound", pair))
    for n in range(1, 29):
        if n > 8 and n not in (10, 15, 21, 28):
            continue

        def tri(n=n):
            ys = [z3.Real(f"y{k}") for k in range(n)]
            bs = [z3.Real(f"b{k}") for k in range(n)]
            absl = lambda x: z3.If(x >= 0, x, -x)
            return [absl(y) <= b for y, b in zip(ys, bs)], absl(z3.Sum(ys)) <= z3.Sum(bs)
        recs.append(generic_lemma(f"C07/lemma/sum-of-pair-bounds[{n} pairs]", tri))
    for n in range(2, 9):
        def eqv(n=n):
            ds = [z3.Real(f"d{k}") for k in range(n)]
            s = z3.Real("s")
            return [s > 0, z3.Sum([d / s for d in ds]) == 0], z3.Sum(ds) == 0
        recs.append(generic_lemma(f"C07/lemma/equal-variance-corollary[n={n}]", eqv))
    return recs


def unit_anysize(model, n, gamma_mode):
    """zero-sum of the precision-weighted mu change for teams of every size (team totals by linearity)"""
    from . import anysize
    return anysize.c07(model, n, gamma_mode)


def unit_lean():
    """machine-check A-sum and the inductions behind the fold / collect rules against Mathlib"""
    import os
    import subprocess
    from .. import VERIF
    t0 = time.time()
    path = os.path.join(VERIF, "lemmas", "Sums.lean")
    try:
        p = subprocess.run(["lake", "env", "lean", path], cwd="/opt/veriftools/mathlib4", capture_output=True, text=True, timeout=1500)
        ok = p.returncode == 0 and "error" not in (p.stdout + p.stderr).lower() and "sorry" not in (p.stdout + p.stderr).lower()
        note = (p.stdout + p.stderr)[-300:]
    except Exception as e:  # noqa: BLE001
        ok, note = False, repr(e)
    return [driver.rec("C07/lemmas/A-sum-and-fold-rule-checked-by-Lean-Mathlib", "discharged" if ok else "open", "lean4+mathlib", time.time() - t0,
                       kind="vacuity", fn="lemmas/Sums.lean", note=note)]


def unit_gauss_contracts():
    """premises of this property's proofs: the contract clauses of vt that the obligations above
    assume are verified on the real bodies (the C17 units, re-run here under this property's name, so
    that a change inside a callee that breaks a clause this property relies on is reported here too)"""
    from . import c17
    out = []
    for u in ('unit_vt',):
        for r in getattr(c17, u)():
            if r["kind"] == "canary" or not any(k in r["name"] for k in ('/vt/odd-up-to-2t',)):
                continue          # only the clauses this property's proofs rely on
            r = dict(r)
            r["name"] = r["name"].replace("C17/", "C07/helper/")
            out.append(r)
    return out


def units(tier):
    us = [("unit_lemmas", ())] + ([("unit_lean", ())] if tier == "thorough" else [])
    nmax = 4 if tier == "quick" else 8
    for m in extract.MODELS:
        for n in range(2, (4 if tier == "quick" else 7) + 1):
            us.append(("unit_anysize", (m, n, "default")))
            if n <= 4:
                us.append(("unit_anysize", (m, n, "custom")))
        for n in range(2, nmax + 1):
            svs = size_vectors(n, tier)
            for sizes in (svs if n <= 3 or tier == "thorough" else svs[:2]):
                us.append(("unit_compute", (m, sizes, "default")))
            us.append(("unit_compute", (m, tuple([1] * n) if n > 2 else (2, 1), "custom")))
        for sizes in ((1, 1), (2, 2), (1, 1, 1)):
            us.append(("unit_compute", (m, sizes, "default", True)))
    us.sort(key=lambda u: (-(sum(u[1][1]) * 2 ** len(u[1][1])) if u[0] not in ("unit_lemmas", "unit_anysize", "unit_lean") else (-(2 ** u[1][1]) if u[0] == "unit_anysize" else (-10 ** 9 if u[0] == "unit_lean" else 0))))
    us.insert(0, ("unit_gauss_contracts", ()))
    if tier == "quick":
        us += [("unit_compute", (m, (1,) * 6, "default")) for m in extract.MODELS]
    return us


def main(tier, seed):
    t0 = time.time()
    records, errors, walls = driver.run_units(__name__, units(tier))
    fns = {f"{extract.MODEL_FILES[m]}::{m}.{f}" for m in extract.MODELS for f in ("_compute", "_calculate_team_ratings", "_c", "_sum_q", "_a")}
    fns.add(f"{extract.WL_COMMON}::_ladder_pairs")
    return driver.finish(
        PROP, tier, seed, "other", records, errors, walls, t0,
        functions=fns,
        assumptions=[
            "A-fp: exact over the reals ('to floating-point accuracy' is not decided)",
            "A-exp used by the normaliser (exp(-a) exp(a) = 1); denominators non-zero (C08)",
            "Thurstone-Mosteller: contract clause |vt(x,t) + vt(-x,t)| <= 2t of vt (verified in C17) and V evaluated at the same canonical argument for winner and loser",
            "team variance = sum of member sigma^2 as passed to _compute (i.e. after tau inflation by rate)",
            __import__("pyvc.props.anysize", fromlist=["A_SUM"]).A_SUM,
            "shape-bounded: all tie patterns, n = 2..4 quick / 2..8 thorough; team-size vectors in coverage.shapes",
        ],
        explanation=("The precision-weighted total T of the mu changes is built from the result terms of the real _compute and reduced to its exact normal form: for Plackett-Luce and both Bradley-Terry models it is the zero polynomial for every listed shape and tie pattern; "
                     "for the Thurstone-Mosteller models it is exactly the sum over tied pairs of (vt(x,t)+vt(-x,t))/c_iq with x_qi = -x_iq and t = kappa/c_iq proved, so the vt contract bounds it by sum 2 kappa/c_iq^2 (generic lemmas by z3). The equal-variance corollary is a one-step lemma."),
        shapes=sorted({(str(u[1][1]) if u[0] != "unit_anysize" else f"n={u[1][1]}, every team size") for u in units(tier) if len(u[1]) > 1}),
    )
