"""C10 - predict_draw is a probability, symmetric, and largest for evenly matched teams.

Decided: non-negativity, <= 1 for n > 2 teams, independence of team and player
order (exact identities on several executions of the real predict_draw over
the same symbols).  The closed form itself is C12's obligation.
NOT decided (analytic, see DESIGN section 6): <= 1 for two teams, monotonicity
in the mu gap, 'equalising never lowers' - they follow from the closed form and
the assumed calculus lemma L-band, no contract within reach decides them."""
from __future__ import annotations

import time

import z3

from .. import driver, extract
from ..symrt import term, active
from .predutil import PredictWorld, eq_rec, ge_rec, shapes, std_replay

PROP = "C10"


def unit(model, sizes):
    recs = []
    n = len(sizes)
    shape = f"sizes={sizes}"
    fn = f"{model}.predict_draw"
    rp = std_replay("c10_draw", model, sizes)
    W = PredictWorld(model, sizes)
    base = W.run("predict_draw")
    if base[0] != "return":
        return [driver.rec(f"C10/{model}/predict_draw/returns@{shape}", "refuted", "explorer", 0, fn=fn, shape=shape, replay=rp, note=repr(base[1])[:200])]
    perms = []
    for k in range(n - 1):
        order = list(range(n))
        order[k], order[k + 1] = order[k + 1], order[k]
        perms.append((order, W.run("predict_draw", order=order)))
    pls = []
    for i in range(n):
        if sizes[i] > 1:
            po = list(range(sizes[i]))
            po[0], po[1] = po[1], po[0]
            pls.append((i, W.run("predict_draw", player_order={i: po})))
    sd = W.spec("draw")
    second, beta2 = W.run_second_instance("predict_draw")
    P = W.prover()
    mono = W.phi_monotone(P)
    d = term(base[1])
    zero, one = z3.RealVal(0), z3.RealVal(1)
    # the sign test inside abs(): S >= 0 from Phi-monotonicity instances
    t0 = time.time()
    P.resolve_ites([d], extra_hyps=mono)
    recs.append(ge_rec(P, f"C10/{model}/predict_draw/nonneg@{shape}", d, zero, fn, shape, rp, extra=mono))
    if n > 2:
        recs.append(ge_rec(P, f"C10/{model}/predict_draw/upper@{shape}", one, d, fn, shape, rp, extra=mono))
    wrong = P.prove_ge(d, z3.RealVal("9/10"), extra_hyps=mono)[0] == "discharged"
    recs.append(driver.rec(f"C10/{model}/predict_draw/canary-at-least-0.9@{shape}", "discharged" if wrong else "refuted", "field+z3", 0, kind="canary",
                           fn=fn, shape=shape, replay=dict(rp, clause="canary")))
    # a second instance of the class with another beta, called after the first: a probability as well
    if second[0] == "return":
        d2 = term(second[1])
        P.resolve_ites([d2], extra_hyps=W.phi_monotone(P))
        rp2 = dict(rp, kind="c12_second", op="predict_draw")
        recs.append(ge_rec(P, f"C10/{model}/predict_draw/second-instance/nonneg@{shape}", d2, zero, fn, shape, rp2, extra=W.phi_monotone(P)))
        # its value is that of a fresh model with the same beta (no state shared between instances)
        recs.append(eq_rec(P, f"C10/{model}/predict_draw/second-instance/equals-fresh-instance@{shape}", d2, term(W.spec("draw", beta=beta2)), fn, shape, rp2))
    else:
        recs.append(driver.rec(f"C10/{model}/predict_draw/second-instance/returns@{shape}", "refuted", "explorer", 0, fn=fn, shape=shape, replay=rp))
    for (order, out) in perms:
        if out[0] == "return":
            P.resolve_ites([term(out[1])], extra_hyps=mono)
            recs.append(eq_rec(P, f"C10/{model}/predict_draw/team-order-invariant[{order}]@{shape}", term(out[1]), d, fn, shape, rp))
        else:
            recs.append(driver.rec(f"C10/{model}/predict_draw/team-order-invariant[{order}]@{shape}", "refuted", "explorer", 0, fn=fn, shape=shape, replay=rp))
    for (i, out) in pls:
        if out[0] == "return":
            P.resolve_ites([term(out[1])], extra_hyps=mono)
            recs.append(eq_rec(P, f"C10/{model}/predict_draw/player-order-invariant[team{i}]@{shape}", term(out[1]), d, fn, shape, rp))
        else:
            recs.append(driver.rec(f"C10/{model}/predict_draw/player-order-invariant[team{i}]@{shape}", "refuted", "explorer", 0, fn=fn, shape=shape, replay=rp))
    return recs


def units(tier):
    return [("unit", (m, s)) for m in extract.MODELS for s in shapes(tier, nmax=3 if tier == "quick" else 5)]


def main(tier, seed):
    t0 = time.time()
    records, errors, walls = driver.run_units(__name__, units(tier))
    fns = {f"{extract.MODEL_FILES[m]}::{m}.{f}" for m in extract.MODELS for f in ("predict_draw", "_calculate_team_ratings", "_calculate_rankings", "_check_teams")}
    return driver.finish(
        PROP, tier, seed, "other", records, errors, walls, t0,
        functions=fns,
        assumptions=[
            "A-Phi (0 < Phi < 1, reflection, monotone instances), PhiInv increasing with PhiInv(1/2) = 0; phi_major / phi_major_inverse enter as Phi / PhiInv (C17)",
            "NOT DECIDED: predict_draw <= 1 for two teams, non-increase in the mu gap (two teams), 'equalising never lowers' (n teams): these are calculus facts about the band probability (assumed lemma L-band + tabulated constants), no contract within reach decides them; the code-facing half - the closed form - is decided",
            "A-fp: reals; order independence 'beyond rounding' is exact equality over the reals",
            "shape-bounded (coverage.shapes)",
        ],
        explanation=("Several executions of the real predict_draw on the same symbolic teams (base, adjacent team transpositions, swapped players): the value is the closed form |S|/D with S >= 0 proved from Phi-monotonicity instances (so abs is the identity), non-negative, <= 1 for more than two teams, and identical - as exact normal forms - under reordering of teams and of players. "
                     "The three analytic clauses are listed as not decided."),
        shapes=[str(s) for s in shapes(tier, nmax=3 if tier == "quick" else 5)],
    )
