"""C10 - predict_draw is a probability, symmetric, and largest for evenly matched teams.

Decided: non-negativity, <= 1 for n > 2 teams, independence of team and player
order (exact identities on several executions of the real predict_draw over
the same symbols), and that the value is the average over ordered pairs of the
band probability band(m, s_ab, d_ab) = Phi((m-d)/s) - Phi((-m-d)/s) with m and
s_ab independent of the mus.  Monotonicity in the mu gap (two teams) and
'equalising never lowers' (n teams) then follow from L-band (the band
probability is even in d and non-increasing in |d|), which is machine-checked
against Mathlib in lemmas/Phi2.lean (band_even, band_antitone_on_nonneg,
band_le_band_zero); the last step is a generic z3 lemma per pair count.
'<= 1 for two teams' follows from the same band form and the lemma two_team_draw_le_one
(lemmas/Phi3.lean: sqrt(N/2) PhiInv(1/2 + 1/(2N)) <= PhiInv(3/4) for every N >= 2, by concavity
of Phi on [0, oo)), so every clause of the property is decided relative to Lean-checked analysis."""
from __future__ import annotations

import time

import z3

from .. import driver, extract
from ..symrt import term, active
from .predutil import PredictWorld, eq_rec, ge_rec, shapes, std_replay, generic_guard

PROP = "C10"


@generic_guard("C10")
def unit(model, sizes, generic=False):
    """generic: sizes = (1,)*n and every team has a symbolic number of members (the listed member is
    the arbitrary one, the aggregates are symbols): the same obligations for teams of every size"""
    recs = []
    n = len(sizes)
    shape = f"sizes={sizes}" if not generic else f"n={len(sizes)},any-team-size"
    fn = f"{model}.predict_draw"
    rp = std_replay("c10_draw", model, sizes)
    W = PredictWorld(model, sizes, generic=generic)
    base = W.run("predict_draw")
    if base[0] != "return":
        return [driver.rec(f"C10/{model}/predict_draw/returns@{shape}", "refuted", "explorer", 0, fn=fn, shape=shape, replay=rp, note=repr(base[1])[:200])]
    perms = []
    for k in range(n - 1):
        order = list(range(n))
        order[k], order[k + 1] = order[k + 1], order[k]
        perms.append((order, W.run("predict_draw", order=order)))
    pls = []
    for i in range(n):
        if sizes[i] > 1:
            po = list(range(sizes[i]))
            po[0], po[1] = po[1], po[0]
            pls.append((i, W.run("predict_draw", player_order={i: po})))
    sd = W.spec("draw")
    second, beta2 = W.run_second_instance("predict_draw")
    details = {}
    W.spec("draw", details=details)
    P = W.prover()
    mono = W.phi_monotone(P)
    d = term(base[1])
    zero, one = z3.RealVal(0), z3.RealVal(1)
    # the sign test inside abs(): S >= 0 from Phi-monotonicity instances
    t0 = time.time()
    P.resolve_ites([d], extra_hyps=mono)
    recs.append(ge_rec(P, f"C10/{model}/predict_draw/nonneg@{shape}", d, zero, fn, shape, rp, extra=mono))
    if n > 2:
        recs.append(ge_rec(P, f"C10/{model}/predict_draw/upper@{shape}", one, d, fn, shape, rp, extra=mono))
    # the value is the ordered-pair average of band probabilities whose margin m and scales s_ab do not
    # mention any mu, and whose gap d_ab is the difference of the two teams' total mu (premise of L-band)
    recs.append(eq_rec(P, f"C10/{model}/predict_draw/is-average-of-band-probabilities@{shape}", d, term(sd), fn, shape, dict(rp, kind="c12_closed", op="predict_draw")))
    if details:
        from ..game import free_symbols
        mus = {f"mu_{i}_{j}" for i in range(n) for j in range(sizes[i])} | {f"mu_{i}_k" for i in range(n)} | {f"theta_{i}" for i in range(n)}
        clean = not (free_symbols([term(details["m"])] + [term(x) for x in details["s"].values()]) & mus)
        recs.append(driver.rec(f"C10/{model}/predict_draw/margin-and-scales-do-not-depend-on-mu@{shape}", "discharged" if clean else "refuted", "syntactic", 0,
                               fn=fn, shape=shape, mode="R", replay=None if clean else rp))
    wrong = P.prove_ge(d, z3.RealVal("9/10"), extra_hyps=mono)[0] == "discharged"
    recs.append(driver.rec(f"C10/{model}/predict_draw/canary-at-least-0.9@{shape}", "discharged" if wrong else "refuted", "field+z3", 0, kind="canary",
                           fn=fn, shape=shape, replay=dict(rp, clause="canary")))
    # a second instance of the class with another beta, called after the first: a probability as well
    if second[0] == "return":
        d2 = term(second[1])
        P.resolve_ites([d2], extra_hyps=W.phi_monotone(P))
        rp2 = dict(rp, kind="c12_second", op="predict_draw")
        recs.append(ge_rec(P, f"C10/{model}/predict_draw/second-instance/nonneg@{shape}", d2, zero, fn, shape, rp2, extra=W.phi_monotone(P)))
        # its value is that of a fresh model with the same beta (no state shared between instances)
        recs.append(eq_rec(P, f"C10/{model}/predict_draw/second-instance/equals-fresh-instance@{shape}", d2, term(W.spec("draw", beta=beta2)), fn, shape, rp2))
    else:
        recs.append(driver.rec(f"C10/{model}/predict_draw/second-instance/returns@{shape}", "refuted", "explorer", 0, fn=fn, shape=shape, replay=rp))
    for (order, out) in perms:
        if out[0] == "return":
            P.resolve_ites([term(out[1])], extra_hyps=mono)
            recs.append(eq_rec(P, f"C10/{model}/predict_draw/team-order-invariant[{order}]@{shape}", term(out[1]), d, fn, shape, rp))
        else:
            recs.append(driver.rec(f"C10/{model}/predict_draw/team-order-invariant[{order}]@{shape}", "refuted", "explorer", 0, fn=fn, shape=shape, replay=rp))
    for (i, out) in pls:
        if out[0] == "return":
            P.resolve_ites([term(out[1])], extra_hyps=mono)
            recs.append(eq_rec(P, f"C10/{model}/predict_draw/player-order-invariant[team{i}]@{shape}", term(out[1]), d, fn, shape, rp))
        else:
            recs.append(driver.rec(f"C10/{model}/predict_draw/player-order-invariant[team{i}]@{shape}", "refuted", "explorer", 0, fn=fn, shape=shape, replay=rp))
    from .predutil import history_records
    if n <= 3 and not generic:
        recs += history_records("C10", W, model, sizes, ("predict_draw",))
    return recs


def unit_lemmas():
    """the last step from L-band (Lean: band_even, band_antitone_on_nonneg, band_le_band_zero) to the two
    clauses, with the band probability of each unordered pair as an uninterpreted function of the gap"""
    from .computil import generic_lemma
    recs = []
    R = z3.RealSort()
    absf = lambda x: z3.If(x >= 0, x, -x)

    def two_team():
        B = z3.Function("Band", R, R)          # d |-> band(m, s, d), m >= 0 and s > 0 fixed
        d1, d2 = z3.Reals("d1 d2")
        inst = [B(-d1) == B(d1), B(-d2) == B(d2),                                  # band_even
                z3.Implies(z3.And(absf(d1) >= 0, absf(d1) <= absf(d2)), B(absf(d2)) <= B(absf(d1))),   # band_antitone_on_nonneg
                B(absf(d1)) == z3.If(d1 >= 0, B(d1), B(-d1)), B(absf(d2)) == z3.If(d2 >= 0, B(d2), B(-d2))]
        # two teams: value(d) = band(d) + band(-d)
        return inst + [absf(d1) <= absf(d2)], B(d2) + B(-d2) <= B(d1) + B(-d1)
    recs.append(generic_lemma("C10/lemma/two-teams-gap-monotone-from-L-band", two_team, fn="lemma"))
    if _has_two_team_lemma():
        def two_team_upper():
            # Lean: two_team_draw_le_one  2 * band(m, s, d) <= 1  for m = sqrt(N) beta PhiInv((1 + 1/N)/2), s = sqrt(2 beta^2 + va + vb),
            # N >= 2, beta > 0, va, vb >= 0;  band_even.  The value of a two-team game is band(d) + band(-d).
            B = z3.Function("Band", R, R)
            d = z3.Real("d")
            return [B(-d) == B(d), 2 * B(d) <= 1], B(d) + B(-d) <= 1
        recs.append(generic_lemma("C10/lemma/two-teams-at-most-one-from-the-Lean-lemma", two_team_upper, fn="lemma"))
    for npairs in (1, 3, 6, 10, 15, 21, 28):
        def equalise(npairs=npairs):
            Bs = [z3.Function(f"Band{k}", R, R) for k in range(npairs)]     # one per unordered pair (its own s_ab)
            ds = [z3.Real(f"d{k}") for k in range(npairs)]
            inst = []
            for B, d in zip(Bs, ds):
                inst += [B(d) <= B(0), B(-d) <= B(0)]                              # band_le_band_zero
            D = z3.Real("D")
            return inst + [D > 0], z3.Sum([B(d) + B(-d) for B, d in zip(Bs, ds)]) / D <= z3.Sum([B(0) + B(0) for B in Bs]) / D
        recs.append(generic_lemma(f"C10/lemma/equalising-never-lowers-from-L-band[{npairs} pairs]", equalise, fn="lemma"))
    return recs


def _has_two_team_lemma():
    import os
    from .. import VERIF
    p = os.path.join(VERIF, "lemmas", "Phi3.lean")
    return os.path.exists(p) and "theorem two_team_draw_le_one" in open(p, encoding="utf-8").read()


def unit_lean():
    from .util import lean_check
    recs = [lean_check("C10/lemmas/L-band-checked-by-Lean-Mathlib", "Phi2.lean")]
    if _has_two_team_lemma():
        recs.append(lean_check("C10/lemmas/two-team-draw-at-most-one-checked-by-Lean-Mathlib", "Phi3.lean"))
    return recs


def units(tier):
    us = [("unit_lemmas", ())] + ([("unit_lean", ())] if tier == "thorough" else []) + \
        [("unit", (m, s)) for m in extract.MODELS for s in shapes(tier, nmax=3 if tier == "quick" else 5)] + \
        [("unit", (m, (1,) * n, True)) for m in extract.MODELS for n in range(2, (3 if tier == "quick" else 5) + 1)]
    if tier == "quick":
        us += [("unit", (m, (1,) * 6)) for m in extract.MODELS]
    return us


def main(tier, seed):
    t0 = time.time()
    records, errors, walls = driver.run_units(__name__, units(tier))
    fns = {f"{extract.MODEL_FILES[m]}::{m}.{f}" for m in extract.MODELS for f in ("predict_draw", "_calculate_team_ratings", "_calculate_rankings", "_check_teams")}
    return driver.finish(
        PROP, tier, seed, "other", records, errors, walls, t0,
        functions=fns,
        assumptions=[
            __import__("pyvc.props.anysize", fromlist=["A_SUM"]).A_SUM,
            "A-Phi (0 < Phi < 1, reflection, monotone instances), PhiInv increasing with PhiInv(1/2) = 0; phi_major / phi_major_inverse enter as Phi / PhiInv (C17) [A-Phi is machine-checked against Mathlib in lemmas/Phi.lean for Phi := the standard Gaussian CDF (thorough tier of C17); that libm's erfc/2 is this Phi stays assumed]",
            "L-band (the band probability Phi((m-d)/s) - Phi((-m-d)/s), m >= 0, s > 0, is even in d and non-increasing in |d|): machine-checked against Mathlib in lemmas/Phi2.lean (thorough tier); 'never increases as the gap widens' (two teams) and 'equalising never lowers' (n teams) are decided as: the code's value is the ordered-pair average of band probabilities with mu-free margin and scales (exact normal-form identity on the real predict_draw) + L-band + a generic z3 step",
            "predict_draw <= 1 for two teams: the band form (m = sqrt(N) beta PhiInv((1 + 1/N)/2), s = sqrt(2 beta^2 + var_a + var_b), value = band(d) + band(-d)) is an exact identity on the real predict_draw (also for teams of every size, N = L_0 + L_1 >= 2); 2 band <= 1 is the lemma two_team_draw_le_one, machine-checked against Mathlib in lemmas/Phi3.lean for the mathematical Phi and its inverse (that NormalDist.inv_cdf computes this inverse is assumed, as A-erf is)",
            "A-fp: reals; order independence 'beyond rounding' is exact equality over the reals",
            "shape-bounded (coverage.shapes)",
        ],
        explanation=("Several executions of the real predict_draw on the same symbolic teams (base, adjacent team transpositions, swapped players): the value is the closed form |S|/D with S >= 0 proved from Phi-monotonicity instances (so abs is the identity), non-negative, <= 1 for more than two teams, and identical - as exact normal forms - under reordering of teams and of players. "
                     "The value is also proved to be the ordered-pair average of band probabilities whose margin and scales mention no mu, from which the two monotonicity clauses follow by the Lean-checked lemma L-band and '<= 1 for two teams' by the Lean-checked lemma two_team_draw_le_one."),
        shapes=[str(s) for s in shapes(tier, nmax=3 if tier == "quick" else 5)] + [f"n=2..{3 if tier == 'quick' else 5} teams of every size (symbolic member counts)"],
    )
