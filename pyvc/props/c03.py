"""C03 - outcomes are ordinal: only the order and equality of ranks/scores matter.

* _calculate_rankings: dense tie-aware ranks are equal iff the rank values are
  equal and smaller iff smaller (symbolic values *and kinds*), per length.
* relational obligations on the real rate (real _compute, U-mode): two rank
  vectors inducing the same weak order give identical result terms; scores are
  ranks negated; omitted ranks are [0..n-1].
* _unary_minus."""
from __future__ import annotations

import time

import z3

from .. import driver, extract, game
from ..symrt import KBOOL, KFLOAT, KINT, Ctx, SymBool, SymNum, call, explore, tobool
from .util import enc_model, settle
from .c18 import _merge_canaries

PROP = "C03"


def unit_rankings(model, n):
    S = extract.Scratch(model)
    recs = []
    shape = f"n={n}"
    fn = f"{model}._calculate_rankings"
    for given in (True, False):
        ctx = Ctx("U")

        def run(ctx, given=given):
            m, _ = game.mk_model(ctx, S)
            gm = [[object()] for _ in range(n)]
            ranks = None
            if given:
                ranks = [ctx.number(f"r{i}") for i in range(n)]
                # precondition from the call site: rate passes sorted(ranks)
                for i in range(n - 1):
                    ctx.assume(ranks[i].t <= ranks[i + 1].t)
                out = call(m._calculate_rankings, gm, list(ranks))
            else:
                out = call(m._calculate_rankings, gm)

            def mk(md, clause=None):
                return {"kind": "c03_rankings", "model": model, "n": n, "clause": clause,
                        "ranks": [enc_model(md, f"r{i}") for i in range(n)] if given else None}
            meta = {"replay": mk, "fn": fn, "shape": shape}
            nm = f"C03/{model}/_calculate_rankings/" + ("dense-iff" if given else "absent-is-position")
            if out[0] != "return" or len(out[1]) != n:
                ctx.oblige(f"{nm}@{shape}", False, meta=meta)
                return
            o = [SymNum.lift(x).t for x in out[1]]
            if not given:
                ctx.oblige(f"{nm}@{shape}", z3.And([o[i] == i for i in range(n)]), meta=meta)
                return
            parts = []
            for i in range(n):
                for j in range(n):
                    if i != j:
                        parts.append((o[i] == o[j]) == (ranks[i].t == ranks[j].t))
                        parts.append((o[i] < o[j]) == (ranks[i].t < ranks[j].t))
            ctx.oblige(f"{nm}@{shape}", z3.simplify(z3.And(parts)), meta=meta)
            if n == 3:
                ctx.oblige(f"C03/{model}/_calculate_rankings/canary-positions", z3.And([o[i] == i for i in range(n)]), kind="canary",
                           meta={"replay": lambda md: mk(md, "canary"), "fn": fn})
        explore(ctx, run)
        recs += _merge_canaries(settle(ctx.all_obls, mode="U"))
    return recs


def unit_rankings_unbounded(model):
    """_calculate_rankings for ANY number of teams: both loops are cut by sidecar invariants
    (pyvc/loops.py) and the real loop bodies are executed once on an arbitrary iteration"""
    from ..loops import (CutLoops, LoopSpec, LOOP_REBINDS, SymList, SymSeq, make_loop_factory)
    from .. import tactics
    q = f"{model}._calculate_rankings"
    box = {}

    def inv1(k, st, lc):
        ts, r = st["team_scores"], box["r"]
        j = z3.Int("j!1")
        if not isinstance(ts, SymList):
            return z3.BoolVal(False)
        return z3.And(ts.length == k, z3.ForAll([j], z3.Implies(z3.And(j >= 0, j < k),
                      z3.And(z3.Select(ts.arr, j) == z3.Select(r.arr, j), z3.Select(ts.kinds, j) == z3.Select(r.kinds, j)))))

    def inv2(k, st, lc):
        s, d, ts = st["s"], st["rank_output"], lc.iterable.seq
        sv = SymNum.lift(s).t
        j = z3.Int("j!2")
        a = lambda x: z3.Select(d.arr, x)
        ai = lambda x: z3.ToInt(a(x))
        # rank_output[j] is the first index of the block of equal values that contains j
        body = z3.And(a(j) >= 0, a(j) <= z3.ToReal(j), z3.IsInt(a(j)), z3.Select(ts.arr, ai(j)) == z3.Select(ts.arr, j),
                      z3.Or(a(j) == 0, z3.Select(ts.arr, ai(j) - 1) < z3.Select(ts.arr, ai(j))))
        # team_scores is not written by this loop: that it is sorted is carried along, so that the
        # step VC has it at hand instead of re-deriving it through two quantifier instantiations
        i2, j2 = z3.Ints("i!s j!s")
        sorted_ts = z3.ForAll([i2, j2], z3.Implies(z3.And(0 <= i2, i2 <= j2, j2 < ts.length),
                                                   z3.Select(ts.arr, i2) <= z3.Select(ts.arr, j2)))
        return z3.And(d.size == k, z3.Implies(k > 0, sv == a(k - 1)), z3.Implies(k == 0, sv == 0), sorted_ts,
                      z3.ForAll([j], z3.Implies(z3.And(j >= 0, j < k), body)))
    specs = {(q, 1): LoopSpec(["team_scores"], inv1), (q, 2): LoopSpec(["s", "rank_output"], inv2)}
    from ..loops import sidecar_mismatch
    why = sidecar_mismatch(extract.find_function(extract.parse(extract.MODEL_FILES[model]), q), specs, q)
    if why:
        # the loop contracts are keyed by loop ordinal and state-variable names: after a restructuring
        # they say nothing about the code - not attempted (the shape-bounded rate-level obligations decide)
        return [driver.rec(f"C03/{model}/_calculate_rankings/unbounded-proof", "skipped", "-", 0, kind="note", fn=q,
                           note=f"{why}; decided for the listed shapes only")]
    tr = CutLoops(specs)
    S = extract.Scratch(model, transforms={extract.MODEL_FILES[model]: [tr]})
    if sorted(tr.cut) != sorted(specs):
        return [driver.rec(f"C03/{model}/_calculate_rankings/loops-found", "open", "ast", 0, fn=q, note=f"cut {tr.cut}")]
    S.ns.update(LOOP_REBINDS)
    S.ns["__pyvc_loop__"] = make_loop_factory(specs)
    ctx = Ctx("U", feas_timeout_ms=2000)
    done = {"return": 0}

    def run(ctx):
        n = z3.Int("n")
        ctx.assume(n >= 1)
        r = SymList("ranks", length=n)
        box["r"] = r
        i, j = z3.Ints("i j")
        ctx.assume(z3.ForAll([i], z3.And(z3.Select(r.kinds, i) >= 0, z3.Select(r.kinds, i) <= 2)))
        # precondition from the call site: rate passes sorted(ranks)
        ctx.assume(z3.ForAll([i, j], z3.Implies(z3.And(0 <= i, i <= j, j < n), z3.Select(r.arr, i) <= z3.Select(r.arr, j))))
        m = S.cls()
        out = call(m._calculate_rankings, SymSeq(n), r)
        meta = {"fn": q, "unbounded": True, "replay": {"kind": "c03_rankings", "model": model, "n": 4, "ranks": [{"v": [k, 1], "k": "int"} for k in (1, 1, 2, 3)]}}
        if out[0] != "return" or not isinstance(out[1], SymList):
            ctx.oblige(f"C03/{model}/_calculate_rankings/unbounded/returns-a-list", False, meta=dict(meta, note=repr(out[1])[:100]))
            return
        done["return"] += 1
        o = out[1]
        sel = z3.Select
        g = z3.And(o.length == n, z3.ForAll([i, j], z3.Implies(z3.And(0 <= i, i < n, 0 <= j, j < n),
                   z3.And((sel(o.arr, i) == sel(o.arr, j)) == (sel(r.arr, i) == sel(r.arr, j)),
                          (sel(o.arr, i) < sel(o.arr, j)) == (sel(r.arr, i) < sel(r.arr, j))))))
        ctx.oblige(f"C03/{model}/_calculate_rankings/unbounded/dense-iff", g, meta=meta)
        wrong = z3.ForAll([i], z3.Implies(z3.And(0 <= i, i < n), sel(o.arr, i) == z3.ToReal(i)))
        ctx.oblige(f"C03/{model}/_calculate_rankings/unbounded/canary-positions", wrong, kind="canary", meta={"fn": q})
    explore(ctx, run)
    recs = []
    for r_ in settle(ctx.all_obls, mode="U", unbounded=True, timeout_ms=30000, canary_timeout_ms=2000):
        if r_["kind"] == "canary" and r_["verdict"] == "open":
            r_ = dict(r_, verdict="refuted", note="not provable")
        if not r_["name"].startswith("C03/"):
            r_ = dict(r_, name=f"C03/{model}/_calculate_rankings/unbounded/" + r_["name"].split("/", 1)[-1] + "[" + r_["name"].split("/")[0].split("#")[-1] + "]")
        recs.append(r_)
    if not done["return"]:
        recs.append(driver.rec(f"C03/{model}/_calculate_rankings/unbounded/exit-path-reached", "open", "explorer", 0, kind="vacuity"))
    return _merge_canaries(recs)


def unit_order(model, sizes, form, limit, generic=False, gamma_mode="default"):
    """form: relabel | scores | default;  generic: sizes = (1,)*n, teams of symbolic size (pyvc/teams.py);
    gamma_mode = custom: the model carries a user gamma callback, an arbitrary function of all the arguments
    it is handed - the rank it is told included (so the rank handed over may depend on the order only)"""
    try:
        return _unit_order(model, sizes, form, limit, generic, gamma_mode)
    except Exception as e:  # noqa: BLE001
        from ..symrt import UncutLoop
        if generic and isinstance(e, UncutLoop):
            return [driver.rec(f"C03/{model}/rate/any-team-size/unbounded-proof@n={len(sizes)},{form}", "note", "explorer", 0, kind="note", fn=f"{model}.rate",
                               shape=f"n={len(sizes)},any-team-size", note=f"not attempted: {e}")]
        raise


def _unit_order(model, sizes, form, limit, generic, gamma_mode="default"):
    if generic:
        from .. import teams as T
        S = T.scratch(model)
        mk_teams = lambda ctx, S_, sizes_: [T.SymTeam(ctx, S_.rating_cls, i) for i in range(len(sizes_))]
    else:
        S = extract.Scratch(model)
        mk_teams = game.mk_teams
    game.stub_gauss_uninterpreted(S)
    n = len(sizes)
    shape = (f"sizes={sizes}" if not generic else f"n={n},any-team-size") + f",limit_sigma={limit}" + (",gamma=custom" if gamma_mode == "custom" else "")
    fn = f"{model}.rate"
    ctx = Ctx("U")
    gkw = {}
    if gamma_mode == "custom":
        G = game.uf("U_gamma", 5)

        def gamma(c, k, mu, sigma_squared, team, rank, /, *, _G=G):
            from ..symrt import term, KFLOAT
            return SymNum(_G(term(c), term(k), term(mu), term(sigma_squared), term(rank)), KFLOAT)
        gkw["gamma"] = gamma

    def run(ctx):
        mA, _ = game.mk_model(ctx, S, limit_sigma=limit, **gkw)
        mB, _ = game.mk_model(ctx, S, limit_sigma=limit, **gkw)
        gA = mk_teams(ctx, S, sizes)
        gB = mk_teams(ctx, S, sizes)
        if form == "relabel":
            r = [ctx.number(f"r{i}") for i in range(n)]
            q = [ctx.number(f"q{i}") for i in range(n)]
            for i in range(n):
                for j in range(i + 1, n):
                    ctx.assume((r[i].t < r[j].t) == (q[i].t < q[j].t))
                    ctx.assume((r[i].t == r[j].t) == (q[i].t == q[j].t))
            ka, kb = {"ranks": list(r)}, {"ranks": list(q)}
            enc = lambda md: ({"ranks": [enc_model(md, f"r{i}") for i in range(n)]}, {"ranks": [enc_model(md, f"q{i}") for i in range(n)]})
        elif form == "scores":
            s = [ctx.number(f"s{i}") for i in range(n)]
            ka, kb = {"scores": list(s)}, {"ranks": [-x for x in s]}

            def enc(md):
                sc = [enc_model(md, f"s{i}") for i in range(n)]
                neg = [{"v": [-e["v"][0], e["v"][1]], "k": ("int" if e["k"] == "bool" else e["k"])} for e in sc]
                return {"scores": sc}, {"ranks": neg}
        else:
            ka, kb = {}, {"ranks": list(range(n))}
            enc = lambda md: ({}, {"ranks": [{"v": [i, 1], "k": "int"} for i in range(n)]})
        ra = call(mA.rate, gA, **ka)
        rb = call(mB.rate, gB, **kb)
        if generic:
            from .. import teams as _T
            _T.guard(ra, rb)

        def mk(md):
            a, b = enc(md)
            return {"kind": "c03_order", "model": model, "form": form, "limit": limit, "a": a, "b": b, "gamma": gamma_mode,
                    "game": game.enc_game(md, sizes), "params": game.enc_params(md)}
        nm = {"relabel": "order-only", "scores": "scores-negation", "default": "default-ranks"}[form]
        ok = game.compare_outcomes(ra, rb) if ra[0] == "return" else z3.BoolVal(False)
        ctx.oblige(f"C03/{model}/rate/{nm}@{shape}", ok, meta={"replay": mk, "fn": fn, "shape": shape})
        if form == "relabel" and sizes == (1, 1) and not limit and not generic:
            # canary: "the rank values do not matter at all"
            mC, _ = game.mk_model(ctx, S, limit_sigma=limit)
            rc = call(mC.rate, mk_teams(ctx, S, sizes))
            ctx.oblige(f"C03/{model}/rate/canary-ranks-irrelevant", game.compare_outcomes(ra, rc), kind="canary",
                       meta={"replay": lambda md: dict(mk(md), b={}), "fn": fn})
    explore(ctx, run)
    return _merge_canaries(settle(ctx.all_obls, mode="U"))


def unit_neg():
    S = extract.Scratch("PlackettLuce")
    f = S.common["_unary_minus"]
    ctx = Ctx("U")

    def run(ctx):
        x = ctx.number("x")
        out = call(f, x)
        mk = lambda md, clause=None: {"kind": "c03_neg", "x": enc_model(md, "x"), "clause": clause}
        ok = out[0] == "return" and isinstance(out[1], SymNum)
        if not ok:
            ctx.oblige("C03/_unary_minus/negates", False, meta={"replay": mk, "fn": "_unary_minus"})
            return
        k = x.kind
        want_kind = z3.If(k == KBOOL, z3.IntVal(KINT), k)
        got_kind = out[1].kind if not isinstance(out[1].kind, int) else z3.IntVal(out[1].kind)
        ctx.oblige("C03/_unary_minus/negates", z3.And(out[1].t == -x.t, got_kind == want_kind),
                   meta={"replay": mk, "fn": "_unary_minus", "unbounded": True})
        ctx.oblige("C03/_unary_minus/canary-abs", out[1].t == z3.If(x.t >= 0, x.t, -x.t), kind="canary",
                   meta={"replay": lambda md: mk(md, "canary"), "fn": "_unary_minus"})
    explore(ctx, run)
    return _merge_canaries(settle(ctx.all_obls, mode="U", unbounded=True))


def units(tier):
    us = [("unit_neg", ())]
    nmax = 5 if tier == "quick" else 7
    for m in extract.MODELS:
        us.append(("unit_rankings_unbounded", (m,)))
        for n in range(2, nmax + 1):
            us.append(("unit_rankings", (m, n)))
        shapes = [(1, 1), (2, 1), (1, 1, 1), (5, 2)] if tier == "quick" else [(1, 1), (2, 1), (1, 1, 1), (5, 2), (1, 2, 1), (1, 1, 1, 1), (1, 1, 1, 1, 1)]
        for s in shapes:
            for form in ("relabel", "scores", "default"):
                for limit in ((False, True) if len(s) <= 2 else (False,)):
                    us.append(("unit_order", (m, s, form, limit)))
        # teams of every size (symbolic member counts; float sums over a team are opaque in U-mode)
        for n in ((2, 3) if tier == "quick" else (2, 3, 4)):
            for form in ("relabel", "scores", "default"):
                us.append(("unit_order", (m, (1,) * n, form, False, True)))
        us.append(("unit_order", (m, (1, 1), "relabel", True, True)))
        for form in ("relabel", "scores", "default"):
            us.append(("unit_order", (m, (2, 1), form, False, False, "custom")))
        us.append(("unit_order", (m, (1, 1, 1), "relabel", False, False, "custom")))
    if tier == "quick":
        us += [("unit_order", (m, (1,) * 5, "relabel", False)) for m in extract.MODELS] + [("unit_order", (m, (1,) * 6, "default", False)) for m in extract.MODELS]
    return us


def main(tier, seed):
    t0 = time.time()
    records, errors, walls = driver.run_units(__name__, units(tier))
    fns = {f"{extract.MODEL_FILES[m]}::{m}.{f}" for m in extract.MODELS for f in ("_calculate_rankings", "rate", "_compute", "_calculate_team_ratings")}
    fns |= {f"{extract.WL_COMMON}::_unwind", f"{extract.COMMON}::_unary_minus"}
    return driver.finish(
        PROP, tier, seed, "other", records, errors, walls, t0,
        functions=fns,
        assumptions=[
            "rank/score values have symbolic value and symbolic kind (bool/int/float; int-kind values integral); NaN excluded (an order is needed)",
            "precondition of _calculate_rankings taken from its call site: rate passes sorted(ranks) (non-decreasing)",
            "U-mode: float operations are deterministic functions of operand values; negation and comparison of floats are exact",
            "shape-bounded: _calculate_rankings for n = 2..5 (thorough 2..7); relational rate obligations for the shapes in coverage.shapes",
        ],
        explanation=("_calculate_rankings of each model is executed from its real AST on non-decreasing rank vectors of symbolic value and kind; on every path the returned dense ranks are proved equal iff the values are equal and smaller iff smaller (absent ranks: the positions). "
                     "The real rate() (real _unwind/_compute) is executed twice on the same symbolic game with two symbolic rank vectors constrained to induce the same weak order (any kinds), with scores vs negated ranks, and with omitted ranks vs [0..n-1]; the result terms must be identical (uninterpreted-IEEE)."),
        shapes=[str(u[1]) for u in units(tier) if u[0] == "unit_order"][:20],
    )
