"""C03 - outcomes are ordinal: only the order and equality of ranks/scores matter.

* _calculate_rankings: dense tie-aware ranks are equal iff the rank values are
  equal and smaller iff smaller (symbolic values *and kinds*), per length.
* relational obligations on the real rate (real _compute, U-mode): two rank
  vectors inducing the same weak order give identical result terms; scores are
  ranks negated; omitted ranks are [0..n-1].
* _unary_minus."""
from __future__ import annotations

import time

import z3

from .. import driver, extract, game
from ..symrt import KBOOL, KFLOAT, KINT, Ctx, SymBool, SymNum, call, explore, tobool
from .util import enc_model, settle
from .c18 import _merge_canaries

PROP = "C03"


def unit_rankings(model, n):
    S = extract.Scratch(model)
    recs = []
    shape = f"n={n}"
    fn = f"{model}._calculate_rankings"
    for given in (True, False):
        ctx = Ctx("U")

        def run(ctx, given=given):
            m, _ = game.mk_model(ctx, S)
            gm = [[object()] for _ in range(n)]
            ranks = None
            if given:
                ranks = [ctx.number(f"r{i}") for i in range(n)]
                # precondition from the call site: rate passes sorted(ranks)
                for i in range(n - 1):
                    ctx.assume(ranks[i].t <= ranks[i + 1].t)
                out = call(m._calculate_rankings, gm, list(ranks))
            else:
                out = call(m._calculate_rankings, gm)

            def mk(md, clause=None):
                return {"kind": "c03_rankings", "model": model, "n": n, "clause": clause,
                        "ranks": [enc_model(md, f"r{i}") for i in range(n)] if given else None}
            meta = {"replay": mk, "fn": fn, "shape": shape}
            nm = f"C03/{model}/_calculate_rankings/" + ("dense-iff" if given else "absent-is-position")
            if out[0] != "return" or len(out[1]) != n:
                ctx.oblige(f"{nm}@{shape}", False, meta=meta)
                return
            o = [SymNum.lift(x).t for x in out[1]]
            if not given:
                ctx.oblige(f"{nm}@{shape}", z3.And([o[i] == i for i in range(n)]), meta=meta)
                return
            parts = []
            for i in range(n):
                for j in range(n):
                    if i != j:
                        parts.append((o[i] == o[j]) == (ranks[i].t == ranks[j].t))
                        parts.append((o[i] < o[j]) == (ranks[i].t < ranks[j].t))
            ctx.oblige(f"{nm}@{shape}", z3.simplify(z3.And(parts)), meta=meta)
            if n == 3:
                ctx.oblige(f"C03/{model}/_calculate_rankings/canary-positions", z3.And([o[i] == i for i in range(n)]), kind="canary",
                           meta={"replay": lambda md: mk(md, "canary"), "fn": fn})
        explore(ctx, run)
        recs += _merge_canaries(settle(ctx.all_obls, mode="U"))
    return recs


def unit_order(model, sizes, form, limit):
    """form: relabel | scores | default"""
    S = extract.Scratch(model)
    game.stub_gauss_uninterpreted(S)
    n = len(sizes)
    shape = f"sizes={sizes},limit_sigma={limit}"
    fn = f"{model}.rate"
    ctx = Ctx("U")

    def run(ctx):
        mA, _ = game.mk_model(ctx, S, limit_sigma=limit)
        mB, _ = game.mk_model(ctx, S, limit_sigma=limit)
        gA = game.mk_teams(ctx, S, sizes)
        gB = game.mk_teams(ctx, S, sizes)
        if form == "relabel":
            r = [ctx.number(f"r{i}") for i in range(n)]
            q = [ctx.number(f"q{i}") for i in range(n)]
            for i in range(n):
                for j in range(i + 1, n):
                    ctx.assume((r[i].t < r[j].t) == (q[i].t < q[j].t))
                    ctx.assume((r[i].t == r[j].t) == (q[i].t == q[j].t))
            ka, kb = {"ranks": list(r)}, {"ranks": list(q)}
            enc = lambda md: ({"ranks": [enc_model(md, f"r{i}") for i in range(n)]}, {"ranks": [enc_model(md, f"q{i}") for i in range(n)]})
        elif form == "scores":
            s = [ctx.number(f"s{i}") for i in range(n)]
            ka, kb = {"scores": list(s)}, {"ranks": [-x for x in s]}

            def enc(md):
                sc = [enc_model(md, f"s{i}") for i in range(n)]
                neg = [{"v": [-e["v"][0], e["v"][1]], "k": ("int" if e["k"] == "bool" else e["k"])} for e in sc]
                return {"scores": sc}, {"ranks": neg}
        else:
            ka, kb = {}, {"ranks": list(range(n))}
            enc = lambda md: ({}, {"ranks": [{"v": [i, 1], "k": "int"} for i in range(n)]})
        ra = call(mA.rate, gA, **ka)
        rb = call(mB.rate, gB, **kb)

        def mk(md):
            a, b = enc(md)
            return {"kind": "c03_order", "model": model, "form": form, "limit": limit, "a": a, "b": b,
                    "game": game.enc_game(md, sizes), "params": game.enc_params(md)}
        nm = {"relabel": "order-only", "scores": "scores-negation", "default": "default-ranks"}[form]
        ok = game.compare_outcomes(ra, rb) if ra[0] == "return" else z3.BoolVal(False)
        ctx.oblige(f"C03/{model}/rate/{nm}@{shape}", ok, meta={"replay": mk, "fn": fn, "shape": shape})
        if form == "relabel" and sizes == (1, 1) and not limit:
            # canary: "the rank values do not matter at all"
            mC, _ = game.mk_model(ctx, S, limit_sigma=limit)
            rc = call(mC.rate, game.mk_teams(ctx, S, sizes))
            ctx.oblige(f"C03/{model}/rate/canary-ranks-irrelevant", game.compare_outcomes(ra, rc), kind="canary",
                       meta={"replay": lambda md: dict(mk(md), b={}), "fn": fn})
    explore(ctx, run)
    return _merge_canaries(settle(ctx.all_obls, mode="U"))


def unit_neg():
    S = extract.Scratch("PlackettLuce")
    f = S.common["_unary_minus"]
    ctx = Ctx("U")

    def run(ctx):
        x = ctx.number("x")
        out = call(f, x)
        mk = lambda md, clause=None: {"kind": "c03_neg", "x": enc_model(md, "x"), "clause": clause}
        ok = out[0] == "return" and isinstance(out[1], SymNum)
        if not ok:
            ctx.oblige("C03/_unary_minus/negates", False, meta={"replay": mk, "fn": "_unary_minus"})
            return
        k = x.kind
        want_kind = z3.If(k == KBOOL, z3.IntVal(KINT), k)
        got_kind = out[1].kind if not isinstance(out[1].kind, int) else z3.IntVal(out[1].kind)
        ctx.oblige("C03/_unary_minus/negates", z3.And(out[1].t == -x.t, got_kind == want_kind),
                   meta={"replay": mk, "fn": "_unary_minus", "unbounded": True})
        ctx.oblige("C03/_unary_minus/canary-abs", out[1].t == z3.If(x.t >= 0, x.t, -x.t), kind="canary",
                   meta={"replay": lambda md: mk(md, "canary"), "fn": "_unary_minus"})
    explore(ctx, run)
    return _merge_canaries(settle(ctx.all_obls, mode="U", unbounded=True))


def units(tier):
    us = [("unit_neg", ())]
    nmax = 5 if tier == "quick" else 7
    for m in extract.MODELS:
        for n in range(2, nmax + 1):
            us.append(("unit_rankings", (m, n)))
        shapes = [(1, 1), (2, 1), (1, 1, 1)] if tier == "quick" else [(1, 1), (2, 1), (1, 1, 1), (1, 2, 1), (1, 1, 1, 1), (1, 1, 1, 1, 1)]
        for s in shapes:
            for form in ("relabel", "scores", "default"):
                for limit in ((False, True) if len(s) <= 2 else (False,)):
                    us.append(("unit_order", (m, s, form, limit)))
    return us


def main(tier, seed):
    t0 = time.time()
    records, errors, walls = driver.run_units(__name__, units(tier))
    fns = {f"{extract.MODEL_FILES[m]}::{m}.{f}" for m in extract.MODELS for f in ("_calculate_rankings", "rate", "_compute", "_calculate_team_ratings")}
    fns |= {f"{extract.WL_COMMON}::_unwind", f"{extract.COMMON}::_unary_minus"}
    return driver.finish(
        PROP, tier, seed, "other", records, errors, walls, t0,
        functions=fns,
        assumptions=[
            "rank/score values have symbolic value and symbolic kind (bool/int/float; int-kind values integral); NaN excluded (an order is needed)",
            "precondition of _calculate_rankings taken from its call site: rate passes sorted(ranks) (non-decreasing)",
            "U-mode: float operations are deterministic functions of operand values; negation and comparison of floats are exact",
            "shape-bounded: _calculate_rankings for n = 2..5 (thorough 2..7); relational rate obligations for the shapes in coverage.shapes",
        ],
        explanation=("_calculate_rankings of each model is executed from its real AST on non-decreasing rank vectors of symbolic value and kind; on every path the returned dense ranks are proved equal iff the values are equal and smaller iff smaller (absent ranks: the positions). "
                     "The real rate() (real _unwind/_compute) is executed twice on the same symbolic game with two symbolic rank vectors constrained to induce the same weak order (any kinds), with scores vs negated ranks, and with omitted ranks vs [0..n-1]; the result terms must be identical (uninterpreted-IEEE)."),
        shapes=[str(u[1]) for u in units(tier) if u[0] == "unit_order"][:20],
    )
