"""C15 - per-call tau / limit_sigma mean exactly what the model-level setting means.

Relational, U-mode: the real `rate` (with the real `_compute`) is executed twice
on the same symbolic game, once with the per-call argument and once on a model
constructed with that setting; the result terms must be identical.  The option
handling is loop-free, so the claim does not depend on the shape; shapes only
supply a game."""
from __future__ import annotations

import time

import z3

from .. import driver, extract, game
from ..symrt import KFLOAT, KINT, Ctx, SymNum, call, explore
from .util import enc_model, settle
from .c18 import _merge_canaries

PROP = "C15"
SHAPES_QUICK = [((1, 1), None), ((2, 1), [2, 1]), ((5, 2), [1, 2])]
SHAPES_THOROUGH = SHAPES_QUICK + [((1, 1, 1), [1, 1, 2]), ((1, 2), [1, 1]), ((2, 2, 1), None)]


def _compare(ra, rb):
    if ra[0] != "return" or rb[0] != "return":
        if ra[0] == rb[0] == "raise" and type(ra[1]) is type(rb[1]):
            return z3.BoolVal(True)
        return z3.BoolVal(False)
    ta, tb = game.result_terms(ra[1]), game.result_terms(rb[1])
    if [(i, j) for i, j, _, _ in ta] != [(i, j) for i, j, _, _ in tb]:
        return z3.BoolVal(False)
    parts = []
    for (i, j, m1, s1), (_, _, m2, s2) in zip(ta, tb):
        parts.append(game.terms_equal(m1, m2))
        parts.append(game.terms_equal(s1, s2))
    return game.conj(parts)


def unit(model, sizes, ranks, generic=False):
    """generic: sizes = (1,)*n, every team has a symbolic number of members (pyvc/teams.py); the float sum
    over a team is then an opaque function of the team and the member-wise term"""
    try:
        return _unit(model, sizes, ranks, generic)
    except Exception as e:  # noqa: BLE001
        from ..symrt import UncutLoop
        if generic and isinstance(e, UncutLoop):
            return [driver.rec(f"C15/{model}/rate/any-team-size/unbounded-proof@n={len(sizes)},ranks={ranks}", "note", "explorer", 0, kind="note",
                               fn=f"{model}.rate", shape=f"n={len(sizes)},any-team-size", note=f"not attempted: {e}")]
        raise


def _unit(model, sizes, ranks, generic):
    recs = []
    shape = f"sizes={sizes},ranks={ranks}" if not generic else f"n={len(sizes)},any-team-size,ranks={ranks}"
    fn = f"{model}.rate"

    def base_rp(md, kind, **kw):
        d = {"kind": kind, "model": model, "game": game.enc_game(md, sizes), "params": game.enc_params(md),
             "ranks": ranks}
        d.update(kw)
        return d

    # ---- tau-equiv: symbolic t >= 0 of kind int or float, under every limit_sigma combination
    if generic:
        from .. import teams as T
        S = T.scratch(model)

        def mk_teams(ctx, S_, sizes_, tag=""):
            return [T.SymTeam(ctx, S_.rating_cls, i, tag=tag) for i in range(len(sizes_))]
    else:
        S = extract.Scratch(model)
        mk_teams = game.mk_teams
    game.stub_gauss_uninterpreted(S)
    for (la, lb) in ((False, None), (True, None), (False, True), (True, False)):
        ctx = Ctx("U")

        def run_tau(ctx, la=la, lb=lb):
            t = ctx.number("t", kinds=(KINT, KFLOAT))
            ctx.assume(t.t >= 0)
            tau0 = ctx.real("m_tau")
            # the model's own tau may be 0 as well: an explorer fork, not a sample
            if ctx.decide(tau0.t == 0):
                pass
            eff = la if lb is None else lb
            mA, _ = game.mk_model(ctx, S, limit_sigma=la)
            mB, _ = game.mk_model(ctx, S, tau=t, limit_sigma=eff)
            kw = {} if lb is None else {"limit_sigma": lb}
            ra = call(mA.rate, mk_teams(ctx, S, sizes), ranks=list(ranks) if ranks else None, tau=t, **kw)
            rb = call(mB.rate, mk_teams(ctx, S, sizes), ranks=list(ranks) if ranks else None)
            if generic:
                from .. import teams as _T
                _T.guard(ra, rb)
            rp = lambda md: base_rp(md, "c15_tau", t=enc_model(md, "t"), a=la, b=lb)
            tag = f"[model_limit={la},call_limit={lb}]"
            ctx.oblige(f"C15/{model}/rate/tau-equiv{tag}@{shape}", _compare(ra, rb), meta={"replay": rp, "fn": fn, "shape": shape})
            if la is False and lb is None:
                # canary: "the per-call tau is ignored"
                mC, _ = game.mk_model(ctx, S)
                rc = call(mC.rate, mk_teams(ctx, S, sizes), ranks=list(ranks) if ranks else None)
                ctx.oblige(f"C15/{model}/rate/tau-equiv/canary@{shape}", _compare(ra, rc), kind="canary",
                           meta={"replay": lambda md: base_rp(md, "c15_tau", t=enc_model(md, "t"), clause="canary"), "fn": fn, "shape": shape})
        explore(ctx, run_tau)
        recs += _merge_canaries(settle(ctx.all_obls, mode="U"))

    # ---- tau omitted / None uses the model's own
    ctx = Ctx("U")

    def run_tau_none(ctx):
        mA, pa = game.mk_model(ctx, S)
        mB, _ = game.mk_model(ctx, S)
        ra = call(mA.rate, mk_teams(ctx, S, sizes), ranks=list(ranks) if ranks else None, tau=None)
        rb = call(mB.rate, mk_teams(ctx, S, sizes), ranks=list(ranks) if ranks else None, tau=pa["tau"])
        if generic:
            from .. import teams as _T
            _T.guard(ra, rb)
        rp = lambda md: base_rp(md, "c15_tau", t=enc_model(md, "m_tau", KFLOAT))
        ctx.oblige(f"C15/{model}/rate/tau-omitted@{shape}", _compare(ra, rb), meta={"replay": rp, "fn": fn, "shape": shape})
    explore(ctx, run_tau_none)
    recs += settle(ctx.all_obls, mode="U")

    # ---- limit-equiv / limit-omitted
    for a in (False, True):
        for b in (False, True, None):
            ctx = Ctx("U")

            def run_lim(ctx, a=a, b=b):
                mA, _ = game.mk_model(ctx, S, limit_sigma=a)
                eff = a if b is None else b
                mB, _ = game.mk_model(ctx, S, limit_sigma=eff)
                ra = call(mA.rate, mk_teams(ctx, S, sizes), ranks=list(ranks) if ranks else None, limit_sigma=b)
                rb = call(mB.rate, mk_teams(ctx, S, sizes), ranks=list(ranks) if ranks else None)
                if generic:
                    from .. import teams as _T
                    _T.guard(ra, rb)
                nm = "limit-omitted" if b is None else "limit-equiv"
                rp = lambda md: base_rp(md, "c15_limit", a=a, b=b)
                ctx.oblige(f"C15/{model}/rate/{nm}[model={a},call={b}]@{shape}", _compare(ra, rb),
                           meta={"replay": rp, "fn": fn, "shape": shape})
                if b is not None and sizes == (1, 1) and not generic:
                    mC, _ = game.mk_model(ctx, S, limit_sigma=not eff)
                    rc = call(mC.rate, mk_teams(ctx, S, sizes), ranks=list(ranks) if ranks else None)
                    ctx.oblige(f"C15/{model}/rate/limit-equiv/canary[model={a},call={b}]@{shape}", _compare(ra, rc), kind="canary",
                               meta={"replay": lambda md: base_rp(md, "c15_limit", a=a, b=b, clause="canary"), "fn": fn, "shape": shape})
            explore(ctx, run_lim)
            recs += _merge_canaries(settle(ctx.all_obls, mode="U"))

    # ---- two-call form: omitting the argument uses the model's own setting,
    # whatever an earlier call passed
    if sizes == (1, 1) and not generic:
        for a in (False, True):
            for b, use_t in ((False, False), (True, False), (None, True)):
                ctx = Ctx("U")

                def run_seq(ctx, a=a, b=b, use_t=use_t):
                    mA, _ = game.mk_model(ctx, S, limit_sigma=a)
                    mB, _ = game.mk_model(ctx, S, limit_sigma=a)
                    kw = {}
                    if b is not None:
                        kw["limit_sigma"] = b
                    if use_t:
                        t = ctx.number("t", kinds=(KINT, KFLOAT))
                        ctx.assume(t.t >= 0)
                        kw["tau"] = t
                    r1 = call(mA.rate, mk_teams(ctx, S, (1, 1), tag="g1"), **kw)
                    ra = call(mA.rate, mk_teams(ctx, S, sizes))
                    rb = call(mB.rate, mk_teams(ctx, S, sizes))

                    def rp(md):
                        d = base_rp(md, "c15_seq", a=a, b=b, game1=game.enc_game(md, (1, 1), "g1"))
                        d["t"] = enc_model(md, "t") if use_t else None
                        return d
                    ok = _compare(ra, rb) if r1[0] == "return" else z3.BoolVal(False)
                    ctx.oblige(f"C15/{model}/rate/omitted-after-call[model={a},first={'tau' if use_t else b}]@{shape}", ok,
                               meta={"replay": rp, "fn": fn, "shape": shape})
                explore(ctx, run_seq)
                recs += settle(ctx.all_obls, mode="U")
    return recs


def units(tier):
    shapes = SHAPES_QUICK if tier == "quick" else SHAPES_THOROUGH
    return [("unit", (m, s, r)) for m in extract.MODELS for (s, r) in shapes] + \
        [("unit", (m, (1,) * n, r, True)) for m in extract.MODELS for (n, r) in ([(2, [2, 1])] if tier == "quick" else [(2, [2, 1]), (2, None), (3, [1, 1, 2])])]


def main(tier, seed):
    t0 = time.time()
    us = units(tier)
    records, errors, walls = driver.run_units(__name__, us)
    fns = {f"{extract.MODEL_FILES[m]}::{m}.{f}" for m in extract.MODELS for f in
           ("rate", "__init__", "_compute", "_calculate_team_ratings", "_calculate_rankings", "_c", "_sum_q", "_a")}
    fns |= {f"{extract.WL_COMMON}::_unwind", f"{extract.WL_COMMON}::_ladder_pairs", f"{extract.COMMON}::_unary_minus"}
    return driver.finish(
        PROP, tier, seed, "other", records, errors, walls, t0,
        functions=fns,
        assumptions=[
            "U-mode: every float operation is a deterministic function of its operand values (int and float arithmetic coincide on integers below 2^53); NaN excluded",
            "v/w/vt/wt/phi_* are deterministic functions of their arguments (uninterpreted here; frame verified by C14's scan, values by C17)",
            "the game is drawn from the listed shapes; the option handling of rate() is loop-free, so its paths (t = 0 / t != 0, limit True/False/None) are explored completely for each shape",
        ],
        explanation=("Relational obligations on the real rate(): for symbolic t >= 0 (int or float kind; t = 0 is a path of the explorer, not a sample) the result terms of model(tau0).rate(g, tau=t) and model(tau=t).rate(g) must be identical uninterpreted-IEEE terms; likewise "
                     "limit_sigma for every (model-level, per-call) combination of True/False/None, and the two-call form 'omitting the argument uses the model's own setting whatever an earlier call passed'. Deductive for all values; bounded over the game shapes listed (the claim is about loop-free option handling)."),
        shapes=[f"{s}/{r}" for (s, r) in (SHAPES_QUICK if tier == "quick" else SHAPES_THOROUGH)],
    )
