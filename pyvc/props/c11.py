"""C11 - predict_rank ranks agree with its probabilities and complement predict_draw."""
from __future__ import annotations

import time

import z3

from .. import driver, extract, tactics
from ..symrt import Ctx, SymNum, active, call, explore, term
from .predutil import PredictWorld, eq_rec, ge_rec, rank_data_contract, shapes, std_replay, generic_guard
from .util import enc_model, settle
from .c18 import _merge_canaries

PROP = "C11"


def unit_rank_data(n):
    """the real _rank_data against its contract (competition ranks) on symbolic values: every ordering with ties is a path"""
    S = extract.Scratch("PlackettLuce")
    f = S.common["_rank_data"]
    ctx = Ctx("R")
    shape = f"n={n}"

    def run(ctx):
        vs = [ctx.real(f"v{k}") for k in range(n)]
        out = call(f, list(vs))
        mk = lambda md, clause=None: {"kind": "c11_rankdata", "v": [enc_model(md, f"v{k}", 2) for k in range(n)], "clause": clause}
        meta = {"replay": mk, "fn": "_rank_data", "shape": shape}
        if out[0] != "return" or len(out[1]) != n:
            ctx.oblige(f"C11/_rank_data/competition-rank@{shape}", False, meta=meta)
            return
        with active(ctx):
            want = rank_data_contract(vs)
        got = [SymNum.lift(x).t for x in out[1]]
        ctx.oblige(f"C11/_rank_data/competition-rank@{shape}", z3.And([g == w.t for g, w in zip(got, want)]), meta=meta)
        if n == 3:
            ctx.oblige("C11/_rank_data/canary-positions", z3.And([got[k] == k + 1 for k in range(n)]), kind="canary",
                       meta={"replay": lambda md: mk(md, "canary"), "fn": "_rank_data"})
    explore(ctx, run)
    return _merge_canaries(settle(ctx.all_obls, mode="R"))


@generic_guard("C11")
def unit(model, sizes, generic=False):
    """generic: sizes = (1,)*n and every team has a symbolic number of members (the listed member is
    the arbitrary one, the aggregates are symbols): the same obligations for teams of every size"""
    recs = []
    n = len(sizes)
    shape = f"sizes={sizes}" if not generic else f"n={len(sizes)},any-team-size"
    fn = f"{model}.predict_rank"
    rp = std_replay("c11_rank", model, sizes)
    W = PredictWorld(model, sizes, generic=generic)           # _rank_data replaced by its contract
    out = W.run("predict_rank")
    if out[0] != "return" or len(out[1]) != n or any(not isinstance(x, tuple) or len(x) != 2 for x in out[1]):
        return [driver.rec(f"C11/{model}/predict_rank/shape@{shape}", "refuted", "explorer", 0, fn=fn, shape=shape, replay=rp, note=repr(out[1])[:200])]
    recs.append(driver.rec(f"C11/{model}/predict_rank/shape@{shape}", "discharged", "path-eval", 0, fn=fn, shape=shape, mode="R"))
    od = W.run("predict_draw") if n >= 3 else None
    sr = W.spec("rank")
    P = W.prover()
    mono = W.phi_monotone(P) if n >= 3 else []
    ranks = [term(r) for (r, _p) in out[1]]
    probs = [term(p) for (_r, p) in out[1]]
    zero, one = z3.RealVal(0), z3.RealVal(1)
    # pair i carries team i's probability (the abs() around it is the identity: a sum of Phi values)
    P.resolve_ites(probs)
    for i in range(n):
        recs.append(eq_rec(P, f"C11/{model}/predict_rank/pair-carries-own-probability[{i}]@{shape}", probs[i], term(sr[i]), fn, shape, rp))
        recs.append(ge_rec(P, f"C11/{model}/predict_rank/prob-lower[{i}]@{shape}", probs[i], zero, fn, shape, rp))
        recs.append(ge_rec(P, f"C11/{model}/predict_rank/prob-upper[{i}]@{shape}", one, probs[i], fn, shape, rp))
    # the rank clauses hold for *any* probability values: abstract them by fresh reals
    t0 = time.time()
    vs = [z3.Real(f"v!{k}") for k in range(n)]
    sub = [(probs[k], vs[k]) for k in range(n)]
    R = [z3.substitute(r, *sub) for r in ranks]
    leftovers = set()
    for r in R:
        from ..game import free_symbols
        leftovers |= {s for s in free_symbols([r]) if not s.startswith("v!")}
    clauses = {
        "rank-range": z3.And([z3.And(r >= 1, r <= n, z3.IsInt(r)) for r in R]),
        "strict": z3.And([z3.Implies(vs[a] > vs[b], R[a] < R[b]) for a in range(n) for b in range(n) if a != b]),
        "ties": z3.And([z3.Implies(vs[a] == vs[b], R[a] == R[b]) for a in range(n) for b in range(a + 1, n)]),
        "best-is-1": z3.And([z3.Implies(z3.And([vs[k] >= vs[j] for j in range(n) if j != k]), R[k] == 1) for k in range(n)]),
    }
    for nm, goal in clauses.items():
        if leftovers:
            recs.append(driver.rec(f"C11/{model}/predict_rank/{nm}@{shape}", "open", "-", 0, fn=fn, shape=shape, replay=rp,
                                   note=f"ranks depend on more than the probabilities: {sorted(leftovers)[:4]}"))
            continue
        r, be, m, why = tactics.check_sat([z3.Not(goal)], timeout_ms=20000)
        recs.append(driver.rec(f"C11/{model}/predict_rank/{nm}@{shape}", "discharged" if r == "unsat" else ("refuted" if r == "sat" else "open"), be,
                               time.time() - t0, fn=fn, shape=shape, mode="R", replay=None if r == "unsat" else rp, note=why))
    r, be, m, why = tactics.check_sat([z3.Not(z3.And([R[k] == k + 1 for k in range(n)]))], timeout_ms=5000)
    recs.append(driver.rec(f"C11/{model}/predict_rank/canary-ranks-are-positions@{shape}", "refuted" if r == "sat" else "discharged", be, 0, kind="canary",
                           fn=fn, shape=shape, replay=dict(rp, clause="canary")))
    if n >= 3 and od is not None and od[0] == "return":
        P.resolve_ites([term(od[1])], extra_hyps=mono)
        tot = term(od[1])
        for p in probs:
            tot = tot + p
        recs.append(eq_rec(P, f"C11/{model}/rank-plus-draw@{shape}", tot, one, fn, shape, rp))
    from .predutil import history_records
    if n <= 3 and not generic:
        recs += history_records("C11", W, model, sizes, ("predict_rank", "predict_draw"))
    return recs


def units(tier):
    us = [("unit_rank_data", (n,)) for n in range(1, (6 if tier == "quick" else 8))]
    us += [("unit", (m, s)) for m in extract.MODELS for s in shapes(tier, nmax=4 if tier == "quick" else 6)]
    us += [("unit", (m, (1,) * n, True)) for m in extract.MODELS for n in range(2, (4 if tier == "quick" else 6) + 1)]
    if tier == "quick":
        us += [("unit", (m, (1,) * 6)) for m in extract.MODELS]
    return us


def main(tier, seed):
    t0 = time.time()
    records, errors, walls = driver.run_units(__name__, units(tier))
    fns = {f"{extract.MODEL_FILES[m]}::{m}.{f}" for m in extract.MODELS for f in ("predict_rank", "predict_draw", "_calculate_team_ratings", "_check_teams")}
    fns |= {f"{extract.COMMON}::_rank_data", f"{extract.COMMON}::_arg_sort"}
    return driver.finish(
        PROP, tier, seed, "other", records, errors, walls, t0,
        functions=fns,
        assumptions=[
            __import__("pyvc.props.anysize", fromlist=["A_SUM"]).A_SUM,
            "modular: predict_rank is verified with _rank_data replaced by its contract (competition ranks); the real _rank_data/_arg_sort are verified against that contract for n = 1..5 (thorough ..7) on symbolic values, every ordering with ties a path (native sorted on (value, index) pairs)",
            "A-Phi [A-Phi is machine-checked against Mathlib in lemmas/Phi.lean for Phi := the standard Gaussian CDF (thorough tier of C17); that libm's erfc/2 is this Phi stays assumed]; equality of probabilities is equality of the reals they denote (whether identical teams get bit-identical floats is a rounding question, A-fp)",
            "shape-bounded (coverage.shapes)",
        ],
        explanation=("The real predict_rank is executed on symbolic teams with _rank_data replaced by its (separately verified) contract: n pairs in input order, pair i carrying team i's probability (exact identity with the closed form), probabilities in [0,1]; the integer-rank clauses (range 1..n, strictly larger probability => strictly better rank, equal => equal, best has rank 1) are proved by z3 for arbitrary probability values from the rank terms the code builds (max / abs reversal included); "
                     "for n >= 3 sum of rank probabilities + predict_draw is the constant 1 as an exact normal form."),
        shapes=[str(s) for s in shapes(tier, nmax=4 if tier == "quick" else 6)] + [f"n=2..{4 if tier == 'quick' else 6} teams of every size (symbolic member counts)"],
    )
