"""C13 - malformed calls are rejected with TypeError/ValueError before any side effect.

Arguments are drawn from a grammar in which every position holds either a
well-formed value or a value of *symbolic dynamic type* (AnyObj); the explorer
enumerates the grammar, the real rate/predict_* (real _check_teams, real
validation prefix, real rest of the body) run on it, and every exit is compared
with the specification of validity (argsgrammar.spec_rate)."""
from __future__ import annotations

import time

import z3

from .. import argsgrammar as ag
from .. import driver, extract, game
from ..symrt import AnyObj, Ctx, SymNum, call, explore
from .util import enc_model, settle
from .c18 import _merge_canaries

PROP = "C13"
PREDICTS = ("predict_win", "predict_draw", "predict_rank")


def _obj_names(desc, out):
    if desc["t"] == "obj":
        out.append(desc["name"])
    elif desc["t"] == "list":
        for d in desc["items"]:
            _obj_names(d, out)
    return out


def _num_names(desc, out):
    if desc["t"] == "num":
        out.append(desc["name"])
    elif desc["t"] == "list":
        for d in desc["items"]:
            _num_names(d, out)
    return out


def _own_names(desc, out):
    if desc["t"] == "own":
        out.append((desc["i"], desc["j"]))
    elif desc["t"] == "list":
        for d in desc["items"]:
            _own_names(d, out)
    return out


def obj_info(md, name):
    tg = md.get(f"tag!{name}", [AnyObj.OTHER, 1])
    tg = tg[0] if isinstance(tg, list) else AnyObj.OTHER
    val = md.get(f"val!{name}", [0, 1])
    ln = md.get(f"len!{name}", [0, 1])
    if tg == AnyObj.NONE:
        truthy = False
    elif tg in (AnyObj.BOOL, AnyObj.INT, AnyObj.FLOAT):
        truthy = bool(val[0]) if isinstance(val, list) else True
    elif tg in (AnyObj.STR, AnyObj.TUPLE, AnyObj.DICT, AnyObj.LIST):
        truthy = (ln[0] > 0) if isinstance(ln, list) else False
    else:
        truthy = True
    return {"tag": AnyObj.NAMES[tg], "truthy": truthy}


def make_recipe(model, op, tdesc, rdesc, sdesc, expected, clause=None, exact=False, iterated=None):
    iterated = dict(iterated or {})

    def mk(md):
        descs = [tdesc, rdesc, sdesc]
        objs, nums, gm = {}, {}, {}

        def with_items(n):
            info = obj_info(md, n)
            if n in iterated:
                # the code iterated this container: its elements as the path chose them
                info["items"] = [({"t": "num", "v": enc_model(md, d["name"])} if d["t"] == "num"
                                  else dict(with_items(d["name"]), t="obj")) for d in iterated[n]]
            return info
        for d in descs:
            for n in _obj_names(d, []):
                objs[n] = with_items(n)
            for n in _num_names(d, []):
                nums[n] = enc_model(md, n)
            for (i, j) in _own_names(d, []):
                gm[f"{i}_{j}"] = [enc_model(md, f"mu_{i}_{j}", 2), enc_model(md, f"sg_{i}_{j}", 2)]
        return {"kind": "c13_call", "model": model, "op": op, "teams": tdesc, "ranks": rdesc, "scores": sdesc,
                "objs": objs, "nums": nums, "game": gm, "expected": expected, "clause": clause, "exact_class": exact}
    return mk


def _truthy(ctx, val, desc):
    """truthiness of a non-list object argument (decided by the explorer if the
    code has not already decided it)"""
    if desc["t"] == "obj":
        return bool(val)
    return None


def check_path(ctx, model, op, S, m, tval, tdesc, rval, rdesc, sval, sdesc, ratings, shape):
    snap = game.snapshot([ratings], m)
    if op == "rate":
        out = call(m.rate, tval, ranks=rval, scores=sval)
    else:
        out = call(getattr(m, op), tval)
    # expected verdict from the specification of validity
    if ag.spec_teams(tdesc) is None and op == "rate":
        rt = _truthy(ctx, rval, rdesc)
        st = _truthy(ctx, sval, sdesc)
        expected = ag.spec_rate(tdesc, rdesc, sdesc, rt, st)
    else:
        expected = ag.spec_teams(tdesc)
    got = None if out[0] == "return" else type(out[1]).__name__
    fn = f"{model}.{op}"
    meta = {"replay": make_recipe(model, op, tdesc, rdesc, sdesc, expected, iterated=ctx.iterated), "fn": fn, "shape": shape}
    if out[0] == "raise" and type(out[1]) not in (TypeError, ValueError):
        ctx.oblige(f"C13/{model}/{op}/only-TypeError-or-ValueError@{shape}", False, meta=dict(meta, note=f"{got}: {out[1]}"))
        return
    ctx.oblige(f"C13/{model}/{op}/rejects-iff-malformed@{shape}", (got is None) == (expected is None), meta=meta)
    if got is not None or op != "rate":
        ctx.oblige(f"C13/{model}/{op}/frame-on-reject@{shape}" if got is not None else f"C13/{model}/{op}/frame@{shape}",
                   game.heap_unchanged(snap), meta=meta)
    return got, expected


def unit_teams(model, op, max_teams, max_size):
    S = extract.Scratch(model)
    game.stub_gauss_uninterpreted(S)
    shape = f"teams-grammar(n<={max_teams},size<={max_size})"
    ctx = Ctx("U")
    stats = {"accept": 0, "reject": 0}

    def run(ctx):
        m, _ = game.mk_model(ctx, S)
        tval, tdesc, ratings = ag.build_teams(ctx, S, max_teams, max_size)
        r = check_path(ctx, model, op, S, m, tval, tdesc, None, {"t": "none"}, None, {"t": "none"}, ratings, shape)
        if r:
            stats["accept" if r[0] is None else "reject"] += 1
            if r[0] is not None and stats["reject"] == 1:
                # canary: "this malformed call is accepted"
                ctx.oblige(f"C13/{model}/{op}/canary-accepts-malformed", False, kind="canary",
                           meta={"replay": make_recipe(model, op, tdesc, {"t": "none"}, {"t": "none"}, r[1], clause="canary"), "fn": f"{model}.{op}"})
    explore(ctx, run)
    recs = _merge_canaries(settle(ctx.all_obls, mode="U"))
    if not stats["accept"] or not stats["reject"]:
        recs.append(driver.rec(f"C13/{model}/{op}/grammar-covers-both@{shape}", "open", "-", 0, kind="vacuity", note=str(stats)))
    return recs


def unit_vectors(model, sizes):
    S = extract.Scratch(model)
    game.stub_gauss_uninterpreted(S)
    shape = f"sizes={sizes},ranks-grammar x scores-grammar"
    ctx = Ctx("U")
    stats = {"accept": 0, "reject": 0}

    def run(ctx):
        m, _ = game.mk_model(ctx, S)
        tval, tdesc, ratings = ag.build_teams(ctx, S, wf_sizes=sizes)
        rval, rdesc = ag.build_vector(ctx, S, "ranks", len(sizes))
        sval, sdesc = ag.build_vector(ctx, S, "scores", len(sizes))
        r = check_path(ctx, model, "rate", S, m, tval, tdesc, rval, rdesc, sval, sdesc, ratings, shape)
        if r:
            stats["accept" if r[0] is None else "reject"] += 1
    explore(ctx, run)
    recs = settle(ctx.all_obls, mode="U")
    if not stats["accept"] or not stats["reject"]:
        recs.append(driver.rec(f"C13/{model}/rate/grammar-covers-both@{shape}", "open", "-", 0, kind="vacuity", note=str(stats)))
    return recs


class PrefixDone(BaseException):
    """raised by the stubbed copy.deepcopy: the validation prefix of rate() has accepted the call"""


def _stop_after_validation(S):
    """what follows an accepted validation is irrelevant to 'malformed calls are rejected': rate()'s deep copy
    and the predictions' first team aggregation end the execution (a malformed argument that is accepted
    would otherwise drag the whole computation along)"""
    class _Copy:
        @staticmethod
        def deepcopy(x, memo=None):
            raise PrefixDone()
    S.ns["copy"] = _Copy

    def _ctr(self, *a, **k):
        raise PrefixDone()
    S.cls._calculate_team_ratings = _ctr


def unit_long_vector(model, n):
    """a ranks / scores vector of n > 4 elements with exactly one non-number, at every position in turn:
    rejected with TypeError / ValueError and nothing modified (the grammar units above stop at 3 elements;
    the for-every-length proof of the prefix covers this too, when it is attempted)"""
    S = extract.Scratch(model)
    game.stub_gauss_uninterpreted(S)
    _stop_after_validation(S)
    recs = []
    nonnum = [t for t in range(11) if t not in (AnyObj.BOOL, AnyObj.INT, AnyObj.FLOAT)]
    for vec in ("ranks", "scores"):
        for j in range(n):
            ctx = Ctx("U")

            def run(ctx, vec=vec, j=j):
                m, _ = game.mk_model(ctx, S)
                teams = game.mk_teams(ctx, S, (1,) * n)
                vals = [k for k in range(n)]
                vals[j] = AnyObj("intruder", ctx, own_cls=S.rating_cls, allowed=nonnum)
                snap = game.snapshot(teams, m)
                try:
                    out = call(m.rate, teams, **{vec: vals})
                except PrefixDone:
                    out = ("return", "accepted: validation passed the call on to the computation")
                ok = out[0] == "raise" and type(out[1]) in (TypeError, ValueError)
                rp = {"kind": "c13_long_vector", "model": model, "vec": vec, "n": n, "j": j}
                ctx.oblige(f"C13/{model}/rate/rejects-a-non-number-at-any-position-of-a-long-{vec}-vector[{j} of {n}]",
                           z3.And(z3.BoolVal(bool(ok)), game.heap_unchanged(snap)), meta={"fn": f"{model}.rate", "replay": rp})
            explore(ctx, run)
            recs += settle(ctx.all_obls, mode="U")
    return recs


def unit_long_teams(model, n):
    """n > 4 teams of which exactly one is malformed (not a list / empty / holds a non-rating / holds another
    model's rating), at every position in turn: rate and the three predictions reject with TypeError /
    ValueError and modify nothing (the grammar units stop at 3 teams)"""
    import importlib
    from ..concrete import MODEL_MODULES
    S = extract.Scratch(model)
    game.stub_gauss_uninterpreted(S)
    _stop_after_validation(S)
    other = [m for m in extract.MODELS if m != model][0]
    OR = getattr(importlib.import_module(MODEL_MODULES[other]), other + "Rating")
    recs = []
    for op in ("rate",) + PREDICTS:
        for j in range(n):
            for what in ("not-a-list", "empty", "non-rating-member", "foreign-rating-member"):
                if op != "rate" and what in ("not-a-list", "empty") and j not in (0, n - 1):
                    continue
                ctx = Ctx("U")

                def run(ctx, op=op, j=j, what=what):
                    m, _ = game.mk_model(ctx, S)
                    teams = game.mk_teams(ctx, S, (1,) * n)
                    good = [p for t in teams for p in t]
                    if what == "not-a-list":
                        teams[j] = tuple(teams[j])
                    elif what == "empty":
                        teams[j] = []
                    elif what == "non-rating-member":
                        teams[j] = [teams[j][0], 21]
                    else:
                        teams[j] = [OR(ctx.real("f_mu"), ctx.real("f_sg"))]
                    snap = game.snapshot([good], m)
                    try:
                        out = call(getattr(m, op), teams)
                    except PrefixDone:
                        out = ("return", "accepted: validation passed the call on to the computation")
                    ok = out[0] == "raise" and type(out[1]) in (TypeError, ValueError)
                    rp = {"kind": "c13_long_teams", "model": model, "op": op, "n": n, "j": j, "what": what, "other": other}
                    ctx.oblige(f"C13/{model}/{op}/rejects-a-malformed-team-at-any-position-of-a-long-list[{what}@{j} of {n}]",
                               z3.And(z3.BoolVal(bool(ok)), game.heap_unchanged(snap)), meta={"fn": f"{model}.{op}", "replay": rp})
                explore(ctx, run)
                recs += settle(ctx.all_obls, mode="U")
    return recs


def unit_foreign_native():
    """every ordered pair (host model, foreign model), natively, on the imported package: a foreign
    model's rating anywhere in the teams is rejected with TypeError/ValueError by rate and the three
    predictions, and nothing is modified.  Type-level facts (class identity / inheritance between the
    five modules) do not depend on numeric values, so concrete ratings decide them."""
    import importlib
    from ..concrete import MODEL_MODULES
    recs = []
    mods = {m: importlib.import_module(MODEL_MODULES[m]) for m in extract.MODELS}
    for host in extract.MODELS:
        H = getattr(mods[host], host)
        HR = getattr(mods[host], host + "Rating")
        for other in extract.MODELS:
            if other == host:
                continue
            OR = getattr(mods[other], other + "Rating")
            bad = []
            for op in ("rate",) + PREDICTS:
                for pos in ((0, 0), (1, 1)):
                    m = H()
                    teams = [[HR(25.0, 8.0)], [HR(24.0, 7.0), HR(23.0, 6.0)]]
                    f = OR(22.0, 5.0)
                    teams[pos[0]][pos[1]] = f
                    before = [(id(p), dict(p.__dict__)) for t in teams for p in t] + [dict(m.__dict__)]
                    try:
                        getattr(m, op)(teams)
                        bad.append(f"{op}{pos}: accepted")
                    except (TypeError, ValueError):
                        pass
                    except Exception as e:  # noqa: BLE001
                        bad.append(f"{op}{pos}: {type(e).__name__}")
                    after = [(id(p), dict(p.__dict__)) for t in teams for p in t] + [dict(m.__dict__)]
                    if after != before:
                        bad.append(f"{op}{pos}: modified something")
            recs.append(driver.rec(f"C13/{host}/rejects-ratings-of[{other}]", "discharged" if not bad else "refuted", "native", 0,
                                   fn=f"{host}._check_teams", unbounded=True, note="; ".join(bad)[:200],
                                   replay=None if not bad else {"kind": "c13_foreign_native", "host": host, "other": other}))
    return recs


def unit_foreign(model):
    """ratings of each of the other four models (real classes) are rejected"""
    import importlib
    from ..concrete import MODEL_MODULES
    S = extract.Scratch(model)
    game.stub_gauss_uninterpreted(S)
    recs = []
    for other in extract.MODELS:
        if other == model:
            continue
        OR = getattr(importlib.import_module(MODEL_MODULES[other]), other + "Rating")
        for op in ("rate",) + PREDICTS:
            for pos in ((0, 0), (1, 0)):
                ctx = Ctx("U")

                def run(ctx, OR=OR, op=op, pos=pos, other=other):
                    m, _ = game.mk_model(ctx, S)
                    teams = game.mk_teams(ctx, S, (1, 2))
                    foreign = OR(ctx.real("f_mu"), ctx.real("f_sg"))
                    teams[pos[0]][pos[1]] = foreign
                    snap = game.snapshot(teams, m)
                    out = call(getattr(m, op), teams)
                    ok = out[0] == "raise" and type(out[1]) in (TypeError, ValueError)
                    nm = f"C13/{model}/{op}/foreign-rating[{other}@{pos}]"
                    ctx.oblige(nm, z3.And(z3.BoolVal(bool(ok)), game.heap_unchanged(snap)), meta={"fn": f"{model}.{op}"})
                explore(ctx, run)
                recs += settle(ctx.all_obls, mode="U")
    return recs


def unit_history(model):
    """a call that was accepted must not make a later malformed call acceptable: the same list objects,
    edited in place after an accepted call (a player slot now holds another model's rating / a plain int),
    are rejected with TypeError/ValueError and nothing is modified"""
    import importlib
    from ..concrete import MODEL_MODULES
    S = extract.Scratch(model)
    game.stub_gauss_uninterpreted(S)
    other = [m for m in extract.MODELS if m != model][0]
    OR = getattr(importlib.import_module(MODEL_MODULES[other]), other + "Rating")
    recs = []
    for op in ("rate",) + PREDICTS:
        for first in ("rate",) + PREDICTS:
            if op != first and first != "rate" and op != "rate":
                continue
            for what in ("foreign-rating", "int"):
                ctx = Ctx("U")

                def run(ctx, op=op, first=first, what=what):
                    m, _ = game.mk_model(ctx, S)
                    teams = game.mk_teams(ctx, S, (1, 2))
                    nm = f"C13/{model}/{op}/rejects-after-an-accepted-{first}-of-the-same-lists[{what}]"
                    rp = {"kind": "c13_history", "model": model, "op": op, "first": first, "what": what, "other": other}
                    out0 = call(getattr(m, first), teams)
                    if out0[0] != "return":
                        ctx.oblige(nm, False, meta={"fn": f"{model}.{first}", "replay": rp})
                        return
                    teams[1][0] = OR(ctx.real("f_mu"), ctx.real("f_sg")) if what == "foreign-rating" else 21
                    snap = game.snapshot([[p for t in teams for p in t if hasattr(p, "__dict__")]], m)
                    out = call(getattr(m, op), teams)
                    ok = out[0] == "raise" and type(out[1]) in (TypeError, ValueError)
                    ctx.oblige(nm, z3.And(z3.BoolVal(bool(ok)), game.heap_unchanged(snap)), meta={"fn": f"{model}.{op}", "replay": rp})
                explore(ctx, run)
                recs += settle(ctx.all_obls, mode="U")
    return recs


def unit_unbounded(model):
    """loop-invariant proofs for ANY number of teams, players, ranks and scores:
    _check_teams returns iff the teams are well-formed (else TypeError / ValueError), and the
    validation prefix of rate() (up to its first effectful statement, the deep copy) accepts
    iff the whole call is well-formed - with _check_teams replaced by the contract just proved."""
    from .. import loops, scan, tactics
    from ..loops import CutCheckLoops, LOOP_REBINDS, DYN_REBINDS, DYN_CUTS
    from ..symrt import UncutLoop
    import ast
    recs = []
    relpath = extract.MODEL_FILES[model]
    I = z3.IntSort()
    ttag, tlen = z3.Function("ttag", I, I), z3.Function("tlen", I, I)
    ptag = z3.Function("ptag", I, I, I)
    rtag, stag = z3.Function("rtag", I, I), z3.Function("stag", I, I)
    OWN, LIST = AnyObj.OWN, AnyObj.LIST
    i, p, j = z3.Ints("i!q p!q j!q")

    def wf_team(k):
        return z3.And(ttag(k) == LIST, tlen(k) >= 1, z3.ForAll([p], z3.Implies(z3.And(p >= 0, p < tlen(k)), ptag(k, p) == OWN)))

    def isnum(t):
        return z3.Or(t == AnyObj.BOOL, t == AnyObj.INT, t == AnyObj.FLOAT)

    def truthy(o):
        t = o.tag
        return z3.If(t == AnyObj.NONE, False, z3.If(z3.Or(t == AnyObj.BOOL, t == AnyObj.INT, t == AnyObj.FLOAT), o.value != 0,
                     z3.If(z3.Or([t == k for k in (AnyObj.STR, AnyObj.TUPLE, AnyObj.DICT, AnyObj.LIST)]), o.length > 0, True)))

    def world(ctx, S):
        R = S.rating_cls

        def player(k, q):
            return AnyObj("player", ctx, own_cls=R, tag=ptag(k, q), assume_domain=False)

        def team(k):
            t = AnyObj("team", ctx, own_cls=R, tag=ttag(k), length=tlen(k), elem=lambda q, k=k: player(k, q), assume_domain=False)
            t.__dict__["idx"] = k
            # contract of a validation loop over this team: the players before position n are own ratings
            t.__dict__["loop_inv"] = lambda n, k=k: z3.ForAll([p], z3.Implies(z3.And(p >= 0, p < n), ptag(k, p) == OWN))
            return t
        teams = AnyObj("teams", ctx, own_cls=R, elem=team)
        # ... over the teams: the teams before position n are well-formed
        teams.__dict__["loop_inv"] = lambda n: z3.ForAll([i], z3.Implies(z3.And(i >= 0, i < n), wf_team(i)))
        ctx.assume(z3.ForAll([i], z3.And(ttag(i) >= 0, ttag(i) <= 10, tlen(i) >= 0)))
        ctx.assume(z3.ForAll([i, p], z3.And(ptag(i, p) >= 0, ptag(i, p) <= 10)))
        wf = z3.And(teams.tag == LIST, teams.length >= 2, z3.ForAll([i], z3.Implies(z3.And(i >= 0, i < teams.length), wf_team(i))))
        return teams, wf

    # ---------------- _check_teams
    # The loop contracts are attached to the *arguments* (world()), not to loop positions: every
    # `for` loop of the module whose body only inspects and raises is cut at run time when its
    # iterable is one of those arguments - wherever the loop stands (in rate, in a helper).  A loop
    # over them that is outside that fragment stops the unbounded proof (UncutLoop): it is then
    # reported as not attempted and the shape-bounded obligations of the same clauses decide.
    q = f"{model}._check_teams"

    def not_attempted(what, e):
        return driver.rec(f"C13/{model}/{what}/unbounded-proof", "skipped", "-", 0, kind="note", fn=f"{model}.{what}",
                          note=f"{e}; decided for the listed container lengths only")
    tr = CutCheckLoops()
    S = extract.Scratch(model, transforms={relpath: [tr]})
    S.ns.update(LOOP_REBINDS)
    S.ns.update(DYN_REBINDS)
    ctx = Ctx("U", feas_timeout_ms=1500)
    counts = {"return": 0, "raise": 0}

    def run(ctx):
        teams, wf = world(ctx, S)
        out = call(S.cls._check_teams, teams)
        meta = {"fn": q, "unbounded": True, "replay": {"kind": "c13_unbounded", "model": model}}
        if out[0] == "return":
            counts["return"] += 1
            ctx.oblige(f"C13/{model}/_check_teams/returns-only-if-well-formed", wf, meta=meta)
            ctx.oblige(f"C13/{model}/_check_teams/canary-returns-only-for-3-teams", teams.length >= 3, kind="canary", meta={"fn": q})
        else:
            counts["raise"] += 1
            ctx.oblige(f"C13/{model}/_check_teams/raises-only-TypeError-or-ValueError", type(out[1]) in (TypeError, ValueError), meta=dict(meta, note=repr(out[1])[:100]))
            ctx.oblige(f"C13/{model}/_check_teams/raises-only-if-malformed", z3.Not(wf), meta=meta)
    from .util import settle
    del DYN_CUTS[:]
    check_teams_proved = True
    try:
        explore(ctx, run)
        recs += _merge_canaries_open(settle(ctx.all_obls, mode="U", unbounded=True, timeout_ms=30000, canary_timeout_ms=2000))
        if not counts["return"] or not counts["raise"] or not DYN_CUTS:
            recs.append(driver.rec(f"C13/{model}/_check_teams/both-outcomes-reachable", "open", "explorer", 0, kind="vacuity", note=f"{counts}, loop cuts {len(DYN_CUTS)}"))
    except UncutLoop as e:
        check_teams_proved = False
        recs.append(not_attempted("_check_teams", e))

    # ---------------- validation prefix of rate()
    q2 = f"{model}.rate"
    tr2 = CutCheckLoops()
    S2 = extract.Scratch(model, transforms={relpath: [tr2]})
    S2.ns.update(LOOP_REBINDS)
    S2.ns.update(DYN_REBINDS)

    class _Copy:
        @staticmethod
        def deepcopy(x, memo=None):
            raise PrefixDone()
    S2.ns["copy"] = _Copy
    ctx = Ctx("U", feas_timeout_ms=1500)
    counts2 = {"accept": 0, "raise": 0}

    def run2(ctx):
        teams, wf = world(ctx, S2)
        R = S2.rating_cls

        def check_teams_contract(_teams):
            # contract proved above: returns iff well-formed, else TypeError or ValueError
            if ctx.decide(wf):
                return None
            raise TypeError("malformed teams (contract stub)")
        S2.cls._check_teams = staticmethod(check_teams_contract)
        ctx.assume(z3.ForAll([j], z3.And(rtag(j) >= 0, rtag(j) <= 10, stag(j) >= 0, stag(j) <= 10)))
        ranks = AnyObj("ranks", ctx, own_cls=R, elem=lambda k: AnyObj("rank", ctx, own_cls=R, tag=rtag(k), assume_domain=False))
        scores = AnyObj("scores", ctx, own_cls=R, elem=lambda k: AnyObj("score", ctx, own_cls=R, tag=stag(k), assume_domain=False))
        # contract of a validation loop over a vector: the elements before position n are numbers
        ranks.__dict__["loop_inv"] = lambda n: z3.ForAll([j], z3.Implies(z3.And(j >= 0, j < n), isnum(rtag(j))))
        scores.__dict__["loop_inv"] = lambda n: z3.ForAll([j], z3.Implies(z3.And(j >= 0, j < n), isnum(stag(j))))
        m, _ = game.mk_model(ctx, S2)

        def vec_ok(o, tagf):
            return z3.Implies(truthy(o), z3.And(o.tag == LIST, o.length == teams.length,
                                                z3.ForAll([j], z3.Implies(z3.And(j >= 0, j < o.length), isnum(tagf(j))))))
        valid = z3.And(wf, vec_ok(ranks, rtag), vec_ok(scores, stag), z3.Not(z3.And(truthy(ranks), truthy(scores))))
        meta = {"fn": q2, "unbounded": True, "replay": {"kind": "c13_unbounded", "model": model}}
        try:
            out = call(m.rate, teams, ranks=ranks, scores=scores)
        except PrefixDone:
            counts2["accept"] += 1
            ctx.oblige(f"C13/{model}/rate/prefix-accepts-only-well-formed-calls", valid, meta=meta)
            return
        if out[0] == "return":
            ctx.oblige(f"C13/{model}/rate/prefix-reaches-the-copy", False, meta=meta)
            return
        counts2["raise"] += 1
        ctx.oblige(f"C13/{model}/rate/prefix-raises-only-TypeError-or-ValueError", type(out[1]) in (TypeError, ValueError), meta=dict(meta, note=repr(out[1])[:100]))
        ctx.oblige(f"C13/{model}/rate/prefix-rejects-only-malformed-calls", z3.Not(valid), meta=meta)
    del DYN_CUTS[:]
    try:
        if not check_teams_proved:
            raise UncutLoop("the contract of _check_teams, which the prefix proof uses, was not proved for every length")
        explore(ctx, run2)
        recs += settle(ctx.all_obls, mode="U", unbounded=True, timeout_ms=30000, canary_timeout_ms=2000)
        if not counts2["accept"] or not counts2["raise"] or not DYN_CUTS:
            recs.append(driver.rec(f"C13/{model}/rate/prefix-both-outcomes-reachable", "open", "explorer", 0, kind="vacuity", note=f"{counts2}, loop cuts {len(DYN_CUTS)}"))
    except UncutLoop as e:
        recs.append(not_attempted("rate", e))

    # ---------------- frame of the prefix: syntactic, for any number of objects
    tree = extract.parse(relpath)
    fn = extract.find_function(tree, f"{model}.rate")
    cls_node = next((n for n in tree.body if isinstance(n, ast.ClassDef) and n.name == model), None)
    unknown = []
    f, npre = scan.prefix_is_pure(fn, allowed_calls=("isinstance", "len", "ValueError", "TypeError", "self._check_teams"), cls=cls_node,
                                  resolve=scan.package_resolver(tree, extract.parse), unknown=unknown)
    if not f and unknown:
        # a call the scan cannot follow: the frame of the prefix is not established syntactically on this tree
        # (the heap comparisons of `frame-on-reject` for the listed container lengths still decide)
        recs.append(driver.rec(f"C13/{model}/rate/prefix-writes-nothing/unbounded-proof", "note", "ast-scan", 0, kind="note", fn=q2,
                               note=f"not attempted: {unknown[:3]}"))
    else:
        recs.append(driver.rec(f"C13/{model}/rate/prefix-writes-nothing", "discharged" if not f and npre >= 2 else "refuted", "ast-scan", 0, fn=q2, unbounded=True,
                               note=str(f[:4]) if f else f"{npre} prefix statements", replay={"kind": "c13_unbounded", "model": model} if f else None))
    fn2 = extract.find_function(tree, f"{model}._check_teams")
    f2 = [(n.lineno, "store / call in _check_teams") for n in ast.walk(fn2)
          if isinstance(n, (ast.Assign, ast.AugAssign, ast.Delete)) or
          (isinstance(n, ast.Call) and not (isinstance(n.func, ast.Name) and n.func.id in ("isinstance", "len", "TypeError", "ValueError")))]
    recs.append(driver.rec(f"C13/{model}/_check_teams/writes-nothing", "discharged" if not f2 else "refuted", "ast-scan", 0, fn=q, unbounded=True,
                           note=str(f2[:4]), replay={"kind": "c13_unbounded", "model": model} if f2 else None))
    return recs


def _merge_canaries_open(recs):
    """canaries over quantified goals count as refuted when the solver cannot prove them"""
    out = []
    for r in _merge_canaries(recs):
        if r["kind"] == "canary" and r["verdict"] == "open":
            r = dict(r, verdict="refuted", note="not provable (quantified goal: unknown)")
        out.append(r)
    return out


def units(tier):
    us = [("unit_foreign_native", ())]
    mt, ms = (3, 2) if tier == "quick" else (4, 2)
    for m in extract.MODELS:
        for op in ("rate",) + PREDICTS:
            us.append(("unit_teams", (m, op, mt, ms)))
        for sizes in ([(1, 1), (2, 1, 1)] if tier == "quick" else [(1, 1), (2, 1, 1), (1, 1, 1, 2)]):
            us.append(("unit_vectors", (m, sizes)))
        us.append(("unit_foreign", (m,)))
        us.append(("unit_history", (m,)))
        us.append(("unit_long_vector", (m, 6 if tier == "quick" else 8)))
        us.append(("unit_long_teams", (m, 6 if tier == "quick" else 8)))
        us.append(("unit_unbounded", (m,)))
    return us


def main(tier, seed):
    t0 = time.time()
    records, errors, walls = driver.run_units(__name__, units(tier))
    fns = {f"{extract.MODEL_FILES[m]}::{m}.{f}" for m in extract.MODELS for f in
           ("_check_teams", "rate", "predict_win", "predict_draw", "predict_rank")}
    return driver.finish(
        PROP, tier, seed, "other", records, errors, walls, t0,
        functions=fns,
        assumptions=[
            "grammar of argument values: at every position either a well-formed value or a value of symbolic dynamic type among None, bool, int, float, str, tuple, dict, list, own rating, foreign rating, other object (truthiness and length symbolic); the code may inspect such a value only through isinstance/len/truthiness (anything else ends the path in the exception Python would raise)",
            "'given' means truthy, as the property says (non-empty); a falsy ranks/scores value of any type is 'not given'",
            "NaN rank values excluded on accepted paths (the sort needs an order)",
            "bounded over container lengths: teams lists of 0..3 (thorough 0..4) entries, teams of 0..2 players, rank/score vectors of n-1, n, n+1 entries; all element values/types symbolic",
        ],
        explanation=("The real rate/predict_* of each model (real _check_teams, real validation prefix and the real rest of the body) are executed on every sentence of the argument grammar; each path's exit is proved to be a normal return exactly when the arguments are well-formed per the property, "
                     "a TypeError/ValueError otherwise and never another exception class, and at every rejecting exit the heap (all ratings reachable from the arguments, the model) equals the entry snapshot. Foreign ratings are additionally real instances of the other four rating classes. "
                     "Complete per container-length shape, bounded over lengths (an unbounded loop-invariant proof of _check_teams is future work)."),
        shapes=[str(u[1][1:]) for u in units(tier) if u[0] in ("unit_teams", "unit_vectors")][:12],
    )
