"""C13 - malformed calls are rejected with TypeError/ValueError before any side effect.

Arguments are drawn from a grammar in which every position holds either a
well-formed value or a value of *symbolic dynamic type* (AnyObj); the explorer
enumerates the grammar, the real rate/predict_* (real _check_teams, real
validation prefix, real rest of the body) run on it, and every exit is compared
with the specification of validity (argsgrammar.spec_rate)."""
from __future__ import annotations

import time

import z3

from .. import argsgrammar as ag
from .. import driver, extract, game
from ..symrt import AnyObj, Ctx, SymNum, call, explore
from .util import enc_model, settle
from .c18 import _merge_canaries

PROP = "C13"
PREDICTS = ("predict_win", "predict_draw", "predict_rank")


def _obj_names(desc, out):
    if desc["t"] == "obj":
        out.append(desc["name"])
    elif desc["t"] == "list":
        for d in desc["items"]:
            _obj_names(d, out)
    return out


def _num_names(desc, out):
    if desc["t"] == "num":
        out.append(desc["name"])
    elif desc["t"] == "list":
        for d in desc["items"]:
            _num_names(d, out)
    return out


def _own_names(desc, out):
    if desc["t"] == "own":
        out.append((desc["i"], desc["j"]))
    elif desc["t"] == "list":
        for d in desc["items"]:
            _own_names(d, out)
    return out


def obj_info(md, name):
    tg = md.get(f"tag!{name}", [AnyObj.OTHER, 1])
    tg = tg[0] if isinstance(tg, list) else AnyObj.OTHER
    val = md.get(f"val!{name}", [0, 1])
    ln = md.get(f"len!{name}", [0, 1])
    if tg == AnyObj.NONE:
        truthy = False
    elif tg in (AnyObj.BOOL, AnyObj.INT, AnyObj.FLOAT):
        truthy = bool(val[0]) if isinstance(val, list) else True
    elif tg in (AnyObj.STR, AnyObj.TUPLE, AnyObj.DICT, AnyObj.LIST):
        truthy = (ln[0] > 0) if isinstance(ln, list) else False
    else:
        truthy = True
    return {"tag": AnyObj.NAMES[tg], "truthy": truthy}


def make_recipe(model, op, tdesc, rdesc, sdesc, expected, clause=None, exact=False):
    def mk(md):
        descs = [tdesc, rdesc, sdesc]
        objs, nums, gm = {}, {}, {}
        for d in descs:
            for n in _obj_names(d, []):
                objs[n] = obj_info(md, n)
            for n in _num_names(d, []):
                nums[n] = enc_model(md, n)
            for (i, j) in _own_names(d, []):
                gm[f"{i}_{j}"] = [enc_model(md, f"mu_{i}_{j}", 2), enc_model(md, f"sg_{i}_{j}", 2)]
        return {"kind": "c13_call", "model": model, "op": op, "teams": tdesc, "ranks": rdesc, "scores": sdesc,
                "objs": objs, "nums": nums, "game": gm, "expected": expected, "clause": clause, "exact_class": exact}
    return mk


def _truthy(ctx, val, desc):
    """truthiness of a non-list object argument (decided by the explorer if the
    code has not already decided it)"""
    if desc["t"] == "obj":
        return bool(val)
    return None


def check_path(ctx, model, op, S, m, tval, tdesc, rval, rdesc, sval, sdesc, ratings, shape):
    snap = game.snapshot([ratings], m)
    if op == "rate":
        out = call(m.rate, tval, ranks=rval, scores=sval)
    else:
        out = call(getattr(m, op), tval)
    # expected verdict from the specification of validity
    if ag.spec_teams(tdesc) is None and op == "rate":
        rt = _truthy(ctx, rval, rdesc)
        st = _truthy(ctx, sval, sdesc)
        expected = ag.spec_rate(tdesc, rdesc, sdesc, rt, st)
    else:
        expected = ag.spec_teams(tdesc)
    got = None if out[0] == "return" else type(out[1]).__name__
    fn = f"{model}.{op}"
    meta = {"replay": make_recipe(model, op, tdesc, rdesc, sdesc, expected), "fn": fn, "shape": shape}
    if out[0] == "raise" and type(out[1]) not in (TypeError, ValueError):
        ctx.oblige(f"C13/{model}/{op}/only-TypeError-or-ValueError@{shape}", False, meta=dict(meta, note=f"{got}: {out[1]}"))
        return
    ctx.oblige(f"C13/{model}/{op}/rejects-iff-malformed@{shape}", (got is None) == (expected is None), meta=meta)
    if got is not None or op != "rate":
        ctx.oblige(f"C13/{model}/{op}/frame-on-reject@{shape}" if got is not None else f"C13/{model}/{op}/frame@{shape}",
                   game.heap_unchanged(snap), meta=meta)
    return got, expected


def unit_teams(model, op, max_teams, max_size):
    S = extract.Scratch(model)
    game.stub_gauss_uninterpreted(S)
    shape = f"teams-grammar(n<={max_teams},size<={max_size})"
    ctx = Ctx("U")
    stats = {"accept": 0, "reject": 0}

    def run(ctx):
        m, _ = game.mk_model(ctx, S)
        tval, tdesc, ratings = ag.build_teams(ctx, S, max_teams, max_size)
        r = check_path(ctx, model, op, S, m, tval, tdesc, None, {"t": "none"}, None, {"t": "none"}, ratings, shape)
        if r:
            stats["accept" if r[0] is None else "reject"] += 1
            if r[0] is not None and stats["reject"] == 1:
                # canary: "this malformed call is accepted"
                ctx.oblige(f"C13/{model}/{op}/canary-accepts-malformed", False, kind="canary",
                           meta={"replay": make_recipe(model, op, tdesc, {"t": "none"}, {"t": "none"}, r[1], clause="canary"), "fn": f"{model}.{op}"})
    explore(ctx, run)
    recs = _merge_canaries(settle(ctx.all_obls, mode="U"))
    if not stats["accept"] or not stats["reject"]:
        recs.append(driver.rec(f"C13/{model}/{op}/grammar-covers-both@{shape}", "open", "-", 0, kind="vacuity", note=str(stats)))
    return recs


def unit_vectors(model, sizes):
    S = extract.Scratch(model)
    game.stub_gauss_uninterpreted(S)
    shape = f"sizes={sizes},ranks-grammar x scores-grammar"
    ctx = Ctx("U")
    stats = {"accept": 0, "reject": 0}

    def run(ctx):
        m, _ = game.mk_model(ctx, S)
        tval, tdesc, ratings = ag.build_teams(ctx, S, wf_sizes=sizes)
        rval, rdesc = ag.build_vector(ctx, S, "ranks", len(sizes))
        sval, sdesc = ag.build_vector(ctx, S, "scores", len(sizes))
        r = check_path(ctx, model, "rate", S, m, tval, tdesc, rval, rdesc, sval, sdesc, ratings, shape)
        if r:
            stats["accept" if r[0] is None else "reject"] += 1
    explore(ctx, run)
    recs = settle(ctx.all_obls, mode="U")
    if not stats["accept"] or not stats["reject"]:
        recs.append(driver.rec(f"C13/{model}/rate/grammar-covers-both@{shape}", "open", "-", 0, kind="vacuity", note=str(stats)))
    return recs


def unit_foreign(model):
    """ratings of each of the other four models (real classes) are rejected"""
    import importlib
    from ..concrete import MODEL_MODULES
    S = extract.Scratch(model)
    game.stub_gauss_uninterpreted(S)
    recs = []
    for other in extract.MODELS:
        if other == model:
            continue
        OR = getattr(importlib.import_module(MODEL_MODULES[other]), other + "Rating")
        for op in ("rate",) + PREDICTS:
            for pos in ((0, 0), (1, 0)):
                ctx = Ctx("U")

                def run(ctx, OR=OR, op=op, pos=pos, other=other):
                    m, _ = game.mk_model(ctx, S)
                    teams = game.mk_teams(ctx, S, (1, 2))
                    foreign = OR(ctx.real("f_mu"), ctx.real("f_sg"))
                    teams[pos[0]][pos[1]] = foreign
                    snap = game.snapshot(teams, m)
                    out = call(getattr(m, op), teams)
                    ok = out[0] == "raise" and type(out[1]) in (TypeError, ValueError)
                    nm = f"C13/{model}/{op}/foreign-rating[{other}@{pos}]"
                    ctx.oblige(nm, z3.And(z3.BoolVal(bool(ok)), game.heap_unchanged(snap)), meta={"fn": f"{model}.{op}"})
                explore(ctx, run)
                recs += settle(ctx.all_obls, mode="U")
    return recs


def units(tier):
    us = []
    mt, ms = (3, 2) if tier == "quick" else (4, 2)
    for m in extract.MODELS:
        for op in ("rate",) + PREDICTS:
            us.append(("unit_teams", (m, op, mt, ms)))
        for sizes in ([(1, 1), (2, 1, 1)] if tier == "quick" else [(1, 1), (2, 1, 1), (1, 1, 1, 2)]):
            us.append(("unit_vectors", (m, sizes)))
        us.append(("unit_foreign", (m,)))
    return us


def main(tier, seed):
    t0 = time.time()
    records, errors, walls = driver.run_units(__name__, units(tier))
    fns = {f"{extract.MODEL_FILES[m]}::{m}.{f}" for m in extract.MODELS for f in
           ("_check_teams", "rate", "predict_win", "predict_draw", "predict_rank")}
    return driver.finish(
        PROP, tier, seed, "other", records, errors, walls, t0,
        functions=fns,
        assumptions=[
            "grammar of argument values: at every position either a well-formed value or a value of symbolic dynamic type among None, bool, int, float, str, tuple, dict, list, own rating, foreign rating, other object (truthiness and length symbolic); the code may inspect such a value only through isinstance/len/truthiness (anything else ends the path in the exception Python would raise)",
            "'given' means truthy, as the property says (non-empty); a falsy ranks/scores value of any type is 'not given'",
            "NaN rank values excluded on accepted paths (the sort needs an order)",
            "bounded over container lengths: teams lists of 0..3 (thorough 0..4) entries, teams of 0..2 players, rank/score vectors of n-1, n, n+1 entries; all element values/types symbolic",
        ],
        explanation=("The real rate/predict_* of each model (real _check_teams, real validation prefix and the real rest of the body) are executed on every sentence of the argument grammar; each path's exit is proved to be a normal return exactly when the arguments are well-formed per the property, "
                     "a TypeError/ValueError otherwise and never another exception class, and at every rejecting exit the heap (all ratings reachable from the arguments, the model) equals the entry snapshot. Foreign ratings are additionally real instances of the other four rating classes. "
                     "Complete per container-length shape, bounded over lengths (an unbounded loop-invariant proof of _check_teams is future work)."),
        shapes=[u[1][1:] if u[0] != "unit_foreign" else "foreign" for u in units(tier)][:12],
    )
