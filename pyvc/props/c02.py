"""C02 - rate() result corresponds to its input position by position and player by player.

Structural obligations on the real rate (real _unwind, real _compute, real
__deepcopy__) with rank/score values of symbolic value and kind: the explorer
enumerates every outcome of the sort's comparisons, i.e. every weak order of the
teams."""
from __future__ import annotations

import time

import z3

from .. import driver, extract, game
from ..symrt import Ctx, SymNum, call, explore
from .util import enc_model, settle
from .c18 import _merge_canaries

PROP = "C02"
SIZES_QUICK = [(1, 1), (2, 1), (1, 2, 1), (1, 1, 1, 1), (5, 2)]
SIZES_THOROUGH = SIZES_QUICK + [(3, 1, 2), (2, 1, 1, 2), (1, 1, 1, 1, 1), (1, 2, 1, 1, 1), (1, 1, 1, 1, 1, 1)]


def unit(model, sizes, vec, limit):
    S = extract.Scratch(model)
    game.stub_gauss_uninterpreted(S)
    n = len(sizes)
    shape = f"sizes={sizes},{vec},limit_sigma={limit}"
    fn = f"{model}.rate"
    ctx = Ctx("U")
    count = {"paths": 0}

    def run(ctx):
        m, _ = game.mk_model(ctx, S, limit_sigma=limit)
        teams = game.mk_teams(ctx, S, sizes)
        orig = [list(t) for t in teams]
        ident = {id(p): (p.__dict__["id"], p.__dict__["name"]) for t in teams for p in t}
        snap = game.snapshot(teams, m)
        kw = {}
        vals = None
        if vec != "none":
            vals = [ctx.number(f"r{i}") for i in range(n)]
            kw[vec] = list(vals)
        out = call(m.rate, teams, **kw)
        count["paths"] += 1

        def mk(md, clause=None):
            d = {"kind": "c02_rate", "model": model, "game": game.enc_game(md, sizes), "params": game.enc_params(md),
                 "limit": limit, "clause": clause}
            if vals is not None:
                d[vec] = [enc_model(md, f"r{i}") for i in range(n)]
            return d
        meta = {"replay": mk, "fn": fn, "shape": shape}
        if out[0] != "return":
            ctx.oblige(f"C02/{model}/rate/returns@{shape}", False, meta=dict(meta, note=repr(out[1])))
            ctx.oblige(f"C02/{model}/rate/all-or-nothing-on-raise@{shape}", game.heap_unchanged(snap), meta=meta)
            return
        res = out[1]
        ok_shape = isinstance(res, list) and len(res) == n and all(isinstance(t, list) and len(t) == k for t, k in zip(res, sizes))
        ctx.oblige(f"C02/{model}/rate/shape@{shape}", ok_shape, meta=meta)
        if not ok_shape:
            return
        ok_id = all(res[i][j] is orig[i][j] for i in range(n) for j in range(sizes[i]))
        ctx.oblige(f"C02/{model}/rate/identity@{shape}", ok_id, meta=meta)
        ok_names = all(ident.get(id(p)) is not None and p.__dict__["id"] is ident[id(p)][0] and p.__dict__["name"] is ident[id(p)][1]
                       for t in res for p in t)
        ctx.oblige(f"C02/{model}/rate/id-and-name@{shape}", ok_names, meta=meta)
        ctx.oblige(f"C02/{model}/rate/no-alias@{shape}", len({id(p) for t in res for p in t}) == sum(sizes), meta=meta)
        # the caller's list structure is untouched (no player moved to another slot of the *input* either)
        ok_in = len(teams) == n and all(teams[i][j] is orig[i][j] for i in range(n) for j in range(sizes[i])) and all(len(teams[i]) == sizes[i] for i in range(n))
        ctx.oblige(f"C02/{model}/rate/input-lists-untouched@{shape}", ok_in, meta=meta)
        if vec == "ranks" and sizes == (1, 2, 1) and not limit:
            # canary: "the result is in rank order" - false as soon as the ranks are not sorted
            order_ok = z3.And([vals[i].t <= vals[i + 1].t for i in range(n - 1)])
            ctx.oblige(f"C02/{model}/rate/canary-rank-order", order_ok, kind="canary",
                       meta={"replay": lambda md: mk(md, "canary"), "fn": fn})
    budget = 20000 if len(sizes) <= 4 else 200000
    over = None
    try:
        explore(ctx, run, max_paths=budget)
    except Exception as e:  # noqa: BLE001
        if "paths" not in str(e):
            raise
        over = str(e)
    recs = _merge_canaries(settle(ctx.all_obls, mode="U"))
    if over:
        # a change that multiplies the comparisons of the sort (e.g. sorting players by a symbolic value) ends
        # undecided instead of running for an hour; the replay search settles it
        recs.append(driver.rec(f"C02/{model}/rate/path-budget@{shape}", "open", "explorer", 0, fn=fn, shape=shape,
                               note=f"{over} (the unchanged tree needs a few hundred)", replay={"kind": "c02_rate", "model": model, "limit": limit,
                                                                                              "game": [[[{"v": [25 + 3 * i + j, 1], "k": "float"}, {"v": [8 - j, 1], "k": "float"}] for j in range(k)] for i, k in enumerate(sizes)],
                                                                                              "params": None, "clause": None}))
    recs.append(driver.rec(f"C02/{model}/rate/paths@{shape}", "discharged" if count["paths"] >= 1 else "open", "explorer", 0,
                           kind="vacuity", note=f"{count['paths']} paths"))
    return recs


def unit_unwind(n):
    """_unwind: stable sorting permutation and its inverse (shared by all models)."""
    S = extract.Scratch("PlackettLuce")
    unwind = S.wl["_unwind"]
    ctx = Ctx("U")
    shape = f"n={n}"

    def run(ctx):
        keys = [ctx.number(f"k{i}") for i in range(n)]
        xs = [object() for _ in range(n)]
        out = call(unwind, list(keys), list(xs))

        def mk(md, clause=None):
            return {"kind": "c02_unwind", "keys": [enc_model(md, f"k{i}") for i in range(n)], "clause": clause}
        meta = {"replay": mk, "fn": "_unwind", "shape": shape}
        if out[0] != "return":
            ctx.oblige(f"C02/_unwind/returns@{shape}", False, meta=meta)
            return
        s, tenet = out[1]
        perm_ok = len(s) == n and sorted(tenet) == list(range(n)) and all(s[k] is xs[tenet[k]] for k in range(n))
        ctx.oblige(f"C02/_unwind/permutation@{shape}", perm_ok, meta=meta)
        if not perm_ok:
            return
        srt = [keys[tenet[k]].t <= keys[tenet[k + 1]].t for k in range(n - 1)]
        stab = [z3.Implies(keys[tenet[k]].t == keys[tenet[k + 1]].t, z3.BoolVal(tenet[k] < tenet[k + 1])) for k in range(n - 1)]
        ctx.oblige(f"C02/_unwind/sorted-stable@{shape}", z3.And(srt + stab) if srt else True, meta=meta)
        back = call(unwind, list(tenet), list(s))
        ok_back = back[0] == "return" and len(back[1][0]) == n and all(back[1][0][i] is xs[i] for i in range(n))
        ctx.oblige(f"C02/_unwind/inverse@{shape}", ok_back, meta=meta)
        if n == 3:
            ctx.oblige("C02/_unwind/canary-identity", all(s[i] is xs[i] for i in range(n)), kind="canary",
                       meta={"replay": lambda md: mk(md, "canary"), "fn": "_unwind"})
    explore(ctx, run)
    return _merge_canaries(settle(ctx.all_obls, mode="U"))


def unit_anysize(model, n):
    """_compute returns, per team, the members of that team (the same objects, in order), for teams of every size"""
    from . import anysize
    return anysize.c02(model, n)


def unit_anysize_rate(model, n, vec, limit, use_t):
    """the real rate() on n teams of every size (anysize.rate_units)"""
    from . import anysize
    return anysize.rate_units("C02", model, n, vec, limit, use_t)


def units(tier):
    sizes = SIZES_QUICK if tier == "quick" else SIZES_THOROUGH
    us = [("unit_unwind", (n,)) for n in ((2, 3, 4, 5) if tier == "quick" else (2, 3, 4, 5, 6, 7))]
    for m in extract.MODELS:
        for n in range(2, (4 if tier == "quick" else 7) + 1):
            us.append(("unit_anysize", (m, n)))
        for s in sizes:
            for vec in ("none", "ranks", "scores"):
                for limit in (False, True):
                    if len(s) >= 5 and (vec == "scores" or limit):
                        continue
                    us.append(("unit", (m, s, vec, limit)))
    for m in extract.MODELS:
        for a in ([(2, 'ranks', False, False), (3, 'scores', False, False), (2, 'none', True, False)] if tier == "quick" else [(2, 'ranks', False, True), (2, 'scores', True, False), (3, 'none', False, False), (3, 'ranks', False, True), (3, 'scores', False, False), (2, 'none', True, True), (4, 'ranks', False, False)]):
            us.append(("unit_anysize_rate", (m,) + a))
    if tier == "quick":
        us += [("unit", (m, (1,) * 5, "ranks", False)) for m in extract.MODELS] + [("unit", (m, (1,) * 6, "none", False)) for m in extract.MODELS]
    return us


def main(tier, seed):
    t0 = time.time()
    records, errors, walls = driver.run_units(__name__, units(tier))
    fns = {f"{extract.MODEL_FILES[m]}::{m}.{f}" for m in extract.MODELS for f in ("rate", "_compute", "_calculate_team_ratings", "_calculate_rankings")}
    fns |= {f"{extract.MODEL_FILES[m]}::{m}Rating.__deepcopy__" for m in extract.MODELS}
    fns |= {f"{extract.WL_COMMON}::_unwind", f"{extract.COMMON}::_matrix_transpose", f"{extract.COMMON}::_unary_minus"}
    sizes = SIZES_QUICK if tier == "quick" else SIZES_THOROUGH
    return driver.finish(
        PROP, tier, seed, "other", records, errors, walls, t0,
        functions=fns,
        assumptions=[
            "A-sort: list.sort(key=) runs natively on symbolic keys; every outcome of its comparisons is a path, so every weak order of the rank/score values is covered for the listed shapes",
            "rank/score values: symbolic value and symbolic kind (bool/int/float), NaN excluded",
            "players passed once (no aliasing between input slots)",
            __import__("pyvc.props.anysize", fromlist=["A_SUM"]).A_SUM,
            "shape-bounded: team-size vectors listed in coverage.shapes",
        ],
        explanation=("The real rate() of each model runs on symbolic games with symbolic rank or score vectors (value and int/float/bool kind); for every feasible outcome of the sort (every weak order) the result is checked structurally on the actual heap: same shape, result[i][j] *is* the object passed at teams[i][j] "
                     "with its id and name objects untouched, no object twice, input lists untouched; plus _unwind's contract (stable sorting permutation; unwinding with the recorded tenet is the inverse). Complete per shape, bounded over shapes."),
        shapes=[str(s) for s in sizes] + ["_compute: n = 2..4 quick / 2..7 thorough teams of every size (rows-are-the-input-teams)", "rate(): n = 2, 3 quick / 2..4 thorough teams of every size, symbolic ranks / scores / none (every weak order a path)"],
    )
