"""Shared helpers for the property modules."""
from __future__ import annotations

import fractions
import os
import sys
import time

import z3

from .. import driver, tactics
from ..symrt import KBOOL, KFLOAT, KINT, Ctx, SymBool, SymNum, explore, call, tobool, EngineError

KN = {KBOOL: "bool", KINT: "int", KFLOAT: "float"}


def enc_model(md, name, kind=None):
    """Replay encoding of the model value of symbol ``name``."""
    v = md.get(name)
    if isinstance(v, list):
        fr = [v[0], v[1]]
    else:
        fr = [0, 1]
    if kind is None:
        kv = md.get(f"kind!{name}")
        k = KN.get(kv[0] if isinstance(kv, list) else KFLOAT, "float")
    else:
        k = KN.get(kind, "float") if isinstance(kind, int) else "float"
    return {"v": fr, "k": k}


def settle(obls, fn="", shape="", mode="", unbounded=False, timeout_ms=None, with_smt_every=25, canary_timeout_ms=None):
    """Discharge obligations and turn them into picklable records."""
    out = []
    for i, o in enumerate(obls):
        if o.kind == "canary" and canary_timeout_ms:
            tactics.discharge(o, timeout_ms=canary_timeout_ms, use_cvc5=False)
        else:
            tactics.discharge(o, timeout_ms=timeout_ms)
        replay = None
        if o.verdict != "discharged":
            mk = o.meta.get("replay")
            if callable(mk):
                try:
                    replay = mk(o.model or {})
                except Exception as e:  # noqa: BLE001
                    replay = None
                    o.note += f" (replay recipe failed: {e})"
            elif mk is not None:
                replay = mk
        r = driver.rec_of(o, fn=o.meta.get("fn", fn), shape=o.meta.get("shape", shape), mode=mode,
                          unbounded=o.meta.get("unbounded", unbounded), replay=replay,
                          with_smt=(i % with_smt_every == 0 or o.verdict != "discharged"))
        out.append(r)
    return out


def vacuity_record(name, hyps, fn=""):
    r = tactics.vacuity(hyps)
    return driver.rec(name, "discharged" if r == "sat" else "open", "z3", 0.0, kind="vacuity", fn=fn,
                      note="hypotheses satisfiable" if r == "sat" else f"hypotheses {r}")


def tier_seed():
    tier = os.environ.get("VERIF_TIER", "quick")
    seed = int(os.environ.get("VERIF_SEED", "0") or 0)
    return tier, seed


def lean_check(name, filename, timeout=1800):
    """machine-check a lemma file under /verif/lemmas against the installed Mathlib (thorough tier);
    accepted = exit status 0, no error, no sorry, and the file declares no axiom"""
    import subprocess
    from .. import VERIF
    t0 = time.time()
    path = os.path.join(VERIF, "lemmas", filename)
    try:
        src = open(path, encoding="utf-8").read()
        holes = [w for w in ("sorry", "admit", "\naxiom ", "native_decide") if w in src]
        p = subprocess.run(["lake", "env", "lean", path], cwd="/opt/veriftools/mathlib4", capture_output=True, text=True, timeout=timeout)
        out = p.stdout + p.stderr
        ok = p.returncode == 0 and "error" not in out.lower() and "sorry" not in out.lower() and not holes
        note = (f"holes: {holes}; " if holes else "") + out[-300:]
    except Exception as e:  # noqa: BLE001
        ok, note = False, repr(e)
    return driver.rec(name, "discharged" if ok else "open", "lean4+mathlib", time.time() - t0, kind="vacuity", fn=f"lemmas/{filename}", note=note)
