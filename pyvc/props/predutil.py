"""Shared driver for the prediction properties C09-C12 (R-mode)."""
from __future__ import annotations

import itertools
import time

import z3

from .. import driver, extract, field, game
from ..symrt import SYM_MATH, Ctx, EngineError, SymNum, active, call, cur, explore, per_path, term
from ..specs import predict as PS


class SymPX:
    two = 2

    def __init__(self):
        self.sqrt = SYM_MATH.sqrt
        self.Phi = lambda x: cur().alg.fn("Phi", SymNum.lift(x))
        self.PhiInv = lambda x: cur().alg.fn("PhiInv", SymNum.lift(x))


def rank_data_contract(vector):
    """contract of models/common.py::_rank_data (verified against the real body
    in C11): competition ranks, out[k] = 1 + #{j : v_j < v_k}"""
    from ..symrt import KINT
    vs = [SymNum.lift(v) for v in vector]
    if any(v is None for v in vs):
        raise EngineError("_rank_data on non-numbers")
    out = []
    one, zero = z3.RealVal(1), z3.RealVal(0)
    for k in range(len(vs)):
        r = one
        for j in range(len(vs)):
            if j != k:
                r = r + z3.If(vs[j].t < vs[k].t, one, zero)
        out.append(SymNum(r, KINT))
    return out


class PredictWorld:
    """symbolic game + executions of the real predict_* of one model on it"""

    def __init__(self, model, sizes, identical=(), feas_timeout_ms=300, stub_rank=True, safety=False, generic=False):
        """identical: pairs (i, k) of teams that carry the same symbols (team k reuses team i's);
        stub_rank: _rank_data is replaced by its contract (no forking);
        generic: every team has a symbolic number of members (pyvc/teams.py): `sizes` must be (1,)*n,
        the one listed member of a team is its arbitrary member, the aggregates are symbols"""
        self.model, self.sizes, self.generic = model, tuple(sizes), generic
        if generic:
            from .. import teams as T
            self.S = T.scratch(model)
        else:
            self.S = extract.Scratch(model)
        game.stub_phi_real(self.S)
        if stub_rank:
            self.S.ns["_rank_data"] = rank_data_contract
        self.ctx = Ctx("R", feas_timeout_ms=feas_timeout_ms, safety=safety)
        self.alias = {k: i for (i, k) in identical}
        with active(self.ctx):
            self.setup()

    def setup(self):
        """(re-)establish the world in the current context: same symbols every time"""
        c = cur()
        self.m, self.params = game.mk_model(c, self.S)
        self.beta = self.params["beta"]
        self.prior = []
        self.agg = self.Ls = None
        if self.generic:
            from .. import teams as T
            self.gteams = []
            for i in range(len(self.sizes)):
                t = T.SymTeam(c, self.S.rating_cls, self.alias.get(i, i), sigma_pos=False)
                self.gteams.append(t)
                self.prior.append([(t.g.mu, t.g.sigma)])
            self.agg = ([t.theta for t in self.gteams], [t.s for t in self.gteams])
            self.Ls = [T.t_len(t) for t in self.gteams]
            return
        for i, n in enumerate(self.sizes):
            src = self.alias.get(i, i)
            row = []
            for j in range(n):
                mu, sg = c.real(f"mu_{src}_{j}"), c.real(f"sg_{src}_{j}")
                c.assume(sg.t >= 0)
                row.append((mu, sg))
            self.prior.append(row)

    def paths(self, op, body=None, **kw):
        """explore every path of op (predict_rank forks inside _rank_data);
        body(ctx, outcome) is called at the end of each path (obligations).
        Returns [(outcome, hyps, facts)]."""
        res = []

        def run_once(ctx):
            self.setup()
            out = call(getattr(self.m, op), self.teams(**kw))
            if body is not None:
                body(ctx, out)
            res.append((out, list(ctx.hyps()), list(ctx.facts.values())))
        explore(self.ctx, run_once)
        # leave the context in a usable single-path state again
        self.ctx.begin_path([])
        with active(self.ctx):
            self.setup()
        return res

    def teams(self, order=None, bump=None, player_order=None, alias=None):
        """fresh rating objects; bump = (i, j, d) adds d to player j of team i;
        alias = {k: i}: slot k holds the *same list object* as slot i"""
        R = self.S.rating_cls
        ts = []
        if self.generic:
            import copy as _copy
            for i, g in enumerate(self.gteams):
                t = _copy.deepcopy(g)          # fresh objects, the same symbols
                t.root = t
                if bump is not None and bump[0] == i:
                    # one member's mu raised by d: the team total grows by d (the arbitrary member stands
                    # for every member, so it is left alone; predictions read the aggregates only)
                    t.theta = t.theta + bump[2]
                ts.append(t)
            if alias:
                for k, i in alias.items():
                    ts[k] = ts[i]
            if order is not None:
                ts = [ts[k] for k in order]
            return ts
        for i, row in enumerate(self.prior):
            t = []
            for j, (mu, sg) in enumerate(row):
                if bump is not None and bump[0] == i and bump[1] == j:
                    mu = mu + bump[2]
                t.append(R(mu, sg, name=f"p{i}_{j}"))
            if player_order and i in player_order:
                t = [t[k] for k in player_order[i]]
            ts.append(t)
        if alias:
            for k, i in alias.items():
                ts[k] = ts[i]
        if order is not None:
            ts = [ts[k] for k in order]
        return ts

    def run(self, op, **kw):
        """single-path execution (predict_win / predict_draw)"""
        with active(self.ctx):
            ts = per_path(self.teams(**kw))
            out = self.ctx.merged(lambda i: call(getattr(self.m, op), ts(i)))
        if self.generic:
            from .. import teams as T
            T.guard(out)
        return out

    def spec(self, which, beta=None, details=None):
        with active(self.ctx):
            X = SymPX()
            f = {"win": PS.win, "draw": PS.draw, "rank": PS.rank_probabilities}[which]
            kw = {"agg": self.agg, "sizes": self.Ls} if self.generic else {}
            if details is not None:
                kw["details"] = details
            return f(self.prior, self.beta if beta is None else beta, X, **kw)

    def run_second_instance(self, op, **kw):
        """another instance of the same model class with its own beta, called after this
        world's instance has already predicted: (outcome, its beta)"""
        with active(self.ctx):
            m2, p2 = game.mk_model(self.ctx, self.S, tag="n")
            t1, t2 = per_path(self.teams(**kw)), per_path(self.teams(**kw))
            self.ctx.merged(lambda i: call(getattr(self.m, op), t1(i)))
            out = self.ctx.merged(lambda i: call(getattr(m2, op), t2(i)))
        if self.generic:
            from .. import teams as T
            T.guard(out)
        return out, p2["beta"]

    def run_after_history(self, op, **kw):
        """op on the game after the *same instance* has been used before: (1) all three predictions
        on a bigger game that shares every rating object (one more team in front: another team count
        and player count); (2) all three predictions on this very game while its rating objects held
        other values (replaced in place afterwards, same objects and ids).  A result that depends on an
        earlier call (a memo keyed by too little, a stale cache) differs from the first-use result.
        Order: (2) then (1) then the call (a cache filled with the current values first would mask (2))."""
        ops = ("predict_win", "predict_draw", "predict_rank")
        with active(self.ctx):
            c = self.ctx
            hx = [(c.real("hx_mu"), c.real("hx_sg"))]
            c.assume(hx[0][1].t >= 0)
            hv = [[(c.real(f"hv_mu_{i}_{j}"), c.real(f"hv_sg_{i}_{j}")) for j in range(n)] for i, n in enumerate(self.sizes)]
            for row in hv:
                for (_m, sg) in row:
                    c.assume(sg.t >= 0)
            R = self.S.rating_cls

            def one(_i):
                ts = self.teams(**kw)
                extra = [R(hx[0][0], hx[0][1], name="extra")]
                objs = [p for t in ts for p in t]
                keep = [(p.mu, p.sigma) for p in objs]
                flat = [v for row in hv for v in row]
                # first the game at hand while its objects hold other values (same objects, same ids) ...
                for p, (m2, s2) in zip(objs, flat):
                    p.mu, p.sigma = m2, s2
                for o in ops:
                    r = call(getattr(self.m, o), ts)
                    if r[0] != "return":
                        return r
                for p, (m0, s0) in zip(objs, keep):
                    p.mu, p.sigma = m0, s0
                # ... then a bigger game sharing every object with its current values
                for o in ops:
                    r = call(getattr(self.m, o), [extra] + ts)
                    if r[0] != "return":
                        return r
                return call(getattr(self.m, op), ts)
            return c.merged(one)

    def prover(self, timeout_ms=10000, extra_hyps=()):
        return field.Prover(list(self.ctx.hyps()) + list(extra_hyps), list(self.ctx.facts.values()), timeout_ms=timeout_ms)

    def phi_apps(self):
        return list(self.ctx.apps.get("Phi", {}).values())

    def phi_monotone(self, P=None):
        """A-Phi monotonicity instances.  With a prover, only between applications whose canonical
        arguments share their sqrt atoms (the same pair of teams): the instances the obligations
        need, n(n-1)/2 groups of a few applications instead of all pairs of all applications."""
        out = []
        apps = self.phi_apps()
        if P is None or len(apps) <= 8:
            for (a, xa), (b, xb) in itertools.permutations(apps, 2):
                if not z3.eq(a, b):
                    out.append(z3.Implies(xa >= xb, a >= b))
            return out
        groups = {}
        for (a, xa) in apps:
            try:
                p = P.N.norm(xa)
                key = frozenset(at for at in p.atoms() if P.N.atoms.info[at][0] == "sqrt")
            except Exception:  # noqa: BLE001
                key = None
            groups.setdefault(key, []).append((a, xa))
        for key, lst in groups.items():
            for (a, xa), (b, xb) in itertools.permutations(lst, 2):
                if not z3.eq(a, b):
                    out.append(z3.Implies(xa >= xb, a >= b))
        return out


def eq_rec(P, name, a, b, fn, shape, replay=None, kind="post"):
    ok, be, note, t = P.prove_eq(a, b)
    return driver.rec(name, "discharged" if ok else "refuted", be, t, kind=kind, fn=fn, shape=shape, mode="R",
                      replay=None if ok else replay, note=note[:300])


def ge_rec(P, name, a, b, fn, shape, replay=None, strict=False, extra=(), kind="post"):
    verdict, be, note, t, model = P.prove_ge(a, b, strict=strict, extra_hyps=extra)
    return driver.rec(name, verdict, be, t, kind=kind, fn=fn, shape=shape, mode="R",
                      replay=None if verdict == "discharged" else replay, note=(note or "")[:300])


def std_replay(kind, model, sizes, **kw):
    import random
    from ..concrete import enc
    rnd = random.Random(hash((model, tuple(sizes))) & 0xffff)
    gm = [[[enc(rnd.uniform(15, 35)), enc(rnd.uniform(0.5, 9))] for _ in range(n)] for n in sizes]
    d = {"kind": kind, "model": model, "game": gm, "beta": enc(25 / 6)}
    d.update(kw)
    return d


SIZES = {
    "quick": {2: [(1, 1), (2, 1), (2, 3), (9, 5)], 3: [(1, 1, 1), (2, 1, 3)], 4: [(1, 1, 1, 1)], 5: [(1, 2, 1, 1, 1)]},
    "thorough": {2: [(1, 1), (2, 1), (2, 3), (9, 5), (8, 8), (1, 8)], 3: [(1, 1, 1), (2, 1, 3), (8, 1, 2)], 4: [(1, 1, 1, 1), (2, 1, 1, 3)],
                 5: [(1, 2, 1, 1, 1)], 6: [(1,) * 6], 7: [(1,) * 7], 8: [(1,) * 8, (2, 1, 1, 1, 1, 1, 1, 8)]},
}


def shapes(tier, nmin=2, nmax=None):
    out = []
    for n, svs in sorted(SIZES[tier].items()):
        if n < nmin or (nmax is not None and n > nmax):
            continue
        out += svs
    return out


def history_records(prop, W, model, sizes, ops, firsts=None):
    """`<op>/after-earlier-calls/same-as-first-use`: the prediction of an instance that has been used
    before (run_after_history) is, value by value, the closed form of the game at hand"""
    recs = []
    shape = f"sizes={tuple(sizes)}"
    which = {"predict_win": "win", "predict_draw": "draw", "predict_rank": "rank"}
    for op in ops:
        fn = f"{model}.{op}"
        rp = std_replay("c12_history", model, sizes, op=op)
        t0 = time.time()
        out = W.run_after_history(op)
        ok = out[0] == "return"
        note = "" if ok else repr(out[1])[:200]
        if ok:
            sp = W.spec(which[op])
            try:
                got = [term(out[1])] if op == "predict_draw" else ([term(x) for x in out[1]] if op == "predict_win" else [term(p) for (_r, p) in out[1]])
            except Exception as e:  # noqa: BLE001
                got, ok, note = [], False, f"result shape: {e}"
            want = [term(sp)] if op == "predict_draw" else [term(x) for x in sp]
            if ok:
                P = W.prover()
                P.resolve_ites(got, extra_hyps=W.phi_monotone(P))
                ok = len(got) == len(want) and all(P.prove_eq(g, w)[0] for g, w in zip(got, want))
        recs.append(driver.rec(f"{prop}/{model}/{op}/after-earlier-calls/same-as-first-use@{shape}", "discharged" if ok else "refuted", "field", time.time() - t0,
                               fn=fn, shape=shape, mode="R", replay=None if ok else rp, note=note))
    return recs


def generic_guard(prop):
    """a unit run with generic=True (teams of every size) that meets a loop outside the map/fold rule
    reports `not attempted` (kind note) instead of failing: the listed team sizes still decide"""
    def deco(f):
        import functools

        @functools.wraps(f)
        def g(model, sizes, generic=False):
            try:
                return f(model, sizes, generic)
            except EngineError as e:
                from ..symrt import UncutLoop
                if not generic or not isinstance(e, UncutLoop):
                    raise
                return [driver.rec(f"{prop}/{model}/any-team-size/unbounded-proof@n={len(sizes)}", "note", "explorer", 0, kind="note",
                                   fn=f"{model}.predict_*", shape=f"n={len(sizes)},any-team-size", note=f"not attempted: {e}")]
        return g
    return deco
