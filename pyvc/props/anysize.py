"""Obligations on the real _compute for teams of *every* size (pyvc/teams.py, computil.GenericRun).

The number of teams n and the tie pattern are still a listed shape; the number of members of
each team is a symbol L_i >= 1.  `_calculate_team_ratings` and the per-member loop of `_compute`
are executed once for an arbitrary member under the map/fold rule; the team aggregates are the
symbols theta_i = sum mu, s_i = sum sigma^2 (A-sum: linearity of finite sums, a sum of
non-negative addends dominates each addend).  Used by C01, C02, C05, C06, C07.

If a loop over a team is outside the rule (`UncutLoop`), the unit returns one record of kind
`note` ("not attempted"): the obligations for the listed team sizes still decide, the exit code
is unaffected."""
from __future__ import annotations

import time

import z3

from .. import driver, signs
from ..symrt import KFLOAT, EngineError, UncutLoop, active, term
from .computil import GenericRun, compositions, field_rec, ge_rec, link, ranks_of, scale_of

A_SUM = ("A-sum: for the for-every-team-size obligations the team aggregates are symbols theta_i = sum_k mu_k, s_i = sum_k sigma_k^2 with "
         "linearity of finite sums and 'a sum of non-negative addends dominates each addend' (machine-checked against Mathlib in lemmas/Axioms.lean: "
         "Finset.mul_sum, Finset.sum_add_distrib, Finset.single_le_sum); the map/fold rule of pyvc/teams.py (a loop body that writes only the current "
         "member from its own values and loop-invariant values acts member-wise; v += d(k) sums to v + sum_k d(k)) is a derived Hoare rule whose "
         "induction over the team size is a stated meta-argument, its side conditions are checked on every run")


def _replay(prop, model, n, ranks, gamma_mode, kind):
    from . import c01
    # replays of a for-every-size obligation use teams beyond the sizes the other obligations list
    rp = c01._std_replay(model, _replay_sizes(n), ranks, gamma_mode, scale_of(model))
    rp["kind"] = kind
    return rp


def _replay_sizes(n):
    return tuple(([6, 5, 7] + [2] * n)[:n])


def _not_attempted(prop, model, shape, why):
    return driver.rec(f"{prop}/{model}/_compute/any-team-size/unbounded-proof@{shape}", "note", "explorer", 0, kind="note", fn=f"{model}._compute",
                      shape=shape, note=f"not attempted: {why}")


def _run(prop, model, n, blocks, gamma_mode):
    """(run, shape, records) - run is None when nothing more can be said for this shape"""
    ranks = ranks_of(blocks)
    shape = f"n={n},ties={blocks},gamma={gamma_mode},team sizes arbitrary"
    fn = f"{model}._compute"
    try:
        run = GenericRun(model, n, ranks, gamma_mode)
    except UncutLoop as e:
        return None, shape, [_not_attempted(prop, model, shape, str(e))]
    if not run.ok():
        if run.out[0] == "raise" and isinstance(run.out[1], (UncutLoop,)):
            return None, shape, [_not_attempted(prop, model, shape, str(run.out[1]))]
        return None, shape, [driver.rec(f"{prop}/{model}/_compute/any-team-size/returns@{shape}", "refuted", "explorer", 0, fn=fn, shape=shape,
                                        note=repr(run.out[1])[:200], replay=_replay(prop, model, n, ranks, gamma_mode, "c01_rate"))]
    if not any(ev[0] == "fold" for ev in run.events) or not any(ev[0] == "team-sum" for ev in run.events):
        # vacuity guard: the run must have gone through the rule (a per-member loop and the aggregates)
        return None, shape, [_not_attempted(prop, model, shape, "the execution met no per-member loop / no aggregate over a team")]
    return run, shape, []


def c01(model, n, gamma_mode):
    """mu, sigma of an arbitrary member of every team = the published update on the aggregates"""
    recs = []
    fn = f"{model}._compute"
    first = True
    for blocks in compositions(n):
        t0 = time.time()
        run, shape, r0 = _run("C01", model, n, blocks, gamma_mode)
        recs += r0
        if run is None:
            continue
        ranks = ranks_of(blocks)
        rp = _replay("C01", model, n, ranks, gamma_mode, "c01_rate")
        if first:
            ok, note = run.cross_check()
            recs.append(driver.rec(f"C01/{model}/_compute/any-team-size/engine-cross-check@{shape}", "discharged" if ok else "open", "cpython", time.time() - t0,
                                   kind="vacuity", fn=fn, shape=shape, note=note))
            first = False
        okm, notem, tm, *_ = link(run, which=("mu",))
        oks, notes, ts, *_ = link(run, which=("sigma",))
        recs.append(field_rec(f"C01/{model}/_compute/any-team-size/mu@{shape}", okm, "field", notem, tm, fn, shape, rp))
        recs.append(field_rec(f"C01/{model}/_compute/any-team-size/sigma@{shape}", oks, "field", notes, ts, fn, shape, rp))
        if blocks == (1,) * n and gamma_mode == "default":
            P = run.prover()
            ok = P.prove_eq(term(run.post()[0][0][0]), term(run.prior[0][0][0]))[0]
            recs.append(driver.rec(f"C01/{model}/_compute/any-team-size/canary-no-update@{shape}", "discharged" if ok else "refuted", "field", 0,
                                   kind="canary", fn=fn, shape=shape, replay=dict(rp, clause="canary")))
    return recs


def c02(model, n):
    """result[i] lists exactly the members of teams[i], in order, as the same objects; the model is not written"""
    from .. import game
    recs = []
    fn = f"{model}._compute"
    for blocks in compositions(n):
        run, shape, r0 = _run("C02", model, n, blocks, "default")
        recs += r0
        if run is None:
            continue
        rp = _replay("C02", model, n, ranks_of(blocks), "default", "c02_shape")
        ok = run.rows_are_the_teams()
        recs.append(driver.rec(f"C02/{model}/_compute/any-team-size/rows-are-the-input-teams@{shape}", "discharged" if ok else "refuted", "explorer", 0,
                               fn=fn, shape=shape, mode="R", replay=None if ok else rp,
                               note="" if ok else "a result row is not the member sequence of the team at that position"))
        same = set(run.m.__dict__) == set(run.model_before) and all(game.same_value(run.m.__dict__[k], v) is True for k, v in run.model_before.items())
        recs.append(driver.rec(f"C02/{model}/_compute/any-team-size/writes-only-member-mu-sigma@{shape}", "discharged" if same else "refuted", "explorer", 0,
                               fn=fn, shape=shape, mode="R", replay=None if same else rp))
    return recs


def c05(model, n):
    recs = []
    fn = f"{model}._compute"
    for blocks in compositions(n):
        run, shape, r0 = _run("C05", model, n, blocks, "default")
        recs += r0
        if run is None:
            continue
        ranks = ranks_of(blocks)
        rp = _replay("C05", model, n, ranks, "default", "c05_dir")
        ok, note, t, spec, det, P = link(run, which=("mu",))
        post = run.post()
        # same direction, proportional to own variance, for two arbitrary members k, k2 of a team:
        # (mu'_k - mu_k) sigma_k2^2 == (mu'_k2 - mu_k2) sigma_k^2
        t0 = time.time()
        okd = True
        for i in range(n):
            # (if the per-member loop branches on a member's values or position the merged result term is an
            # if-then-else over the member's own condition; the second member gets its own index symbol)
            sub = run.second_member(i)
            with active(run.ctx):
                dk = term(post[i][0][0] - run.prior[i][0][0])
                sgk = term(run.prior[i][0][1])
            dk2, sgk2 = z3.substitute(dk, *sub), z3.substitute(sgk, *sub)
            P2 = run.prover()
            okd = okd and P2.prove_eq(dk * sgk2 * sgk2, dk2 * sgk * sgk)[0]
        recs.append(field_rec(f"C05/{model}/_compute/any-team-size/same-direction@{shape}", okd, "field", "", time.time() - t0, fn, shape, rp))
        P = run.prover()
        SP = signs.SignProver(run.hyps, run.facts)

        def alone(i, want, nm):
            t0 = time.time()
            if ok and SP.prove(term(det["omega"][i]), want):
                return driver.rec(f"C05/{model}/_compute/any-team-size/{nm}@{shape}", "discharged", "field+split+z3", time.time() - t0, fn=fn, shape=shape, mode="R")
            with active(run.ctx):
                d = term(post[i][0][0] - run.prior[i][0][0])
            res = P.prove_ge(d, z3.RealVal(0)) if want == "ge" else P.prove_ge(z3.RealVal(0), d)
            return ge_rec(f"C05/{model}/_compute/any-team-size/{nm}@{shape}", res, fn, shape, rp)
        if blocks[0] == 1:
            recs.append(alone(0, "ge", "first-alone"))
        if blocks[-1] == 1:
            recs.append(alone(n - 1, "le", "last-alone"))
            if blocks == (1,) * n and ok:
                wrong = SP.prove(term(det["omega"][n - 1]), "gt")
                recs.append(driver.rec(f"C05/{model}/_compute/any-team-size/canary-last-gains@{shape}", "discharged" if wrong else "refuted", "split+z3", 0,
                                       kind="canary", fn=fn, shape=shape, replay=dict(rp, clause="canary")))
    return recs


def c06(model, n, gamma_mode):
    from .c06 import _direct_sigma
    recs = []
    fn = f"{model}._compute"
    for blocks in compositions(n):
        run, shape, r0 = _run("C06", model, n, blocks, gamma_mode)
        recs += r0
        if run is None:
            continue
        rp = _replay("C06", model, n, ranks_of(blocks), gamma_mode, "c06_sigma")
        P = run.prover(timeout_ms=5000)
        t0 = time.time()
        post = run.post()
        bad = [i for i in range(n) if not _direct_sigma(P, term(post[i][0][1]), term(run.prior[i][0][1]))]
        recs.append(driver.rec(f"C06/{model}/_compute/any-team-size/sigma-in-(0,prior]@{shape}", "discharged" if not bad else "open", "field-sign+z3", time.time() - t0,
                               fn=fn, shape=shape, mode="R", note=f"failed for the arbitrary member of teams {bad}" if bad else "", replay=None if not bad else rp))
        if blocks == (1,) * n and gamma_mode == "default":
            with active(run.ctx):
                half = term(run.prior[0][0][1] * 0.5)
            wrong = _direct_sigma(P, term(post[0][0][1]), half)
            recs.append(driver.rec(f"C06/{model}/_compute/any-team-size/canary-sigma-halves@{shape}", "discharged" if wrong else "refuted", "field-sign+z3", 0,
                                   kind="canary", fn=fn, shape=shape, replay=dict(rp, clause="canary")))
    return recs


def c07(model, n, gamma_mode):
    recs = []
    fn = f"{model}._compute"
    tm = model.startswith("Thurstone")
    for blocks in compositions(n):
        run, shape, r0 = _run("C07", model, n, blocks, gamma_mode)
        recs += r0
        if run is None:
            continue
        rp = _replay("C07", model, n, ranks_of(blocks), gamma_mode, "c07_zero")
        rp["twins"] = False
        post = run.post()
        try:
            with active(run.ctx):
                T = 0
                for i in range(n):
                    # sum over *all* members of team i of the mu change: closed by linearity (the
                    # decomposition d = A + B mu_k + C sigma_k^2 is itself proved by the field prover)
                    total = run.teams[i].sum_of(post[i][0][0] - run.prior[i][0][0])
                    T = T + total / run.teams[i].s
        except UncutLoop as e:
            # the member-wise change is not of a form the linearity rule closes (or the members took
            # different branches): the for-every-size proof is not attempted, the listed sizes decide
            recs.append(_not_attempted("C07", model, shape, str(e)[:200]))
            continue
        run.hyps = list(run.rec.pc) + list(run._assumptions())
        P = run.prover()
        if not tm:
            ok, be, note, t = P.prove_eq(term(T), z3.RealVal(0))
            recs.append(field_rec(f"C07/{model}/_compute/any-team-size/zero-sum@{shape}", ok, "field", note[:300], t, fn, shape, rp))
        else:
            det = {}
            run.spec(pair_scale=scale_of(model), details=det)
            tied = [(i, q) for (i, q), d in det["pairs"].items() if d["kind"] == "tie" and i < q and (q, i) in det["pairs"]]
            with active(run.ctx):
                E = 0
                for (i, q) in tied:
                    a, b = det["pairs"][(i, q)], det["pairs"][(q, i)]
                    E = E + (a["v"] + b["v"]) / a["c"]
            t0 = time.time()
            ok, be, note, t = P.prove_eq(term(T), term(E) if not isinstance(E, int) else z3.RealVal(0))
            inst_ok = True
            for (i, q) in tied:
                a, b = det["pairs"][(i, q)], det["pairs"][(q, i)]
                o1 = P.prove_eq(term(a["x"]) + term(b["x"]), z3.RealVal(0))[0]
                o2 = P.prove_eq(term(a["t"]), term(b["t"]))[0]
                o3 = P.prove_eq(term(a["c"]), term(b["c"]))[0]
                with active(run.ctx):
                    o4 = P.prove_eq(term(a["t"] * a["c"]), term(run.params["kappa"]))[0]
                inst_ok = inst_ok and o1 and o2 and o3 and o4
            recs.append(field_rec(f"C07/{model}/_compute/any-team-size/sum-is-tied-pair-terms@{shape}", ok, "field", note[:300], t, fn, shape, rp))
            recs.append(field_rec(f"C07/{model}/_compute/any-team-size/vt-contract-instances@{shape}", inst_ok, "field",
                                  f"{len(tied)} tied pairs: x_qi = -x_iq, t_qi = t_iq = kappa/c_iq", time.time() - t0 - t, fn, shape, rp))
        if blocks == (1,) * n and gamma_mode == "default":
            with active(run.ctx):
                U = 0
                for i in range(n):
                    U = U + run.teams[i].sum_of(post[i][0][0] - run.prior[i][0][0])
            okc = P.prove_eq(term(U), z3.RealVal(0))[0]
            recs.append(driver.rec(f"C07/{model}/_compute/any-team-size/canary-unweighted-zero-sum@{shape}", "discharged" if okc else "refuted", "field", 0,
                                   kind="canary", fn=fn, shape=shape, replay=dict(rp, clause="canary")))
    return recs


# ------------------------------------------------------------------------------------------------
# the real rate() on teams of every size: validation, deep copy, tau inflation, sort by symbolic
# rank / score values (every weak order is a path), the real _compute, unsort, limit_sigma clamp.
# The clamp loop branches on each member's values: that path then speaks about the members that take
# that side (teams.py: split teams), which is all a member-wise obligation needs.
def _rate_paths(model, n, vec, limit, use_t, per_path):
    """explore rate() on n teams of symbolic size; per_path(ctx, info) emits records for one path"""
    from .. import extract, game, teams as T
    from ..symrt import KFLOAT, KINT, Ctx, call, explore
    S = T.scratch(model)
    tmf = game.stub_tm_real(S)
    game.stub_phi_real(S)
    ctx = Ctx("R", feas_timeout_ms=300)
    npaths = [0]

    def run(ctx):
        m, params = game.mk_model(ctx, S, limit_sigma=limit)
        ctx.assume(term(params["kappa"]) <= 1)
        ts = [T.SymTeam(ctx, S.rating_cls, i) for i in range(n)]
        ctx.team_heap = [m]
        prior = [[(t.g.mu, t.g.sigma)] for t in ts]
        model_before = dict(m.__dict__)
        kw, vals = {}, None
        if vec != "none":
            vals = [ctx.number(f"r{i}", kinds=(KINT, KFLOAT)) for i in range(n)]
            kw[vec] = list(vals)
        tau = params["tau"]
        if use_t:
            tau = ctx.real("t")
            ctx.assume(tau.t >= 0)
            kw["tau"] = tau
        out = call(m.rate, ts, **kw)
        npaths[0] += 1
        per_path(ctx, dict(m=m, params=params, teams=ts, prior=prior, out=out, tau=tau, vals=vals, tmf=tmf, path=npaths[0],
                           model_before=model_before, events=list(ctx.events)))
    explore(ctx, run, max_paths=400)
    return npaths[0]


def rate_units(prop, model, n, vec, limit, use_t):
    """records of `prop` in (C01, C02, C06) for the real rate() on n teams of every size"""
    from .. import field, game, teams as T
    from ..specs import weng_lin as WS
    from .c06 import _direct_sigma
    recs = []
    shape = f"n={n},{vec},limit_sigma={limit},tau={'per-call' if use_t else 'model'},team sizes arbitrary"
    fn = f"{model}.rate"
    scale = scale_of(model)

    def rp_for(kind):
        from . import c01
        rp = c01._std_replay(model, _replay_sizes(n), None, "default", scale, limit=limit)
        rp["kind"] = kind
        rp["vec"] = vec
        return rp

    def per_path(ctx, I):
        out, ts, prior = I["out"], I["teams"], I["prior"]
        tag = f"@{shape},path{I['path']}"
        T.guard(out)
        rows_ok = isinstance(out[1], list) and len(out[1]) == n and all(isinstance(r, (T.TeamView, T.SymTeam)) and r.root is t.root for r, t in zip(out[1], ts))
        if prop == "C02":
            recs.append(driver.rec(f"C02/{model}/rate/any-team-size/result-i-lists-the-members-of-teams-i{tag}", "discharged" if rows_ok else "refuted", "explorer", 0,
                                   fn=fn, shape=shape, mode="R", replay=None if rows_ok else rp_for("c02_shape"),
                                   note="" if rows_ok else "a result row is not the member sequence of the team passed at that position"))
            same = set(I["m"].__dict__) == set(I["model_before"]) and all(game.same_value(I["m"].__dict__[k], v) is True for k, v in I["model_before"].items())
            recs.append(driver.rec(f"C02/{model}/rate/any-team-size/model-not-written{tag}", "discharged" if same else "refuted", "explorer", 0,
                                   fn=fn, shape=shape, mode="R", replay=None if same else rp_for("c02_shape")))
            return
        if not rows_ok:
            recs.append(driver.rec(f"{prop}/{model}/rate/any-team-size/returns{tag}", "refuted", "explorer", 0, fn=fn, shape=shape,
                                   note="result rows are not the teams passed", replay=rp_for("c01_rate")))
            return
        if not any(ev[0] == "fold" for ev in I["events"]) or not any(ev[0] == "team-sum" for ev in I["events"]):
            raise UncutLoop("the execution met no per-member loop / no aggregate over a team")
        P = field.Prover(ctx.hyps(), list(ctx.facts.values()), timeout_ms=5000)
        tau = I["tau"]
        X = game.SymX(I["tmf"])
        t0 = time.time()
        if prop == "C06":
            bad = []
            for i in range(n):
                F, sg0 = out[1][i].g.sigma, prior[i][0][1]
                infl = X.sqrt(sg0 * sg0 + tau * tau)
                if limit and (F is sg0 or z3.eq(term(F), term(sg0))):
                    continue                    # clamped to the prior itself
                ok = (P.prove_ge_poly(P.N.norm(term(F)), strict=True)[0] == "discharged") if limit else _direct_sigma(P, term(F), term(infl))
                if ok and limit:
                    from ..tactics import check_sat
                    ok = check_sat([h for h in ctx.pc] + [z3.Not(term(F) <= term(sg0))], timeout_ms=3000, use_cvc5=False, nlsat=False)[0] == "unsat"
                if not ok:
                    bad.append(i)
            nm = "limit" if limit else "tau-bound"
            recs.append(driver.rec(f"C06/{model}/rate/any-team-size/{nm}{tag}", "discharged" if not bad else "open", "field-sign+z3", time.time() - t0,
                                   fn=fn, shape=shape, mode="R", note=f"failed for the arbitrary member of teams {bad}" if bad else "",
                                   replay=None if not bad else rp_for("c06_sigma")))
            return
        # C01: equals the property's description of rate() on the aggregates
        vals = I["vals"]
        spec = WS.rate_spec(model, prior, list(vals) if vec == "ranks" else None, list(vals) if vec == "scores" else None,
                            I["params"]["beta"], I["params"]["kappa"], tau, limit, X, pair_scale=scale,
                            agg=([t.theta for t in ts], [t.s for t in ts]), sizes=[T.t_len(t) for t in ts])
        okm = oks = True
        notes = []
        for i in range(n):
            o, be, note, t = P.prove_eq(term(out[1][i].g.mu), term(spec[i][0][0]))
            if not o:
                okm = False
                notes.append(f"mu[{i}] {note}")
            o, be, note, t = P.prove_eq(term(out[1][i].g.sigma), term(spec[i][0][1]))
            if not o:
                oks = False
                notes.append(f"sigma[{i}] {note}")
        dt = time.time() - t0
        rp = None
        if not (okm and oks):
            from ..tactics import check_sat, model_to_dict
            from .util import enc_model
            r, _, mdl, _ = check_sat(ctx.hyps(), timeout_ms=5000, use_cvc5=False, nlsat=False)
            md = model_to_dict(mdl) if mdl is not None else {}
            rp = rp_for("c01_rate")
            if vals is not None:
                rp[vec] = [enc_model(md, f"r{i}") for i in range(n)]
            if use_t:
                rp["t"] = enc_model(md, "t", KFLOAT) if "t" in md else {"v": [1, 2], "k": "float"}
        recs.append(field_rec(f"C01/{model}/rate/any-team-size/mu{tag}", okm, "field", "; ".join(notes)[:300], dt / 2, fn, shape, rp))
        recs.append(field_rec(f"C01/{model}/rate/any-team-size/sigma{tag}", oks, "field", "; ".join(notes)[:300], dt / 2, fn, shape, rp))
    try:
        npaths = _rate_paths(model, n, vec, limit, use_t, per_path)
    except UncutLoop as e:
        return [driver.rec(f"{prop}/{model}/rate/any-team-size/unbounded-proof@{shape}", "note", "explorer", 0, kind="note", fn=fn, shape=shape,
                           note=f"not attempted: {e}")]
    if not recs:
        recs.append(driver.rec(f"{prop}/{model}/rate/any-team-size/unbounded-proof@{shape}", "note", "explorer", 0, kind="note", fn=fn, shape=shape,
                               note=f"not attempted: no path of rate() produced an obligation ({npaths} paths)"))
    return recs
