"""Obligations on the real _compute for teams of *every* size (pyvc/teams.py, computil.GenericRun).

The number of teams n and the tie pattern are still a listed shape; the number of members of
each team is a symbol L_i >= 1.  `_calculate_team_ratings` and the per-member loop of `_compute`
are executed once for an arbitrary member under the map/fold rule; the team aggregates are the
symbols theta_i = sum mu, s_i = sum sigma^2 (A-sum: linearity of finite sums, a sum of
non-negative addends dominates each addend).  Used by C01, C02, C05, C06, C07.

If a loop over a team is outside the rule (`UncutLoop`), the unit returns one record of kind
`note` ("not attempted"): the obligations for the listed team sizes still decide, the exit code
is unaffected."""
from __future__ import annotations

import time

import z3

from .. import driver, signs
from ..symrt import EngineError, UncutLoop, active, term
from .computil import GenericRun, compositions, field_rec, ge_rec, link, ranks_of, scale_of

A_SUM = ("A-sum: for the for-every-team-size obligations the team aggregates are symbols theta_i = sum_k mu_k, s_i = sum_k sigma_k^2 with "
         "linearity of finite sums and 'a sum of non-negative addends dominates each addend' (machine-checked against Mathlib in lemmas/Axioms.lean: "
         "Finset.mul_sum, Finset.sum_add_distrib, Finset.single_le_sum); the map/fold rule of pyvc/teams.py (a loop body that writes only the current "
         "member from its own values and loop-invariant values acts member-wise; v += d(k) sums to v + sum_k d(k)) is a derived Hoare rule whose "
         "induction over the team size is a stated meta-argument, its side conditions are checked on every run")


def _replay(prop, model, n, ranks, gamma_mode, kind):
    from . import c01
    rp = c01._std_replay(model, (2,) * n, ranks, gamma_mode, scale_of(model))
    rp["kind"] = kind
    return rp


def _not_attempted(prop, model, shape, why):
    return driver.rec(f"{prop}/{model}/_compute/any-team-size/unbounded-proof@{shape}", "note", "explorer", 0, kind="note", fn=f"{model}._compute",
                      shape=shape, note=f"not attempted: {why}")


def _run(prop, model, n, blocks, gamma_mode):
    """(run, shape, records) - run is None when nothing more can be said for this shape"""
    ranks = ranks_of(blocks)
    shape = f"n={n},ties={blocks},gamma={gamma_mode},team sizes arbitrary"
    fn = f"{model}._compute"
    try:
        run = GenericRun(model, n, ranks, gamma_mode)
    except UncutLoop as e:
        return None, shape, [_not_attempted(prop, model, shape, str(e))]
    if not run.ok():
        if run.out[0] == "raise" and isinstance(run.out[1], (UncutLoop,)):
            return None, shape, [_not_attempted(prop, model, shape, str(run.out[1]))]
        return None, shape, [driver.rec(f"{prop}/{model}/_compute/any-team-size/returns@{shape}", "refuted", "explorer", 0, fn=fn, shape=shape,
                                        note=repr(run.out[1])[:200], replay=_replay(prop, model, n, ranks, gamma_mode, "c01_rate"))]
    if not any(ev[0] == "fold" for ev in run.events) or not any(ev[0] == "team-sum" for ev in run.events):
        # vacuity guard: the run must have gone through the rule (a per-member loop and the aggregates)
        return None, shape, [_not_attempted(prop, model, shape, "the execution met no per-member loop / no aggregate over a team")]
    return run, shape, []


def c01(model, n, gamma_mode):
    """mu, sigma of an arbitrary member of every team = the published update on the aggregates"""
    recs = []
    fn = f"{model}._compute"
    first = True
    for blocks in compositions(n):
        t0 = time.time()
        run, shape, r0 = _run("C01", model, n, blocks, gamma_mode)
        recs += r0
        if run is None:
            continue
        ranks = ranks_of(blocks)
        rp = _replay("C01", model, n, ranks, gamma_mode, "c01_rate")
        if first:
            ok, note = run.cross_check()
            recs.append(driver.rec(f"C01/{model}/_compute/any-team-size/engine-cross-check@{shape}", "discharged" if ok else "open", "cpython", time.time() - t0,
                                   kind="vacuity", fn=fn, shape=shape, note=note))
            first = False
        okm, notem, tm, *_ = link(run, which=("mu",))
        oks, notes, ts, *_ = link(run, which=("sigma",))
        recs.append(field_rec(f"C01/{model}/_compute/any-team-size/mu@{shape}", okm, "field", notem, tm, fn, shape, rp))
        recs.append(field_rec(f"C01/{model}/_compute/any-team-size/sigma@{shape}", oks, "field", notes, ts, fn, shape, rp))
        if blocks == (1,) * n and gamma_mode == "default":
            P = run.prover()
            ok = P.prove_eq(term(run.post()[0][0][0]), term(run.prior[0][0][0]))[0]
            recs.append(driver.rec(f"C01/{model}/_compute/any-team-size/canary-no-update@{shape}", "discharged" if ok else "refuted", "field", 0,
                                   kind="canary", fn=fn, shape=shape, replay=dict(rp, clause="canary")))
    return recs


def c02(model, n):
    """result[i] lists exactly the members of teams[i], in order, as the same objects; the model is not written"""
    from .. import game
    recs = []
    fn = f"{model}._compute"
    for blocks in compositions(n):
        run, shape, r0 = _run("C02", model, n, blocks, "default")
        recs += r0
        if run is None:
            continue
        rp = _replay("C02", model, n, ranks_of(blocks), "default", "c02_shape")
        ok = run.rows_are_the_teams()
        recs.append(driver.rec(f"C02/{model}/_compute/any-team-size/rows-are-the-input-teams@{shape}", "discharged" if ok else "refuted", "explorer", 0,
                               fn=fn, shape=shape, mode="R", replay=None if ok else rp,
                               note="" if ok else "a result row is not the member sequence of the team at that position"))
        same = set(run.m.__dict__) == set(run.model_before) and all(game.same_value(run.m.__dict__[k], v) is True for k, v in run.model_before.items())
        recs.append(driver.rec(f"C02/{model}/_compute/any-team-size/writes-only-member-mu-sigma@{shape}", "discharged" if same else "refuted", "explorer", 0,
                               fn=fn, shape=shape, mode="R", replay=None if same else rp))
    return recs


def c05(model, n):
    recs = []
    fn = f"{model}._compute"
    for blocks in compositions(n):
        run, shape, r0 = _run("C05", model, n, blocks, "default")
        recs += r0
        if run is None:
            continue
        ranks = ranks_of(blocks)
        rp = _replay("C05", model, n, ranks, "default", "c05_dir")
        ok, note, t, spec, det, P = link(run, which=("mu",))
        post = run.post()
        # same direction, proportional to own variance, for two arbitrary members k, k2 of a team:
        # (mu'_k - mu_k) sigma_k2^2 == (mu'_k2 - mu_k2) sigma_k^2
        t0 = time.time()
        okd = True
        if run.ctx.split_roots:
            recs.append(_not_attempted("C05", model, shape, "the per-member loop branches on a member's values: two members need not share one result term"))
        for i in ([] if run.ctx.split_roots else range(n)):
            sub = run.second_member(i)
            with active(run.ctx):
                dk = term(post[i][0][0] - run.prior[i][0][0])
                sgk = term(run.prior[i][0][1])
            dk2, sgk2 = z3.substitute(dk, *sub), z3.substitute(sgk, *sub)
            P2 = run.prover()
            okd = okd and P2.prove_eq(dk * sgk2 * sgk2, dk2 * sgk * sgk)[0]
        if not run.ctx.split_roots:
            recs.append(field_rec(f"C05/{model}/_compute/any-team-size/same-direction@{shape}", okd, "field", "", time.time() - t0, fn, shape, rp))
        P = run.prover()
        SP = signs.SignProver(run.hyps, run.facts)

        def alone(i, want, nm):
            t0 = time.time()
            if ok and SP.prove(term(det["omega"][i]), want):
                return driver.rec(f"C05/{model}/_compute/any-team-size/{nm}@{shape}", "discharged", "field+split+z3", time.time() - t0, fn=fn, shape=shape, mode="R")
            with active(run.ctx):
                d = term(post[i][0][0] - run.prior[i][0][0])
            res = P.prove_ge(d, z3.RealVal(0)) if want == "ge" else P.prove_ge(z3.RealVal(0), d)
            return ge_rec(f"C05/{model}/_compute/any-team-size/{nm}@{shape}", res, fn, shape, rp)
        if blocks[0] == 1:
            recs.append(alone(0, "ge", "first-alone"))
        if blocks[-1] == 1:
            recs.append(alone(n - 1, "le", "last-alone"))
            if blocks == (1,) * n and ok:
                wrong = SP.prove(term(det["omega"][n - 1]), "gt")
                recs.append(driver.rec(f"C05/{model}/_compute/any-team-size/canary-last-gains@{shape}", "discharged" if wrong else "refuted", "split+z3", 0,
                                       kind="canary", fn=fn, shape=shape, replay=dict(rp, clause="canary")))
    return recs


def c06(model, n, gamma_mode):
    from .c06 import _direct_sigma
    recs = []
    fn = f"{model}._compute"
    for blocks in compositions(n):
        run, shape, r0 = _run("C06", model, n, blocks, gamma_mode)
        recs += r0
        if run is None:
            continue
        rp = _replay("C06", model, n, ranks_of(blocks), gamma_mode, "c06_sigma")
        P = run.prover(timeout_ms=5000)
        t0 = time.time()
        post = run.post()
        bad = [i for i in range(n) if not _direct_sigma(P, term(post[i][0][1]), term(run.prior[i][0][1]))]
        recs.append(driver.rec(f"C06/{model}/_compute/any-team-size/sigma-in-(0,prior]@{shape}", "discharged" if not bad else "open", "field-sign+z3", time.time() - t0,
                               fn=fn, shape=shape, mode="R", note=f"failed for the arbitrary member of teams {bad}" if bad else "", replay=None if not bad else rp))
        if blocks == (1,) * n and gamma_mode == "default":
            with active(run.ctx):
                half = term(run.prior[0][0][1] * 0.5)
            wrong = _direct_sigma(P, term(post[0][0][1]), half)
            recs.append(driver.rec(f"C06/{model}/_compute/any-team-size/canary-sigma-halves@{shape}", "discharged" if wrong else "refuted", "field-sign+z3", 0,
                                   kind="canary", fn=fn, shape=shape, replay=dict(rp, clause="canary")))
    return recs


def c07(model, n, gamma_mode):
    recs = []
    fn = f"{model}._compute"
    tm = model.startswith("Thurstone")
    for blocks in compositions(n):
        run, shape, r0 = _run("C07", model, n, blocks, gamma_mode)
        recs += r0
        if run is None:
            continue
        rp = _replay("C07", model, n, ranks_of(blocks), gamma_mode, "c07_zero")
        rp["twins"] = False
        post = run.post()
        try:
            with active(run.ctx):
                T = 0
                for i in range(n):
                    # sum over *all* members of team i of the mu change: closed by linearity (the
                    # decomposition d = A + B mu_k + C sigma_k^2 is itself proved by the field prover)
                    total = run.teams[i].sum_of(post[i][0][0] - run.prior[i][0][0])
                    T = T + total / run.teams[i].s
        except UncutLoop as e:
            # the member-wise change is not of a form the linearity rule closes (or the members took
            # different branches): the for-every-size proof is not attempted, the listed sizes decide
            recs.append(_not_attempted("C07", model, shape, str(e)[:200]))
            continue
        run.hyps = list(run.rec.pc) + list(run._assumptions())
        P = run.prover()
        if not tm:
            ok, be, note, t = P.prove_eq(term(T), z3.RealVal(0))
            recs.append(field_rec(f"C07/{model}/_compute/any-team-size/zero-sum@{shape}", ok, "field", note[:300], t, fn, shape, rp))
        else:
            det = {}
            run.spec(pair_scale=scale_of(model), details=det)
            tied = [(i, q) for (i, q), d in det["pairs"].items() if d["kind"] == "tie" and i < q and (q, i) in det["pairs"]]
            with active(run.ctx):
                E = 0
                for (i, q) in tied:
                    a, b = det["pairs"][(i, q)], det["pairs"][(q, i)]
                    E = E + (a["v"] + b["v"]) / a["c"]
            t0 = time.time()
            ok, be, note, t = P.prove_eq(term(T), term(E) if not isinstance(E, int) else z3.RealVal(0))
            inst_ok = True
            for (i, q) in tied:
                a, b = det["pairs"][(i, q)], det["pairs"][(q, i)]
                o1 = P.prove_eq(term(a["x"]) + term(b["x"]), z3.RealVal(0))[0]
                o2 = P.prove_eq(term(a["t"]), term(b["t"]))[0]
                o3 = P.prove_eq(term(a["c"]), term(b["c"]))[0]
                with active(run.ctx):
                    o4 = P.prove_eq(term(a["t"] * a["c"]), term(run.params["kappa"]))[0]
                inst_ok = inst_ok and o1 and o2 and o3 and o4
            recs.append(field_rec(f"C07/{model}/_compute/any-team-size/sum-is-tied-pair-terms@{shape}", ok, "field", note[:300], t, fn, shape, rp))
            recs.append(field_rec(f"C07/{model}/_compute/any-team-size/vt-contract-instances@{shape}", inst_ok, "field",
                                  f"{len(tied)} tied pairs: x_qi = -x_iq, t_qi = t_iq = kappa/c_iq", time.time() - t0 - t, fn, shape, rp))
        if blocks == (1,) * n and gamma_mode == "default":
            with active(run.ctx):
                U = 0
                for i in range(n):
                    U = U + run.teams[i].sum_of(post[i][0][0] - run.prior[i][0][0])
            okc = P.prove_eq(term(U), z3.RealVal(0))[0]
            recs.append(driver.rec(f"C07/{model}/_compute/any-team-size/canary-unweighted-zero-sum@{shape}", "discharged" if okc else "refuted", "field", 0,
                                   kind="canary", fn=fn, shape=shape, replay=dict(rp, clause="canary")))
    return recs
