"""C17 - the Gaussian correction functions V, W, V~, W~ are accurate and stay in range.

R-mode (all loop-free: every obligation is for all finite x and t in [1e-8, 1e-2]):
  the real v, w, vt, wt are executed with phi_major / phi_minor replaced by their
  contracts (Phi, phi under A-Phi, anchored by the tabulated enclosures A-tab):
  branch conditions, returned expressions (exact identity with V, W, V~, W~ written
  from the paper), documented asymptotes, v > 0, w, wt in [0, 1], oddness of vt up to
  2t, and the relational contract clauses of v / vt that C05 and C07 assume.
E-mode:
  the real phi_major / phi_minor, with NormalDist.cdf / pdf extracted from the test
  interpreter's statistics.py, are executed on (value, relative-error-bound) proxies;
  the propagated bound must stay <= 1e-12 on [-37.5, 38].
NOT decided: 'vt within 2t of V~', 'wt within 20t + 1e-13/t of W~' on the asymptotic
branches and the '2 %' constants beyond what A-Mills gives (analytic remainders)."""
from __future__ import annotations

import fractions
import math
import sys
import time

import z3

from .. import driver, emode, extract, field, game, tactics
from ..symrt import Ctx, KFLOAT, SymNum, active, call, cur, explore, term
from .util import enc_model, settle
from .c18 import _merge_canaries

PROP = "C17"
EPS = sys.float_info.epsilon
T_LO, T_HI = fractions.Fraction(1, 10 ** 8), fractions.Fraction(1, 100)
from ..symrt import realval
F1E5 = realval(1e-5)          # the double the code compares with

# A-tab: rational enclosures, re-checked against the 50-digit reference on every run
PHI_ANCHORS = {
    "-8.13": ("<", "2.2e-16"),       # Phi(-8.13) < eps = 2.220446e-16
    "-8.2": ("<", "1.3e-16"),        # well under eps: used by the accuracy obligations of v, w
    "-8.12": (">", "2.3e-16"),       # Phi(-8.12) > eps
    "-8.11": (">", "2.5e-16"),
    "-4.2": ("<", "1.4e-5"),         # used by the 1e-5 guard of vt
    "-4.3": ("<", "1e-5"),
    "0": ("=", "0.5"),
}
ERF_ANCHORS = {"-3.5": ("<", "-0.99999925"), "-4": ("<", "-0.99999998"), "-5.5": ("<", "-0.99999999999999")}


def unit_tab():
    """numeric re-check of A-tab (a sanity check of assumptions, reported as such)"""
    from .. import hiprec as H
    from decimal import Decimal as D
    bad = []
    for a, (op, b) in PHI_ANCHORS.items():
        v = H.Phi(D(a))
        ok = (v < D(b)) if op == "<" else (v > D(b)) if op == ">" else abs(v - D(b)) < D("1e-40")
        if not ok:
            bad.append(("Phi", a, op, b))
    for a, (op, b) in ERF_ANCHORS.items():
        v = 1 - H.erfc(D(a))
        if not (v < D(b)):
            bad.append(("erf", a, op, b))
    if not (D(2) ** -52 == D(EPS)):
        bad.append(("eps",))
    return [driver.rec("C17/A-tab/numeric-recheck", "discharged" if not bad else "open", "decimal-50-digits", 0, kind="vacuity",
                       fn="A-tab", note=str(bad) if bad else f"{len(PHI_ANCHORS) + len(ERF_ANCHORS)} enclosures confirmed")]


class GaussWorld:
    """scratch weng_lin/common with phi_major / phi_minor bound to their contracts,
    anchored by A-tab and monotonicity instances"""

    def __init__(self):
        self.wl = extract.load(extract.WL_COMMON)
        self.wl["_matrix_transpose"] = extract.load(extract.COMMON)["_matrix_transpose"]
        self.wl["phi_major"] = self.phi_major
        self.wl["phi_minor"] = self.phi_minor
        self.phis = []

    def anchors(self):
        c = cur()
        out = []
        for a, (op, b) in PHI_ANCHORS.items():
            app = z3.Function("Phi", z3.RealSort(), z3.RealSort())(z3.RealVal(a))
            bv = z3.RealVal(b)
            out.append((z3.RealVal(a), app))
            c.fact(("tab", app), {"<": app < bv, ">": app > bv, "=": app == bv}[op], "sign", app)
        return out

    def phi_major(self, x):
        c = cur()
        r = c.alg.fn("Phi", SymNum.lift(x))
        xs = term(x)
        # A-Phi monotonicity instances against the anchors and earlier applications
        for (a, app) in self.anchors():
            c.fact(("mono-lo", z3.Function("m", z3.RealSort(), z3.RealSort(), z3.RealSort())(r.t, app)),
                   z3.And(z3.Implies(xs <= a, r.t <= app), z3.Implies(xs >= a, r.t >= app)), "sign", r.t)
        for (ys, q) in list(self.phis):
            if not z3.eq(q, r.t):
                c.fact(("mono", z3.Function("m", z3.RealSort(), z3.RealSort(), z3.RealSort())(r.t, q)),
                       z3.And(z3.Implies(xs <= ys, r.t <= q), z3.Implies(xs >= ys, r.t >= q),
                              z3.Implies(xs < ys, r.t < q)), "sign", r.t)
        self.phis.append((xs, r.t))
        return r

    def phi_minor(self, x):
        return cur().alg.fn("phi", SymNum.lift(x))

    def inputs(self, ctx, tag=""):
        x = ctx.real(f"x{tag}")
        t = ctx.real(f"t{tag}")
        ctx.assume(z3.And(t.t >= z3.RealVal(str(T_LO)), t.t <= z3.RealVal(str(T_HI))))
        return x, t


def Phi_(y):
    return z3.Function("Phi", z3.RealSort(), z3.RealSort())(y)


def phi_(y):
    return z3.Function("phi", z3.RealSort(), z3.RealSort())(y)


def mills(y):
    """A-Mills instances for V(y) = phi(y)/Phi(y):  V > 0, V + y > 0, and for y < 0: V <= -y + 1/(-y);
    W(y) = V(V+y) in (0, 1)"""
    V = phi_(y) / Phi_(y)
    return [V > 0, V + y > 0, z3.Implies(y < 0, V <= -y - 1 / y), V * (V + y) > 0, V * (V + y) < 1]


def rp_fn(fn, clause=None, **kw):
    def mk(md):
        d = {"kind": "c17_fn", "fn": fn, "x": enc_model(md, "x", KFLOAT), "t": enc_model(md, "t", KFLOAT), "clause": clause}
        d.update(kw)
        return d
    return mk


def unit_v():
    G = GaussWorld()
    ctx = Ctx("R", feas_timeout_ms=2000)
    paths = {"guard": 0, "exact": 0}

    def run(ctx):
        x, t = G.inputs(ctx)
        del G.phis[:]
        out = call(G.wl["v"], x, t)
        y = x.t - t.t
        meta = {"replay": rp_fn("v"), "fn": "v", "unbounded": True}
        if out[0] != "return":
            ctx.oblige("C17/v/returns", False, meta=meta)
            return
        r = term(out[1])
        guard = ctx.decide(Phi_(y) < z3.RealVal(str(fractions.Fraction(EPS))))
        for m in mills(y):
            ctx.assume(m)
        if guard:
            paths["guard"] += 1
            ctx.oblige("C17/v/guard-branch/returns-asymptote", r == -y, meta=meta)
            ctx.oblige("C17/v/guard-branch/only-in-the-tail", y < z3.RealVal("-8.12"), meta=meta)
            V = phi_(y) / Phi_(y)
            ctx.oblige("C17/v/guard-branch/within-2-percent-of-V", z3.And(r <= V, V - r <= z3.RealVal("0.02") * V), meta=meta)
        else:
            paths["exact"] += 1
            P = field.Prover(ctx.hyps(), list(ctx.facts.values()))
            ok = P.prove_eq(r, phi_(y) / Phi_(y))[0]
            ctx.oblige("C17/v/exact-branch/equals-phi-over-Phi", ok, meta=meta)
            ctx.oblige("C17/v/exact-branch/denominator-at-least-eps", Phi_(y) >= z3.RealVal(str(fractions.Fraction(EPS))), meta=meta)
            ctx.oblige("C17/v/exact-branch/taken-above-the-tail", y > z3.RealVal("-8.13"), meta=meta)
        ctx.oblige("C17/v/positive", r > 0, meta=meta)
        ctx.oblige("C17/v/canary-bounded-by-1", r <= 1, kind="canary", meta={"replay": rp_fn("v", "canary"), "fn": "v"})
    explore(ctx, run)
    recs = _merge_canaries(settle(ctx.all_obls, mode="R", unbounded=True))
    if not all(paths.values()):
        recs.append(driver.rec("C17/v/both-branches-reachable", "open", "explorer", 0, kind="vacuity", note=str(paths)))
    return recs


def unit_w():
    G = GaussWorld()
    ctx = Ctx("R", feas_timeout_ms=2000)
    paths = {"guard": 0, "exact": 0}

    def run(ctx):
        x, t = G.inputs(ctx)
        del G.phis[:]
        out = call(G.wl["w"], x, t)
        y = x.t - t.t
        meta = {"replay": rp_fn("w"), "fn": "w", "unbounded": True}
        if out[0] != "return":
            ctx.oblige("C17/w/returns", False, meta=meta)
            return
        r = term(out[1])
        guard = ctx.decide(Phi_(y) < z3.RealVal(str(fractions.Fraction(EPS))))
        for m in mills(y):
            ctx.assume(m)
        if guard:
            paths["guard"] += 1
            ctx.oblige("C17/w/guard-branch/returns-1", r == 1, meta=meta)
            ctx.oblige("C17/w/guard-branch/only-in-the-tail", y < z3.RealVal("-8.12"), meta=meta)
            # 'within 2 percent of W' on the asymptotic branch: W = V (V + y) with the Mills-ratio
            # instance  V(y) >= z + (z^3 + 7 z)/(z^4 + 9 z^2 + 8),  z = -y  (fifth convergent of the
            # continued fraction of the Mills ratio; numerically re-checked each run)
            V = z3.Real("Vw")
            z = -y
            ctx.assume(V == phi_(y) / Phi_(y))
            ctx.assume(z3.Implies(y < 0, V >= z + (z * z * z + 7 * z) / (z * z * z * z + 9 * z * z + 8)))
            W = V * (V + y)
            ctx.oblige("C17/w/guard-branch/within-2-percent-of-W", z3.And(W <= r, r - W <= z3.RealVal("0.02") * W), meta=meta)
        else:
            paths["exact"] += 1
            P = field.Prover(ctx.hyps(), list(ctx.facts.values()))
            V = phi_(y) / Phi_(y)
            ok = P.prove_eq(r, V * (V + y))[0]
            ctx.oblige("C17/w/exact-branch/equals-V(V+y)", ok, meta=meta)
        ctx.oblige("C17/w/range", z3.And(r >= 0, r <= 1), meta=meta)
        ctx.oblige("C17/w/canary-below-half", r <= z3.RealVal("1/2"), kind="canary", meta={"replay": rp_fn("w", "canary"), "fn": "w"})
    explore(ctx, run)
    recs = _merge_canaries(settle(ctx.all_obls, mode="R", unbounded=True))
    if not all(paths.values()):
        recs.append(driver.rec("C17/w/both-branches-reachable", "open", "explorer", 0, kind="vacuity", note=str(paths)))
    return recs


def Vt_spec(x, t):
    """V~ as in the paper, for any x"""
    return (phi_(-t - x) - phi_(t - x)) / (Phi_(t - x) - Phi_(-t - x))


def Wt_spec(x, t):
    b = Phi_(t - x) - Phi_(-t - x)
    vt = Vt_spec(x, t)
    return ((t - x) * phi_(t - x) + (t + x) * phi_(-t - x)) / b + vt * vt


def unit_vt():
    G = GaussWorld()
    ctx = Ctx("R", feas_timeout_ms=2000)
    paths = {"asym": 0, "exact": 0}

    def run(ctx):
        x, t = G.inputs(ctx)
        del G.phis[:]
        out = call(G.wl["vt"], x, t)
        meta = {"replay": rp_fn("vt"), "fn": "vt", "unbounded": True}
        if out[0] != "return":
            ctx.oblige("C17/vt/returns", False, meta=meta)
            return
        r = term(out[1])
        ax = z3.If(x.t >= 0, x.t, -x.t)
        b = Phi_(t.t - ax) - Phi_(-t.t - ax)
        asym = ctx.decide(b < F1E5)
        neg = ctx.decide(x.t < 0)
        if asym:
            paths["asym"] += 1
            ctx.oblige("C17/vt/asymptote/returns-documented-form", r == (-x.t - t.t if neg else -x.t + t.t), meta=meta)
            # relational contract clauses on this branch are linear
            ctx.oblige("C17/vt/contract/upper-for-x>=0", z3.Implies(x.t >= 0, r <= t.t), meta=meta)
            ctx.oblige("C17/vt/contract/lower-for-x<=0", z3.Implies(x.t <= 0, r >= -t.t), meta=meta)
            ctx.oblige("C17/vt/contract/bounded-by-|x|+t", z3.And(r <= ax + t.t, r >= -ax - t.t), meta=meta)
            # 'within 2t of V~' on this branch: V~(x,t) = (phi(a) - phi(b))/(Phi(b) - Phi(a)), a = -t-x,
            # b = t-x, is the mean of a standard normal conditioned on [a, b] (phi' = -z phi), hence
            # lies in [a, b] (A-cond-mean); the asymptote is an end point of that interval
            Vt = z3.Real("Vt_exact")
            ctx.assume(Vt == Vt_spec(x.t, t.t))
            ctx.assume(z3.And(Vt >= -t.t - x.t, Vt <= t.t - x.t))
            ctx.oblige("C17/vt/asymptote/within-2t-of-V~", z3.And(r - Vt <= 2 * t.t, Vt - r <= 2 * t.t), meta=meta)
        else:
            paths["exact"] += 1
            P = field.Prover(ctx.hyps(), list(ctx.facts.values()))
            ok = P.prove_eq(r, Vt_spec(x.t, t.t))[0]
            ctx.oblige("C17/vt/exact-branch/equals-V~", ok, meta=meta)
            ctx.oblige("C17/vt/exact-branch/denominator-at-least-1e-5", b >= F1E5, meta=meta)
        ctx.oblige("C17/vt/canary-nonneg", r >= 0, kind="canary", meta={"replay": rp_fn("vt", "canary"), "fn": "vt"})
    explore(ctx, run)
    recs = _merge_canaries(settle(ctx.all_obls, mode="R", unbounded=True))

    # ---- oddness up to 2t: two executions, at x and at -x
    ctx = Ctx("R", feas_timeout_ms=2000)

    def run2(ctx):
        x, t = G.inputs(ctx)
        del G.phis[:]
        o1 = call(G.wl["vt"], x, t)
        o2 = call(G.wl["vt"], -x, t)
        meta = {"replay": rp_fn("vt", "odd"), "fn": "vt", "unbounded": True}
        if o1[0] != "return" or o2[0] != "return":
            ctx.oblige("C17/vt/odd-up-to-2t", False, meta=meta)
            return
        s = term(o1[1]) + term(o2[1])
        P = field.Prover(ctx.hyps(), list(ctx.facts.values()))
        res = P.prove_ge(2 * t.t, s)
        res2 = P.prove_ge(s, -2 * t.t)
        ok = res[0] == "discharged" and res2[0] == "discharged"
        ctx.oblige("C17/vt/odd-up-to-2t", ok, meta=meta)
    explore(ctx, run2)
    recs += settle(ctx.all_obls, mode="R", unbounded=True)
    if not all(paths.values()):
        recs.append(driver.rec("C17/vt/both-branches-reachable", "open", "explorer", 0, kind="vacuity", note=str(paths)))
    return recs


def unit_wt():
    G = GaussWorld()
    ctx = Ctx("R", feas_timeout_ms=2000)
    paths = {"guard": 0, "exact": 0}

    def run(ctx):
        x, t = G.inputs(ctx)
        del G.phis[:]
        out = call(G.wl["wt"], x, t)
        meta = {"replay": rp_fn("wt"), "fn": "wt", "unbounded": True}
        if out[0] != "return":
            ctx.oblige("C17/wt/returns", False, meta=meta)
            return
        r = term(out[1])
        ax = z3.If(x.t >= 0, x.t, -x.t)
        b = Phi_(t.t - ax) - Phi_(-t.t - ax)
        guard = ctx.decide(b < z3.RealVal(str(fractions.Fraction(EPS))))
        if guard:
            paths["guard"] += 1
            ctx.oblige("C17/wt/guard-branch/returns-1", r == 1, meta=meta)
            ctx.oblige("C17/wt/range", z3.And(r >= 0, r <= 1), meta=meta)
        else:
            paths["exact"] += 1
            # only the sub-path on which the inner vt calls take their exact branch is the exact W~
            inner_exact = ctx.decide(b >= F1E5)
            if inner_exact:
                P = field.Prover(ctx.hyps(), list(ctx.facts.values()))
                ok = P.prove_eq(r, Wt_spec(x.t, t.t))[0]
                ctx.oblige("C17/wt/exact-branch/equals-W~", ok, meta=meta)
                # A-Mills: 0 < W~ <= 1
                W = Wt_spec(x.t, t.t)
                ctx.assume(z3.And(W > 0, W <= 1))
                if ok:
                    ctx.assume(r == W)      # established by the exact normal-form identity above
                ctx.oblige("C17/wt/range", z3.And(r >= 0, r <= 1) if ok else False, meta=meta)
            else:
                # eps <= b < 1e-5: the inner vt calls return their asymptote.  The documented form of
                # this branch is the exact first term plus the square of the documented asymptote of
                # vt, |x| - t in magnitude; its range and accuracy there are numerical (hi-precision
                # replay), the *form* is pinned here so that a change of either function shows.
                paths["middle"] = paths.get("middle", 0) + 1
                first = ((t.t - ax) * phi_(t.t - ax) + (t.t + ax) * phi_(-t.t - ax)) / b
                P = field.Prover(ctx.hyps(), list(ctx.facts.values()))
                ok = P.prove_eq(r, first + (ax - t.t) * (ax - t.t))[0]
                ctx.oblige("C17/wt/middle-branch/returns-documented-form", ok, meta=meta)
    explore(ctx, run)
    recs = settle(ctx.all_obls, mode="R", unbounded=True)
    if not all(paths.values()):
        recs.append(driver.rec("C17/wt/both-branches-reachable", "open", "explorer", 0, kind="vacuity", note=str(paths)))
    return recs


def unit_contract_v_vt():
    """the relational clauses of the v / vt contracts that C05 assumes, on the branches where
    they are consequences of the code (asymptote / guard); on the exact branches they are the
    assumed A-Mills inequalities  -V(-x-t) <= V~(x,t) <= V(x-t)  themselves"""
    G = GaussWorld()
    ctx = Ctx("R", feas_timeout_ms=2000)

    def run(ctx):
        x, t = G.inputs(ctx)
        del G.phis[:]
        ov = call(G.wl["v"], x, t)
        ovt = call(G.wl["vt"], x, t)
        ovm = call(G.wl["v"], -x, t)
        meta = {"replay": rp_fn("vt", "order"), "fn": "v,vt", "unbounded": True}
        if ov[0] != "return" or ovt[0] != "return" or ovm[0] != "return":
            ctx.oblige("C17/contract/v>=vt>=-v(-x)", False, meta=meta)
            return
        y1, y2 = x.t - t.t, -x.t - t.t
        for y in (y1, y2):
            for m in mills(y):
                ctx.assume(m)
        ax = z3.If(x.t >= 0, x.t, -x.t)
        b = Phi_(t.t - ax) - Phi_(-t.t - ax)
        if not ctx.decide(b < F1E5):
            # exact V~: assumed A-Mills  -V(-x-t) <= V~(x,t) <= V(x-t)
            Vt = Vt_spec(x.t, t.t)
            ctx.assume(z3.And(Vt <= phi_(y1) / Phi_(y1), Vt >= -(phi_(y2) / Phi_(y2))))
            P = field.Prover(ctx.hyps(), list(ctx.facts.values()))
            if not P.prove_eq(term(ovt[1]), Vt)[0]:
                ctx.oblige("C17/contract/v>=vt>=-v(-x)", False, meta=meta)
                return
            ctx.assume(term(ovt[1]) == Vt)
        ctx.oblige("C17/contract/v>=vt", term(ov[1]) >= term(ovt[1]), meta=meta)
        ctx.oblige("C17/contract/vt>=-v(-x)", term(ovt[1]) >= -term(ovm[1]), meta=meta)
    explore(ctx, run)
    return settle(ctx.all_obls, mode="R", unbounded=True, timeout_ms=30000)


def unit_emode(fn):
    """relative-error bound of the real phi_major / phi_minor"""
    E = emode
    ns, path = E.extract_normaldist({"erf": E.e_erf, "exp": E.e_exp, "sqrt": E.e_sqrt, "tau": math.tau, "_SQRT2": E.ENum(E.SQRT2, E.U),
                                     "fabs": abs, "log": None, "hypot": None, "float": float, "isinstance": isinstance})
    wl = extract.load(extract.WL_COMMON, sym=False, rebind={"math": E.EMath()})
    wl["_normal"] = ns["NormalDist"]()
    x = z3.Real("x")
    t0 = time.time()
    res = wl[fn](E.ENum(x, z3.RealVal(0)))
    if not isinstance(res, E.ENum):
        return [driver.rec(f"C17/{fn}/relative-error", "open", "emode", 0, fn=fn, note=f"returned {res!r}")]
    hyps = [x >= z3.RealVal("-37.5"), x <= 38] + E.SQRT2_FACTS
    # value facts for the libm applications that occur in the bound (A-erf, A-tab, monotonicity)
    erf = z3.Function("erf", z3.RealSort(), z3.RealSort())
    seen = set()
    stack = [res.err]
    while stack:
        e = stack.pop()
        if e.get_id() in seen:
            continue
        seen.add(e.get_id())
        if z3.is_app(e) and e.decl().name() == "erf" and e.num_args() == 1:
            a = e.arg(0)
            hyps.append(z3.And(e > -1, e < 1))
            for anc, (op, b) in ERF_ANCHORS.items():
                av = z3.RealVal(anc)
                hyps.append(erf(av) < z3.RealVal(b))
                hyps.append(z3.Implies(a <= av, e <= erf(av)))
        if z3.is_app(e) and e.decl().name() == "exp" and e.num_args() == 1:
            hyps.append(e > 0)
        stack.extend(e.children())
    bound = z3.RealVal("1e-12")
    r, be, m, why = tactics.check_sat(hyps + [z3.Not(res.err <= bound)], timeout_ms=30000)
    verdict = "discharged" if r == "unsat" else ("refuted" if r == "sat" else "open")
    rp = None
    if verdict != "discharged":
        md = tactics.model_to_dict(m) if m is not None else {}
        rp = {"kind": "c17_cdf", "fn": fn, "x": enc_model(md, "x", KFLOAT), "bound": 1e-12}
    recs = [driver.rec(f"C17/{fn}/relative-error<=1e-12", verdict, be, time.time() - t0, fn=fn, mode="E", unbounded=True, replay=rp,
                       note=(why or "") + f"; body extracted from {path}")]
    # canary: a bound of 1e-17 cannot hold (below the unit roundoff)
    r2, be2, m2, _ = tactics.check_sat(hyps + [z3.Not(res.err <= z3.RealVal("1e-17"))], timeout_ms=10000)
    recs.append(driver.rec(f"C17/{fn}/canary-relative-error<=1e-17", "refuted" if r2 == "sat" else "discharged", be2, 0, kind="canary", fn=fn,
                           replay={"kind": "c17_cdf", "fn": fn, "x": {"v": [-1, 1], "k": "float"}, "bound": 1e-17, "clause": "canary"}))
    return recs


Y_HI = "37.5"     # above it phi(y) is subnormal / zero: no double is within 1e-6 of V there


def unit_emode_vw(fn):
    """relative accuracy of the real v / w on their exact branch (denominator above the epsilon
    guard): the real source runs on (exact value, relative-error bound) proxies with phi_major /
    phi_minor replaced by their *contracts* - relative error <= 1e-12 (the two E-mode obligations
    above) plus the amplification of the argument's error by the condition numbers
    kappa_Phi(y) <= y^2 + 1 and kappa_phi(y) = y^2 - and the propagated bound is proved <= 1e-6
    for every x, t with y = x - t <= 37.5.  The guard comparison is answered 'not taken' and
    recorded as  Phi(y) (1 + err) >= eps,  from which y > -8.2 follows by A-tab (for x >= -1000)."""
    E = emode
    Phi, phi = z3.Function("Phi", z3.RealSort(), z3.RealSort()), z3.Function("phi", z3.RealSort(), z3.RealSort())
    C12 = z3.RealVal("1e-12")
    hyps = []

    def phi_major_c(a):
        a = E.ENum.lift(a)
        return E.ENum(Phi(a.val), (a.val * a.val + 1) * a.err + C12)

    def phi_minor_c(a):
        a = E.ENum.lift(a)
        return E.ENum(phi(a.val), a.val * a.val * a.err + C12)

    def oracle(op, a, b):
        # `denominator < eps` is the only comparison on the exact branch; it is not taken
        if op != "lt" or b.const != EPS:
            raise emode.EngineError(f"E-mode: unexpected comparison {op} against {b.const!r}")
        hyps.append(a.val * (1 + a.err) >= realval(EPS))
        return False
    wl = extract.load(extract.WL_COMMON, sym=False, rebind={"math": E.EMath()})
    wl["phi_major"], wl["phi_minor"] = phi_major_c, phi_minor_c
    x, t = z3.Real("x"), z3.Real("t")
    y = x - t
    t0 = time.time()
    name = f"C17/{fn}/exact-branch/relative-error<=1e-6"
    E.BRANCH_ORACLE[0] = oracle
    try:
        res = wl[fn](E.ENum(x, z3.RealVal(0)), E.ENum(t, z3.RealVal(0)))
    except emode.EngineError as e:
        # an operation the error model does not cover: undecided, with the hi-precision replay to settle it
        return [driver.rec(name, "open", "emode", 0, fn=fn, mode="E", unbounded=True, note=str(e),
                           replay={"kind": "c17_fn", "fn": fn, "x": {"v": [-8, 1], "k": "float"}, "t": {"v": [1, 100000], "k": "float"}, "clause": None})]
    finally:
        E.BRANCH_ORACLE[0] = None
    if not isinstance(res, E.ENum):
        return [driver.rec(name, "open", "emode", 0, fn=fn, note=f"returned {res!r}")]
    # the exact value is V (resp. W) of y: abstract phi(y)/Phi(y) by a variable with the A-Mills facts
    V = z3.Real("V")
    Vterm = phi(y) / Phi(y)
    ys = z3.simplify(y)
    subs = [(Vterm, V), (phi(ys) / Phi(ys), V), (z3.simplify(Vterm), V)]

    def abstract(e):
        # the proxies simplify their error terms, so x - t also occurs as x + -1*t
        return z3.substitute(z3.substitute(e, *subs), (ys, y))
    err, val = abstract(res.err), abstract(res.val)
    hyps = [abstract(h) for h in hyps]
    hyps += [t >= z3.RealVal(str(T_LO)), t <= z3.RealVal(str(T_HI)), y <= z3.RealVal(Y_HI),
             Phi(y) > 0, Phi(y) < 1, phi(y) > 0, V > 0,
             # the first-order model is meaningless where phi_major underflows: x >= -1000 (the property sweeps [-40, 40])
             x >= -1000,
             # A-tab + A-Phi monotonicity instance: below -8.2 the mass is well under the guard
             Phi(z3.RealVal("-8.2")) < z3.RealVal("1.3e-16"), z3.Implies(y <= z3.RealVal("-8.2"), Phi(y) <= Phi(z3.RealVal("-8.2"))),
             # A-Mills (numerically re-checked each run): for y <= 0   1/(2 - y) <= V(y) + y  and  V(y) <= -y + 4/5
             z3.Implies(y <= 0, z3.And(V + y >= 1 / (2 - y), V <= -y + z3.RealVal("4/5")))]
    want_val = V if fn == "v" else V * (V + y)
    same = tactics.check_sat(hyps + [val != want_val], timeout_ms=20000)[0] == "unsat"
    bound = z3.RealVal("1e-6")
    r, be, m, why = tactics.check_sat(hyps + [z3.Not(err <= bound)], timeout_ms=60000)
    verdict = "discharged" if (r == "unsat" and same) else ("refuted" if r == "sat" else "open")
    rp = None
    if verdict != "discharged":
        md = tactics.model_to_dict(m) if m is not None else {}
        rp = {"kind": "c17_fn", "fn": fn, "x": enc_model(md, "x", KFLOAT), "t": enc_model(md, "t", KFLOAT), "clause": None}
    recs = [driver.rec(name, verdict, be, time.time() - t0, fn=fn, mode="E", unbounded=True, replay=rp,
                       note=(why or "") + ("" if same else "; the analysed value is not V / W of x - t"))]
    # canary: 1e-13 cannot hold (the contracts of phi_major / phi_minor alone allow 2e-12)
    r2, be2, _m2, _ = tactics.check_sat(hyps + [z3.Not(err <= z3.RealVal("1e-13"))], timeout_ms=20000)
    recs.append(driver.rec(f"C17/{fn}/exact-branch/canary-relative-error<=1e-13", "refuted" if r2 == "sat" else "discharged", be2, 0, kind="canary", fn=fn))
    return recs


def unit_mills_recheck():
    """numeric re-check (50 digits, dense grid) of the A-Mills instances used by the accuracy
    obligations of v / w - a sanity check of assumptions, reported as such"""
    from .. import hiprec as H
    from decimal import Decimal as D
    bad = []
    z = D(0)
    while z <= D("12"):
        yv = -z
        Vv = H.phi(yv) / H.Phi(yv)
        if not (Vv + yv >= 1 / (2 - yv) and Vv <= -yv + D("0.8")):
            bad.append(str(z))
        if z > 0 and not (Vv >= z + (z ** 3 + 7 * z) / (z ** 4 + 9 * z * z + 8)):
            bad.append("c5@" + str(z))
        z += D("0.01")
    # A-cond-mean on a grid: -t-x <= V~(x,t) <= t-x
    for xs in range(-24, 25):
        for ts in ("1e-8", "1e-5", "1e-2"):
            xv, tv = D(xs) / 2, D(ts)
            a, b = -tv - xv, tv - xv
            Vt = (H.phi(a) - H.phi(b)) / (H.Phi(b) - H.Phi(a))
            if not (a <= Vt <= b):
                bad.append(f"cond-mean@{xv},{tv}")
    return [driver.rec("C17/A-Mills/numeric-recheck", "discharged" if not bad else "open", "decimal-50-digits", 0, kind="vacuity",
                       fn="A-Mills", note=str(bad[:5]) if bad else "1/(2-y) <= V(y)+y, V(y) <= -y+4/5 and the fifth-convergent lower bound of V confirmed on 1201 points of [-12, 0]")]


def unit_total(fn):
    """no arithmetic exception for EVERY finite x: the real function with the real phi_major / phi_minor
    (stdlib NormalDist.pdf extracted from the test interpreter) runs in R-mode with safety obligations at
    every operation that *raises* (float ** overflow, math.exp above 709, division by zero, sqrt / log
    domain); x ranges over all finite doubles, t over the models' margins"""
    from ..symrt import SYM_MATH
    E = emode
    ns, path = E.extract_normaldist({"erf": SYM_MATH.erf, "exp": SYM_MATH.exp, "sqrt": SYM_MATH.sqrt, "tau": math.tau, "_SQRT2": math.sqrt(2.0),
                                     "fabs": SYM_MATH.fabs, "log": SYM_MATH.log, "hypot": SYM_MATH.hypot, "float": float, "isinstance": isinstance})
    wl = extract.load(extract.WL_COMMON, sym=True)
    wl["_normal"] = ns["NormalDist"]()
    ctx = Ctx("R", safety=True, feas_timeout_ms=1000)
    ctx.safety_raising_only = True
    npaths = [0]
    two = fn in ("v", "w", "vt", "wt")
    big = z3.RealVal("17976931348623157" + "0" * 292)

    def run(ctx):
        ctx.safety_raising_only = True
        x = ctx.real("x")
        ctx.assume(z3.And(x.t <= big, x.t >= -big))
        args = [x]
        if two:
            t = ctx.real("t")
            ctx.assume(z3.And(t.t >= z3.RealVal(str(T_LO)), t.t <= z3.RealVal(str(T_HI))))
            args.append(t)
        out = call(wl[fn], *args)
        npaths[0] += 1
        mk = lambda md, _fn=fn: {"kind": "c17_total", "fn": _fn, "x": enc_model(md, "x", KFLOAT), "t": enc_model(md, "t", KFLOAT) if two else None}
        for o in ctx.obls:
            o.name = f"C17/{fn}/total/" + o.name
            o.meta.update({"replay": mk, "fn": fn, "unbounded": True})
        if out[0] != "return":
            ctx.oblige(f"C17/{fn}/total/returns", False, meta={"replay": mk, "fn": fn, "unbounded": True})
    explore(ctx, run, max_paths=64)
    recs = settle(ctx.all_obls, mode="R", unbounded=True, timeout_ms=10000)
    if not recs:
        recs.append(driver.rec(f"C17/{fn}/total/no-raising-operation-on-any-path", "discharged", "explorer", 0, fn=fn, mode="R", unbounded=True,
                               note=f"{npaths[0]} paths"))
    return recs


def unit_lean(filename):
    """A-Phi and the Mills-ratio bounds, machine-checked against Mathlib (lemmas/Phi.lean)"""
    from .util import lean_check
    return [lean_check(f"C17/lemmas/{filename}-checked-by-Lean-Mathlib", filename)]


def units(tier):
    import os
    from .. import VERIF
    lean = [("unit_lean", (f,)) for f in ("Phi.lean", "Phi2.lean", "Phi3.lean", "Phi4.lean") if tier == "thorough" and os.path.exists(os.path.join(VERIF, "lemmas", f))]
    return lean + [("unit_tab", ()), ("unit_v", ()), ("unit_w", ()), ("unit_vt", ()), ("unit_wt", ()), ("unit_contract_v_vt", ()),
                   ("unit_emode", ("phi_major",)), ("unit_emode", ("phi_minor",)),
                   ("unit_emode_vw", ("v",)), ("unit_emode_vw", ("w",)), ("unit_mills_recheck", ())] + \
        [("unit_total", (f,)) for f in ("phi_major", "phi_minor", "v", "w", "vt", "wt")]


def main(tier, seed):
    t0 = time.time()
    records, errors, walls = driver.run_units(__name__, units(tier))
    fns = {f"{extract.WL_COMMON}::{f}" for f in ("v", "w", "vt", "wt", "phi_major", "phi_minor")}
    fns.add("statistics.py::NormalDist.cdf / NormalDist.pdf (test interpreter, extracted class-wise)")
    return driver.finish(
        PROP, tier, seed, "proof", records, errors, walls, t0,
        functions=fns,
        assumptions=[
            "A-Phi: 0 < Phi < 1, Phi monotone (instances), reflection, phi > 0, phi even - machine-checked against Mathlib in lemmas/Phi.lean (thorough tier) for Phi := cdf of the standard Gaussian measure; that libm's erfc/2 is this Phi is A-erf (the definition of erfc) and stays assumed",
            "A-tab: rational enclosures of Phi / erf at a few fixed points (e.g. Phi(-8.13) < 2^-52 < Phi(-8.12)), numerically re-checked against a 50-digit reference on every run",
            "A-Mills: V > 0, V(y) + y > 0, V(-y) <= y + 1/y, 0 < W < 1 (Sampford), V' = -W and A-cond-mean (-t-x <= V~ <= t-x, V~ odd) are machine-checked against Mathlib in lemmas/Phi2.lean, and -V(-x-t) <= V~(x,t) <= V(x-t), 0 < W~ <= 1 in lemmas/Phi3.lean (thorough tier); and the sharper instance V(y) >= z + (z^3+7z)/(z^4+9z^2+8) (z = -y > 0) with 0 < 1 - W(-z) <= 2/z^2 in lemmas/Phi4.lean; listed for reference (all of it machine-checked for the mathematical Phi; what stays assumed is A-tab, the libm accuracy model and the condition-number bounds): V > 0, V(y) + y > 0, V(y) <= -y - 1/y and V(y) >= z + (z^3+7z)/(z^4+9z^2+8) (z = -y) for y < 0, 0 < W < 1, -V(-x-t) <= V~(x,t) <= V(x-t), 0 < W~ <= 1; A-cond-mean: -t-x <= V~(x,t) <= t-x (V~ is the mean of a standard normal conditioned on [-t-x, t-x])",
            "E-mode: first-order relative-error model with u = 2^-53; A-libm: erf/erfc/exp within 4u of the mathematical function, sqrt correctly rounded; assumed condition-number bounds kappa_erf <= 1, kappa_erfc(a) <= 2a^2+2a+1 (a > 0), <= 1 (a <= 0); x in [-37.5, 38]",
            "accuracy of v, w on the exact branch (E-mode): contracts of phi_major / phi_minor (relative error <= 1e-12, the two obligations above) + assumed condition numbers kappa_Phi(y) <= y^2 + 1, kappa_phi(y) = y^2 + A-Mills instances 1/(2 - y) <= V(y) + y and V(y) <= -y + 4/5 for y <= 0 (numerically re-checked on a grid each run); domain x >= -1000 and y = x - t <= 37.5 (above it phi(y) is subnormal or zero and no double is within 1e-6 relative of V)",
            "NOT DECIDED: 'wt within 20t + 1e-13/t of W~' on its asymptotic sub-path; the range of wt on the sub-path where its inner vt calls take the 1e-5 asymptote (its returned form is pinned, its range is numerical)",
            "R-mode obligations treat machine arithmetic as mathematical; t in [1e-8, 1e-2]",
        ],
        explanation=("The real v, w, vt, wt are executed from their AST on symbolic (x, t) with phi_major/phi_minor replaced by contract functions anchored by tabulated enclosures; every path (guard / exact / asymptote, x < 0 / x >= 0) is explored and its returned expression proved equal to the paper's V, W, V~, W~ (exact normal forms with Phi reflection and phi evenness syntactic) or to the documented asymptote, "
                     "the guards are proved to fire only in the tail (y < -8.12), v > 0, w and wt in [0,1], |vt(x)+vt(-x)| <= 2t, and the relational v/vt clauses used by C05/C07. The real v and w also run on (value, relative-error-bound) proxies with phi_major/phi_minor replaced by their accuracy contracts: on the exact branch the propagated bound is proved <= 1e-6 (the cancellation in V + y is bounded by Mills-ratio instances). The real phi_major/phi_minor with the stdlib NormalDist.cdf/pdf extracted from the test interpreter's statistics.py run on (value, relative-error-bound) proxies; the propagated first-order bound must be <= 1e-12 on [-37.5, 38]. Loop-free code: no bound on inputs."),
    )
