"""C19 - the five models differ only in their update rule.

Relational obligations between the five copies (U-mode: identical terms are
identical floats): predict_* results pairwise identical; the validation of rate /
predict_* accepts and rejects the same arguments with the same exception class
(every pair of paths of two models on the same argument description whose path
conditions are jointly satisfiable must have the same outcome); the rating classes
compare, hash and copy by the same rules; same public operations and signatures
(AST); MODELS registry; BradleyTerryPart == BradleyTerryFull on two-team games."""
from __future__ import annotations

import ast
import copy
import importlib
import json
import time

import z3

from .. import argsgrammar as ag
from .. import driver, extract, game, tactics
from ..symrt import AnyObj, Ctx, SymBool, SymNum, call, explore, tobool
from .util import enc_model, settle
from .c18 import _merge_canaries
from . import c13

PROP = "C19"
REF = "PlackettLuce"
PREDICTS = ("predict_win", "predict_draw", "predict_rank")


def unit_predict(sizes):
    """the three predictions of the five copies on the same symbols"""
    recs = []
    shape = f"sizes={sizes}"
    ctx = Ctx("U")
    outs = {}

    def run(ctx):
        for m in extract.MODELS:
            S = extract.Scratch(m)
            game.stub_gauss_uninterpreted(S)
            mod, _ = game.mk_model(ctx, S)
            for op in PREDICTS:
                outs[(m, op)] = call(getattr(mod, op), game.mk_teams(ctx, S, sizes, sigma_pos=False))
        for op in PREDICTS:
            for m in extract.MODELS:
                if m == REF:
                    continue
                rp = {"kind": "c19_predict", "op": op, "a": REF, "b": m, "sizes": list(sizes)}
                ctx.oblige(f"C19/{op}/identical[{REF}={m}]@{shape}", game.compare_outcomes(outs[(REF, op)], outs[(m, op)]),
                           meta={"replay": lambda md, rp=rp: dict(rp, game=game.enc_game(md, sizes), beta=enc_model(md, "m_beta", 2)), "fn": f"{m}.{op}", "shape": shape})
        if sizes == (1, 1):
            # canary: predict_win and predict_draw are different functions
            ctx.oblige("C19/canary-win-equals-draw", game.compare_outcomes(outs[(REF, "predict_win")], outs[(REF, "predict_draw")]), kind="canary",
                       meta={"fn": "predict_win"})
    explore(ctx, run)
    return _merge_canaries(settle(ctx.all_obls, mode="U"))


def _alias(teams, alias):
    """the same rating object in two slots (a valid call: _check_teams accepts it)"""
    if alias == "across":
        teams[1][0] = teams[0][0]
    elif alias == "within":
        teams[0][1] = teams[0][0]
    return teams


def unit_btp_btf(sizes, gamma_mode, alias=None, generic=False):
    """generic: sizes = (1, 1), both teams of symbolic size (pyvc/teams.py)"""
    try:
        return _unit_btp_btf(sizes, gamma_mode, alias, generic)
    except Exception as e:  # noqa: BLE001
        from ..symrt import UncutLoop
        if generic and isinstance(e, UncutLoop):
            return [driver.rec(f"C19/BTP=BTF/two-teams/any-team-size/unbounded-proof@gamma={gamma_mode}", "note", "explorer", 0, kind="note", fn="BradleyTerryPart.rate",
                               shape="n=2,any-team-size", note=f"not attempted: {e}")]
        raise


def _unit_btp_btf(sizes, gamma_mode, alias, generic):
    recs = []
    shape = (f"sizes={sizes}" if not generic else "n=2,any-team-size") + f",gamma={gamma_mode}" + (f",same object twice ({alias})" if alias else "")
    ctx = Ctx("U")

    def run(ctx):
        res = {}
        for m in ("BradleyTerryFull", "BradleyTerryPart"):
            if generic:
                from .. import teams as T
                S = T.scratch(m)
            else:
                S = extract.Scratch(m)
            game.stub_gauss_uninterpreted(S)
            kw = {}
            if gamma_mode == "custom":
                G = game.uf("U_gamma", 5)

                def gamma(c, k, mu, sigma_squared, team, rank, /, *, _G=G):
                    from ..symrt import term, KFLOAT
                    return SymNum(_G(term(c), term(k), term(mu), term(sigma_squared), term(rank)), KFLOAT)
                kw["gamma"] = gamma
            mod, _ = game.mk_model(ctx, S, **kw)
            for ranks in (None, [1, 1], [2, 1]):
                ts = [T.SymTeam(ctx, S.rating_cls, i) for i in range(2)] if generic else _alias(game.mk_teams(ctx, S, sizes), alias)
                res[(m, str(ranks))] = call(mod.rate, ts, ranks=ranks)
                if generic:
                    T.guard(res[(m, str(ranks))])
        for ranks in (None, [1, 1], [2, 1]):
            rp = {"kind": "c19_btp", "sizes": list(sizes), "ranks": ranks, "gamma": gamma_mode, "alias": alias}
            ctx.oblige(f"C19/BTP=BTF/two-teams[ranks={ranks}]@{shape}", game.compare_outcomes(res[("BradleyTerryFull", str(ranks))], res[("BradleyTerryPart", str(ranks))]),
                       meta={"replay": lambda md, rp=rp: dict(rp, game=game.enc_game(md, sizes), params=game.enc_params(md)), "fn": "BradleyTerryPart.rate", "shape": shape})
    explore(ctx, run)
    return settle(ctx.all_obls, mode="U")


def _paths(model, op, builder):
    """[(description key, path condition, outcome class or None, recipe maker)] for one model"""
    S = extract.Scratch(model)
    game.stub_gauss_uninterpreted(S)
    ctx = Ctx("U")
    out = []

    def run(ctx):
        m, _ = game.mk_model(ctx, S)
        tval, tdesc, rval, rdesc, sval, sdesc, ratings = builder(ctx, S)
        if op == "rate":
            o = call(m.rate, tval, ranks=rval, scores=sval)
        else:
            o = call(getattr(m, op), tval)
        key = json.dumps([tdesc, rdesc, sdesc], sort_keys=True)
        cls = None if o[0] == "return" else type(o[1]).__name__
        # keep only the part of the path condition that is about the arguments' types / truthiness
        pcs = [c for c in ctx.pc + ctx.assumptions]
        out.append((key, z3.And(pcs) if pcs else z3.BoolVal(True), cls, (tdesc, rdesc, sdesc)))
    explore(ctx, run)
    return out


def unit_validation(op, part):
    """same accept/reject verdict and exception class across the five copies"""
    if part == "teams":
        def builder(ctx, S):
            tval, tdesc, ratings = ag.build_teams(ctx, S, 3, 2)
            return tval, tdesc, None, {"t": "none"}, None, {"t": "none"}, ratings
    else:
        sizes = (1, 1) if part == "vectors2" else (2, 1, 1)

        def builder(ctx, S):
            tval, tdesc, ratings = ag.build_teams(ctx, S, wf_sizes=sizes)
            rval, rdesc = ag.build_vector(ctx, S, "ranks", len(sizes))
            sval, sdesc = ag.build_vector(ctx, S, "scores", len(sizes))
            return tval, tdesc, rval, rdesc, sval, sdesc, ratings
    t0 = time.time()
    ref = {}
    for (key, pc, cls, descs) in _paths(REF, op, builder):
        ref.setdefault(key, []).append((pc, cls, descs))
    recs = []
    for m in extract.MODELS:
        if m == REF:
            continue
        n_cmp, bad = 0, None
        mine = {}
        for (key, pc, cls, descs) in _paths(m, op, builder):
            mine.setdefault(key, []).append((pc, cls, descs))
        if set(mine) != set(ref):
            bad = ("different argument shapes reached", None, None)
        else:
            for key, lst in mine.items():
                for (pcb, clsb, descs) in lst:
                    for (pca, clsa, _d) in ref[key]:
                        n_cmp += 1
                        if clsa != clsb:
                            r, be, mdl, why = tactics.check_sat([pca, pcb], timeout_ms=5000, use_cvc5=False, nlsat=False)
                            if r != "unsat":
                                md = tactics.model_to_dict(mdl) if mdl is not None else {}
                                rp = c13.make_recipe(m, op, descs[0], descs[1], descs[2], clsa, exact=True)(md)
                                rp["kind"] = "c19_validation"
                                rp["ref"] = REF
                                bad = (f"{REF}: {clsa or 'accepts'}, {m}: {clsb or 'accepts'}", rp, key)
                                break
                    if bad:
                        break
                if bad:
                    break
        recs.append(driver.rec(f"C19/{op}/same-verdict-and-exception-class[{REF}={m}]@{part}", "discharged" if not bad else "refuted", "z3",
                               time.time() - t0, fn=f"{m}.{op}", shape=part, mode="U", note=(bad[0] if bad else f"{n_cmp} path pairs compared"),
                               replay=bad[1] if bad else None))
    return recs


class HashToken:
    def __init__(self, arg):
        self.arg = arg


def unit_rating_rules():
    """comparison, hash and copy rules of the five rating classes on the same symbols"""
    ctx = Ctx("U")

    def run(ctx):
        res = {}
        for m in extract.MODELS:
            S = extract.Scratch(m)
            S.ns["hash"] = lambda x: HashToken(x)
            R = S.rating_cls
            a = R(ctx.number("mu_a"), ctx.number("sigma_a"), name="A")
            b = R(ctx.number("mu_b"), ctx.number("sigma_b"), name=None)
            a.id, b.id = "id-a", "id-b"
            z = ctx.number("z")
            r = {}
            for meth in ("__lt__", "__le__", "__gt__", "__ge__", "__eq__"):
                o = call(getattr(a, meth), b)
                r[meth] = (o[0], tobool(o[1]) if o[0] == "return" and isinstance(o[1], (bool, SymBool)) else repr(o[1]))
                other = AnyObj("other", ctx, own_cls=R, allowed=[t for t in range(11) if t != AnyObj.OWN])
                o2 = call(getattr(a, meth), other)
                r[meth + "/foreign"] = (o2[0], type(o2[1]).__name__ if o2[0] == "raise" else repr(o2[1]))
            o = call(a.ordinal)
            r["ordinal"] = (o[0], o[1].t if o[0] == "return" and isinstance(o[1], SymNum) else repr(o[1]))
            o = call(a.ordinal, z)
            r["ordinal(z)"] = (o[0], o[1].t if o[0] == "return" and isinstance(o[1], SymNum) else repr(o[1]))
            o = call(a.__hash__)
            if o[0] == "return" and isinstance(o[1], HashToken) and isinstance(o[1].arg, tuple):
                r["hash"] = ("return", tuple(x.t if isinstance(x, SymNum) else x for x in o[1].arg))
            else:
                r["hash"] = (o[0], repr(o[1]))
            o = call(copy.deepcopy, a)
            if o[0] == "return":
                c = o[1]
                r["deepcopy"] = ("return", (c is not a, type(c) is R, sorted(c.__dict__), c.id, c.name, c.mu.t if isinstance(c.mu, SymNum) else c.mu,
                                            c.sigma.t if isinstance(c.sigma, SymNum) else c.sigma))
            else:
                r["deepcopy"] = (o[0], repr(o[1]))
            res[m] = r
        for m in extract.MODELS:
            if m == REF:
                continue
            for k, v in res[REF].items():
                w = res[m][k]
                ctx.oblige(f"C19/rating/{k}/same-rule[{REF}={m}]", _same(v, w), meta={"fn": f"{m}Rating", "unbounded": True,
                                                                                    "replay": {"kind": "c19_rating", "a": REF, "b": m, "what": k}})
    explore(ctx, run)
    return settle(ctx.all_obls, mode="U", unbounded=True)


def _same(v, w):
    if v[0] != w[0]:
        return z3.BoolVal(False)
    a, b = v[1], w[1]
    return _same_val(a, b)


def _same_val(a, b):
    if isinstance(a, z3.ExprRef) and isinstance(b, z3.ExprRef):
        return game.terms_equal(a, b) if not z3.is_bool(a) else (a == b)
    if isinstance(a, tuple) and isinstance(b, tuple) and len(a) == len(b):
        return game.conj([_same_val(x, y) for x, y in zip(a, b)])
    return z3.BoolVal(a == b)


def _norm_ast(fn, cls_name):
    """dump of a function's AST with the model's class name normalised"""
    src = ast.unparse(fn.args) + " -> " + (ast.unparse(fn.returns) if fn.returns else "")
    return src.replace(cls_name, "MODEL")


def unit_signatures():
    recs = []
    t0 = time.time()
    sigs = {}
    for m, rel in extract.MODEL_FILES.items():
        tree = extract.parse(rel)
        d = {}
        for node in tree.body:
            if isinstance(node, ast.ClassDef):
                cname = node.name.replace(m, "MODEL")
                for f in node.body:
                    if isinstance(f, ast.FunctionDef) and (not f.name.startswith("_") or f.name.startswith("__")):
                        deco = sorted(ast.unparse(x) for x in f.decorator_list)
                        d[f"{cname}.{f.name}"] = (_norm_ast(f, m), tuple(deco))
            elif isinstance(node, ast.FunctionDef) and not node.name.startswith("__"):
                d[node.name] = (_norm_ast(node, m), ())
        sigs[m] = d
    for m in extract.MODELS:
        if m == REF:
            continue
        diff = sorted(k for k in set(sigs[REF]) | set(sigs[m]) if sigs[REF].get(k) != sigs[m].get(k))
        recs.append(driver.rec(f"C19/signatures[{REF}={m}]", "discharged" if not diff else "refuted", "ast", time.time() - t0,
                               fn=extract.MODEL_FILES[m], unbounded=True, note=str(diff[:6]),
                               replay={"kind": "c19_signatures", "a": REF, "b": m} if diff else None))
    # registry
    import openskill.models as OM
    importlib.reload(OM)
    names = sorted(c.__name__ for c in OM.MODELS)
    ok = names == sorted(extract.MODELS) and all(getattr(OM, n, None) is not None for n in extract.MODELS)
    recs.append(driver.rec("C19/registry", "discharged" if ok else "refuted", "native", 0, fn="openskill/models/__init__.py", unbounded=True,
                           note=str(names), replay=None if ok else {"kind": "c19_registry"}))
    canary = _norm_ast(ast.parse("def f(self, a, b=1): pass").body[0], "X") == _norm_ast(ast.parse("def f(self, a, b=2): pass").body[0], "X")
    recs.append(driver.rec("C19/signatures/canary", "discharged" if canary else "refuted", "ast", 0, kind="canary", fn="signatures"))
    return recs


def units(tier):
    us = [("unit_signatures", ()), ("unit_rating_rules", ())]
    for s in ([(1, 1), (2, 1), (1, 1, 1)] if tier == "quick" else [(1, 1), (2, 1), (2, 3), (1, 1, 1), (2, 1, 3), (1, 1, 1, 1)]):
        us.append(("unit_predict", (s,)))
    for a in ((1, 2) if tier == "quick" else (1, 2, 3, 4)):
        for b in ((1, 2) if tier == "quick" else (1, 2, 3, 4)):
            us.append(("unit_btp_btf", ((a, b), "default")))
    us.append(("unit_btp_btf", ((2, 1), "custom")))
    us.append(("unit_btp_btf", ((2, 2), "default", "across")))
    us.append(("unit_btp_btf", ((2, 1), "default", "within")))
    us.append(("unit_btp_btf", ((1, 1), "default", "across")))
    us.append(("unit_btp_btf", ((6, 5), "default")))
    us.append(("unit_btp_btf", ((1, 1), "default", None, True)))
    us.append(("unit_btp_btf", ((1, 1), "custom", None, True)))
    for op in ("rate",) + PREDICTS:
        us.append(("unit_validation", (op, "teams")))
    us.append(("unit_validation", ("rate", "vectors2")))
    if tier == "thorough":
        us.append(("unit_validation", ("rate", "vectors3")))
    return us


def main(tier, seed):
    t0 = time.time()
    records, errors, walls = driver.run_units(__name__, units(tier))
    fns = {f"{extract.MODEL_FILES[m]}::{m}.{f}" for m in extract.MODELS for f in ("predict_win", "predict_draw", "predict_rank", "rate", "_check_teams", "_compute")}
    fns |= {f"{extract.MODEL_FILES[m]}::{m}Rating.{f}" for m in extract.MODELS for f in ("__lt__", "__le__", "__gt__", "__ge__", "__eq__", "__hash__", "__deepcopy__", "ordinal")}
    fns.add("openskill/models/__init__.py::MODELS")
    return driver.finish(
        PROP, tier, seed, "other", records, errors, walls, t0,
        functions=fns,
        assumptions=[
            "U-mode: float operations are deterministic functions of operand values; Gaussian helpers stubbed as pure functions (shared by all five models, they live in one module)",
            "validation: the argument grammar of C13 (container lengths bounded, element types symbolic); two models are compared on every pair of their paths over the same argument description whose path conditions are jointly satisfiable",
            "hash(): compared through the tuple handed to the builtin (the builtin itself is shared)",
            "signatures: ast.arguments, return annotation and decorators of every public/dunder method and module-level function, class name normalised",
            "shape-bounded for predict_* and BTP=BTF (coverage.shapes)",
        ],
        explanation=("Relational obligations between the five copies, each run from its own real AST on the same symbols: predict_win/draw/rank give pairwise identical uninterpreted-IEEE terms; rate/predict_* reach the same accept/reject verdict with the same exception class on every sentence of the argument grammar; "
                     "the rating classes' comparison operators (same-class and foreign operands), ordinal, the tuple handed to hash() and __deepcopy__ give identical outcomes; public signatures are equal as ASTs and MODELS lists exactly the five classes; BradleyTerryPart.rate == BradleyTerryFull.rate on two-team games (team sizes 1..2 quick / 1..4 thorough, default and uninterpreted gamma, win/draw/unsorted ranks)."),
        shapes=[str(u[1]) for u in units(tier) if u[0] in ("unit_predict", "unit_btp_btf")],
    )
