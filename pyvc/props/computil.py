"""Shared driver for the obligations on `_compute` / `rate` in R-mode."""
from __future__ import annotations

import importlib
import itertools
import random
import time

import z3

from .. import driver, extract, field, game, evalterm
from ..symrt import Ctx, EngineError, SymNum, call, explore, term
from ..specs import weng_lin as WS


def compositions(n):
    """all tie patterns of a rank-sorted game of n teams: block sizes"""
    out = []
    for bits in itertools.product((0, 1), repeat=n - 1):
        blocks, cur = [], 1
        for b in bits:
            if b:
                blocks.append(cur)
                cur = 1
            else:
                cur += 1
        blocks.append(cur)
        out.append(tuple(blocks))
    return out


def ranks_of(blocks):
    r = []
    for k, b in enumerate(blocks):
        r += [k] * b
    return r


def size_vectors(n, tier):
    """team-size vectors for n teams (see DESIGN 2.4)"""
    if n == 2:
        return [(1, 1), (1, 2), (2, 1), (2, 2), (3, 1), (1, 3), (9, 5)] + ([(3, 3), (2, 3), (8, 1), (16, 7)] if tier == "thorough" else [])
    if n == 3:
        return [(1, 1, 1), (2, 1, 3)] + ([(3, 2, 1), (1, 3, 2), (2, 2, 2), (1, 8, 1)] if tier == "thorough" else [])
    base = [tuple([1] * n)]
    cyc = tuple(((i % 3) + 1) for i in range(n))
    if tier == "thorough":
        base.append(cyc)
        base.append(tuple([2, 1] * (n // 2) + ([8] if n % 2 else [])))
    elif n == 4:
        base.append((2, 1, 1, 2))
    return base


class ComputeRun:
    """One symbolic execution of the real _compute on a rank-sorted game."""

    def __init__(self, model, sizes, ranks, gamma_mode="default", tm_stub=True, order=None, identical=False, player_order=None, safety=False):
        """sizes: team sizes by *original* team index (symbols mu_i_j / sg_i_j);
        order: the presentation handed to _compute lists original teams in this
        order (default 0..n-1); ranks: sorted dense ranks of the presentation;
        identical: every team carries team 0's symbols."""
        self.model, self.sizes, self.ranks, self.gamma_mode = model, tuple(sizes), ranks, gamma_mode
        self.order = list(order) if order is not None else list(range(len(sizes)))
        self.player_order = dict(player_order or {})
        S = self.S = extract.Scratch(model)
        self.tm = game.stub_tm_real(S)
        game.stub_phi_real(S)
        self.ctx = Ctx("R", safety=safety)
        self.gamma_spec = None
        box = {}

        def run(ctx):
            kw = {}
            if gamma_mode == "custom":
                code_g, spec_g = game.uninterpreted_gamma()
                kw["gamma"] = code_g
                box["spec_g"] = spec_g
            m, params = game.mk_model(ctx, S, **kw)
            teams = game.mk_teams(ctx, S, sizes)
            if identical:
                for t in teams[1:]:
                    for j, p in enumerate(t):
                        p.mu, p.sigma = teams[0][j].mu, teams[0][j].sigma
                        if identical == "twins":
                            # deep copies of one rating: the id is shared too
                            p.id, p.name = teams[0][j].id, teams[0][j].name
            ctx.assume(term(params["kappa"]) <= 1)
            prior = [[(p.mu, p.sigma) for p in t] for t in teams]
            objs = [list(t) for t in teams]
            present = [([teams[k][j] for j in self.player_order[k]] if k in self.player_order else teams[k]) for k in self.order]
            if gamma_mode == "custom":
                code_g.teams = present
            import copy as _copy
            pristine = _copy.deepcopy(present)

            def one_path(i):
                # _compute may fork (a guard, a clamp): every further path gets its own copy of the game
                pres = present if i == 0 else _copy.deepcopy(pristine)
                if gamma_mode == "custom":
                    code_g.teams = pres
                return call(m._compute, pres, list(ranks) if ranks is not None else None)
            out = ctx.merged(one_path)
            if out[0] == "return" and (self.order != list(range(len(sizes))) or self.player_order):
                back = [None] * len(sizes)
                for pos, k in enumerate(self.order):
                    row = list(out[1][pos])
                    if k in self.player_order:
                        inv = [None] * len(row)
                        for jj, j in enumerate(self.player_order[k]):
                            inv[j] = row[jj]
                        row = inv
                    back[k] = row
                out = ("return", back)
            box.update(m=m, params=params, prior=prior, objs=objs, out=out)
        recs = explore(self.ctx, run)
        if len(recs) != 1:
            raise EngineError(f"_compute forked into {len(recs)} paths")
        self.rec = recs[0]
        self.params, self.prior, self.objs, self.out = box["params"], box["prior"], box["objs"], box["out"]
        self.gamma_spec = box.get("spec_g")
        self.hyps = list(self.rec.pc) + list(self._assumptions())
        self.facts = list(self.ctx.facts.values())

    def _assumptions(self):
        return self.ctx.assumptions

    def ok(self):
        return self.out[0] == "return"

    def post(self):
        return [[(p.mu, p.sigma) for p in t] for t in self.out[1]]

    def prover(self, timeout_ms=20000):
        return field.Prover(self.hyps, self.facts, timeout_ms=timeout_ms)

    def spec(self, pair_scale=1, details=None):
        """the published update on the same symbols (evaluated in this run's context)"""
        from ..symrt import set_cur
        set_cur(self.ctx)
        try:
            X = game.SymX(self.tm)
            ranks = self.ranks
            if ranks is not None and self.order != list(range(len(self.sizes))):
                ranks = [None] * len(self.sizes)
                for pos, k in enumerate(self.order):
                    ranks[k] = self.ranks[pos]
            return WS.posterior(self.model, self.prior, ranks, self.params["beta"], self.params["kappa"], X,
                                gamma=self.gamma_spec, pair_scale=pair_scale, details=details)
        finally:
            self.facts = list(self.ctx.facts.values())
            set_cur(None)

    # ---- engine soundness: symbolic result vs a native run of the real code
    def cross_check(self, seed=0, trials=2):
        if self.gamma_mode == "custom":
            return True, "skipped (uninterpreted gamma)"
        from ..concrete import MODEL_MODULES
        mod = importlib.import_module(MODEL_MODULES[self.model])
        wl = importlib.import_module("openskill.models.weng_lin.common")
        rnd = random.Random(seed)
        extra = {"V": wl.v, "W": wl.w, "Vt": wl.vt, "Wt": wl.wt}
        for _ in range(trials):
            env = {"m_mu0": 25.0, "m_sigma0": 25 / 3, "m_beta": rnd.uniform(2, 6), "m_kappa": 1e-4, "m_tau": 0.1}
            M = getattr(mod, self.model)(beta=env["m_beta"], kappa=env["m_kappa"])
            R_ = getattr(mod, self.model + "Rating")
            teams = []
            for i, n in enumerate(self.sizes):
                t = []
                for j in range(n):
                    env[f"mu_{i}_{j}"] = rnd.uniform(10, 40)
                    env[f"sg_{i}_{j}"] = rnd.uniform(1, 9)
                    t.append(R_(env[f"mu_{i}_{j}"], env[f"sg_{i}_{j}"]))
                teams.append(t)
            native = M._compute(teams, list(self.ranks) if self.ranks is not None else None)
            for i, t in enumerate(self.out[1]):
                for j, p in enumerate(t):
                    a = evalterm.evalf(term(p.mu), env, extra)
                    b = evalterm.evalf(term(p.sigma), env, extra)
                    if abs(a - native[i][j].mu) > 1e-9 * (1 + abs(a)) or abs(b - native[i][j].sigma) > 1e-9 * (1 + abs(b)):
                        return False, f"symbolic result evaluates to ({a}, {b}), native _compute gives ({native[i][j].mu}, {native[i][j].sigma})"
        return True, "symbolic result terms agree with native runs"


class GenericRun(ComputeRun):
    """One symbolic execution of the real _compute on a rank-sorted game whose teams have a
    *symbolic number of members* (pyvc/teams.py: map/fold rule, one arbitrary member per team,
    the aggregates theta_i / s_i as symbols).  Same interface as ComputeRun with one (arbitrary)
    member per team: post()[i][0], prior[i][0]; spec() is the published update on the aggregates.
    Raises symrt.UncutLoop when a loop over a team is outside the rule (proof not attempted)."""

    def __init__(self, model, n, ranks, gamma_mode="default", safety=False, order=None):
        """order: the presentation handed to _compute lists team k of the symbolic game at position
        order.index(k) (ranks are those of the presentation); results are mapped back to team index"""
        from .. import teams as T
        self.model, self.sizes, self.ranks, self.gamma_mode = model, (1,) * n, ranks, gamma_mode
        self.order, self.player_order = (list(order) if order is not None else list(range(n))), {}
        S = self.S = T.scratch(model)
        self.loops_rewritten = list(S.loops_rewritten)
        self.tm = game.stub_tm_real(S)
        game.stub_phi_real(S)
        self.ctx = Ctx("R", safety=safety)
        self.gamma_spec = None
        box = {}

        def run(ctx):
            import copy as _copy
            kw = {}
            if gamma_mode == "custom":
                code_g, spec_g = game.uninterpreted_gamma()
                kw["gamma"] = code_g
                box["spec_g"] = spec_g
            m, params = game.mk_model(ctx, S, **kw)
            ts = [T.SymTeam(ctx, S.rating_cls, i) for i in range(n)]
            ctx.team_heap = [m]
            ctx.assume(term(params["kappa"]) <= 1)
            prior = [[(t.g.mu, t.g.sigma)] for t in ts]
            model_before = dict(m.__dict__)
            pristine = _copy.deepcopy(ts)

            def one_path(i):
                base = ts if i == 0 else _copy.deepcopy(pristine)
                pres = [base[k] for k in self.order]
                if gamma_mode == "custom":
                    code_g.teams = pres
                return call(m._compute, pres, list(ranks) if ranks is not None else None)
            out = ctx.merged(one_path)
            T.guard(out)
            if out[0] == "return" and self.order != list(range(n)) and isinstance(out[1], list) and len(out[1]) == n:
                back = [None] * n
                for pos, k in enumerate(self.order):
                    back[k] = out[1][pos]
                out = ("return", back)
            if out[0] == "split":
                for (_c, o) in out[1]:
                    T.guard(o)
            box.update(m=m, params=params, prior=prior, teams=ts, out=out, model_before=model_before, events=list(ctx.events))
        recs = explore(self.ctx, run)
        if len(recs) != 1:
            raise EngineError(f"_compute forked into {len(recs)} paths")
        self.rec = recs[0]
        self.params, self.prior, self.teams, self.out = box["params"], box["prior"], box["teams"], box["out"]
        self.m, self.model_before, self.events = box["m"], box["model_before"], box["events"]
        self.objs = [[t.g] for t in self.teams]
        self.gamma_spec = box.get("spec_g")
        self.hyps = list(self.rec.pc) + list(self._assumptions())
        self.facts = list(self.ctx.facts.values())

    def rows_are_the_teams(self):
        """result[i] has the members of teams[i], in order (the same objects)"""
        from .. import teams as T
        if self.out[0] != "return" or not isinstance(self.out[1], list) or len(self.out[1]) != len(self.teams):
            return False
        for row, t in zip(self.out[1], self.teams):
            if not isinstance(row, (T.TeamView, T.SymTeam)) or row.root is not t.root:
                return False
        return True

    def post(self):
        return [[(row.g.mu, row.g.sigma)] for row in self.out[1]]

    def aggregates(self):
        return [t.theta for t in self.teams], [t.s for t in self.teams]

    def spec(self, pair_scale=1, details=None):
        from ..symrt import set_cur
        set_cur(self.ctx)
        try:
            X = game.SymX(self.tm)
            return WS.posterior(self.model, self.prior, self.ranks, self.params["beta"], self.params["kappa"], X,
                                gamma=self.gamma_spec, pair_scale=pair_scale, details=details, agg=self.aggregates())
        finally:
            self.facts = list(self.ctx.facts.values())
            set_cur(None)

    def second_member(self, i, suffix="k2"):
        """substitution turning a term about the arbitrary member of team i into the same term
        about another arbitrary member of that team (fresh Skolem symbols, same assumptions)"""
        from ..symrt import active
        with active(self.ctx):
            sub = self.teams[i].other_member(self.ctx, suffix)
        self.hyps = list(self.rec.pc) + list(self._assumptions())
        return sub

    def cross_check(self, seed=0, trials=2):
        """the symbolic result terms, evaluated at the aggregates of a concrete team, against a
        native run of the real _compute on teams of random sizes 1..5"""
        if self.gamma_mode == "custom":
            return True, "skipped (uninterpreted gamma)"
        from ..concrete import MODEL_MODULES
        mod = importlib.import_module(MODEL_MODULES[self.model])
        wl = importlib.import_module("openskill.models.weng_lin.common")
        rnd = random.Random(seed)
        extra = {"V": wl.v, "W": wl.w, "Vt": wl.vt, "Wt": wl.wt}
        n = len(self.sizes)
        for _ in range(trials):
            env = {"m_mu0": 25.0, "m_sigma0": 25 / 3, "m_beta": rnd.uniform(2, 6), "m_kappa": 1e-4, "m_tau": 0.1}
            M = getattr(mod, self.model)(beta=env["m_beta"], kappa=env["m_kappa"])
            R_ = getattr(mod, self.model + "Rating")
            sizes = [rnd.randint(1, 5) for _ in range(n)]
            game_ = [[R_(rnd.uniform(10, 40), rnd.uniform(1, 9)) for _ in range(sz)] for sz in sizes]
            vals = [[(p.mu, p.sigma) for p in t] for t in game_]
            native = M._compute(game_, list(self.ranks) if self.ranks is not None else None)
            for i in range(n):
                env[f"theta_{i}"] = sum(mu for mu, _ in vals[i])
                env[f"s_{i}"] = sum(sg * sg for _, sg in vals[i])
                env[f"L_{i}"] = float(sizes[i])
            for i in range(n):
                for j in range(sizes[i]):
                    env[f"mu_{i}_k"], env[f"sg_{i}_k"] = vals[i][j]
                    row = self.out[1][i]
                    a = evalterm.evalf(term(row.g.mu), env, extra)
                    b = evalterm.evalf(term(row.g.sigma), env, extra)
                    if abs(a - native[i][j].mu) > 1e-9 * (1 + abs(a)) or abs(b - native[i][j].sigma) > 1e-9 * (1 + abs(b)):
                        return False, f"sizes {sizes}: symbolic member result evaluates to ({a}, {b}), native _compute gives ({native[i][j].mu}, {native[i][j].sigma})"
        return True, "symbolic per-member result terms agree with native runs on teams of random sizes 1..5"


def field_rec(name, ok, backend, note, t, fn, shape, replay=None, kind="post", unbounded=False):
    return driver.rec(name, "discharged" if ok else "refuted", backend, t, kind=kind, fn=fn, shape=shape, mode="R",
                      unbounded=unbounded, replay=None if ok else replay, note=note)


def ge_rec(name, res, fn, shape, replay=None, kind="post"):
    verdict, backend, note, t, model = res
    return driver.rec(name, verdict, backend, t, kind=kind, fn=fn, shape=shape, mode="R",
                      replay=None if verdict == "discharged" else replay, note=note)


def scale_of(model):
    """pair scale with which the code equals the published update (K1: 2 for TM-partial)"""
    return 2 if model == "ThurstoneMostellerPart" else 1


def link(run, P=None, which=("mu", "sigma")):
    """obligation `_compute == published update` for this run (exact normal forms).
    Returns (ok, note, seconds, spec, details, prover)."""
    P = P or run.prover()
    det = {}
    spec = run.spec(pair_scale=scale_of(run.model), details=det)
    post = run.post()
    t0 = time.time()
    ok = True
    notes = []
    for i in range(len(run.sizes)):
        for j in range(run.sizes[i]):
            for k, nm in ((0, "mu"), (1, "sigma")):
                if nm not in which:
                    continue
                o, be, note, t = P.prove_eq(term(post[i][j][k]), term(spec[i][j][k]))
                if not o:
                    ok = False
                    notes.append(f"{nm}[{i},{j}]: {note}")
    return ok, "; ".join(notes)[:300], time.time() - t0, spec, det, P


def generic_lemma(name, build, fn="lemma", timeout_ms=20000):
    """a shape-independent lemma over fresh reals, discharged once by z3:
    build() -> (hypotheses, goal)"""
    from .. import tactics
    t0 = time.time()
    hyps, goal = build()
    r, be, m, why = tactics.check_sat(list(hyps) + [z3.Not(goal)], timeout_ms=timeout_ms)
    return driver.rec(name, "discharged" if r == "unsat" else ("refuted" if r == "sat" else "open"), be, time.time() - t0,
                      fn=fn, mode="R", unbounded=True, note=why)


def sqrt_inst(r, y):
    """A-sqrt instance for r = sqrt(y)"""
    return [z3.Implies(y >= 0, z3.And(r >= 0, r * r == y))]



class CodeWorld:
    """Several symbolic executions of the real _compute on the *same* symbolic
    game under different outcomes; obligations relate their result terms."""

    def __init__(self, model, sizes, identical=False):
        self.model, self.sizes, self.identical = model, tuple(sizes), identical
        self.runs = []

    def presentation(self, order, dense_ranks, player_order=None):
        """the real _compute on an explicit presentation (order of original teams, sorted dense ranks)"""
        run = ComputeRun(self.model, self.sizes, list(dense_ranks), "default", order=order, identical=self.identical, player_order=player_order)
        if not run.ok():
            raise EngineError(f"_compute raised {run.out[1]!r}")
        self.runs.append(run)
        return run

    def outcome(self, ranks_by_team):
        """ranks_by_team[i] = rank value of original team i (ties allowed).
        Returns the run; run.post()[i][j] is indexed by original team."""
        n = len(self.sizes)
        order = sorted(range(n), key=lambda i: (ranks_by_team[i], i))      # what rate's stable sort does
        vals = sorted(set(ranks_by_team))
        dense = [vals.index(ranks_by_team[k]) for k in order]
        run = ComputeRun(self.model, self.sizes, dense, "default", order=order, identical=self.identical)
        if not run.ok():
            raise EngineError(f"_compute raised {run.out[1]!r}")
        self.runs.append(run)
        return run

    def dmu(self, run, i, j=0):
        from ..symrt import active
        with active(run.ctx):
            return term(run.post()[i][j][0] - run.prior[i][j][0])

    def prover(self, timeout_ms=20000):
        hyps, seen = [], set()
        facts = []
        for r in self.runs:
            for h in r.hyps:
                if h.get_id() not in seen:
                    seen.add(h.get_id())
                    hyps.append(h)
            facts += list(r.ctx.facts.values())
        self._keep = hyps
        return field.Prover(hyps, facts, timeout_ms=timeout_ms)

    def apps(self, name):
        out = []
        for r in self.runs:
            out += list(r.ctx.apps.get(name, {}).values())
        return out
