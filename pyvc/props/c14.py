"""C14 - stateless calls: results independent of call history, identity and interleaving.

Single-call contracts (frame / footprint / functional dependence) on the real
rate and predict_* (real _compute, U-mode), plus syntactic frame scans of the
real AST.  Histories and thread schedules are not explored: see the
meta-argument in the evidence (disjoint write sets + never-written shared reads)."""
from __future__ import annotations

import time

import z3

from .. import driver, extract, game, scan
from ..symrt import KFLOAT, KINT, Ctx, SymNum, call, explore
from .util import enc_model, settle
from .c18 import _merge_canaries

PROP = "C14"
OPS = ("rate", "predict_win", "predict_draw", "predict_rank")
SHAPES_QUICK = [((1, 1), None), ((2, 1), [2, 1]), ((1, 1, 1), [1, 2, 1]), ((5, 2), [2, 1])]
SHAPES_THOROUGH = SHAPES_QUICK + [((1, 2), [1, 1]), ((2, 2, 1), None), ((1, 1, 1, 1), [3, 1, 1, 2]), ((1, 1, 1, 1, 1), None)]
ALLOWED_READERS = {"__deepcopy__", "__init__"}


def _do(m, op, teams, ranks=None, **kw):
    if op == "rate":
        return call(m.rate, teams, ranks=list(ranks) if ranks else None, **kw)
    return call(getattr(m, op), teams)


def unit(model, sizes, ranks):
    recs = []
    shape = f"sizes={sizes},ranks={ranks}"
    S = extract.Scratch(model)
    game.stub_gauss_uninterpreted(S)
    taint = game.install_taint(S)

    def rp_frame(op, a, b, use_t):
        def mk(md):
            return {"kind": "c14_frame", "model": model, "op": op, "a": a, "b": b,
                    "t": enc_model(md, "t") if use_t else None, "ranks": ranks,
                    "game": game.enc_game(md, sizes), "params": game.enc_params(md)}
        return mk

    # ---- single-call frame / footprint / dependence, all option combinations
    for op in OPS:
        opts = [(a, b, use_t) for a in (False, True) for b in (None, False, True) for use_t in (False, True)] \
            if op == "rate" else [(False, None, False)]
        for (a, b, use_t) in opts:
            ctx = Ctx("U")

            def run(ctx, op=op, a=a, b=b, use_t=use_t):
                del taint[:]
                m, params = game.mk_model(ctx, S, limit_sigma=a)
                teams = game.mk_teams(ctx, S, sizes)
                kw = {}
                allowed = {f"m_{k}" for k in ("mu0", "sigma0", "beta", "kappa", "tau")}
                allowed |= {f"mu_{i}_{j}" for i, n in enumerate(sizes) for j in range(n)}
                allowed |= {f"sg_{i}_{j}" for i, n in enumerate(sizes) for j in range(n)}
                if b is not None:
                    kw["limit_sigma"] = b
                if use_t:
                    t = ctx.number("t", kinds=(KINT, KFLOAT))
                    ctx.assume(t.t >= 0)
                    kw["tau"] = t
                    allowed |= {"t"}
                snap = game.snapshot(teams, m)
                ids = [[(p.__dict__["id"], p.__dict__["name"], p.__dict__["mu"], p.__dict__["sigma"], dict(p.__dict__)) for p in tm] for tm in teams]
                normal_state = (S.wl["_normal"]._mu, S.wl["_normal"]._sigma)
                nev = len(ctx.events)
                out = _do(m, op, teams, ranks, **kw)
                tag = f"[model_limit={a},limit={b},tau={'t' if use_t else None}]" if op == "rate" else ""
                fn = f"{model}.{op}"
                meta = {"replay": rp_frame(op, a, b, use_t), "fn": fn, "shape": shape}
                ctx.oblige(f"C14/{model}/{op}/model-frame{tag}@{shape}", game.heap_unchanged(snap, ("model",)), meta=meta)
                # footprint: only mu/sigma of the passed ratings may change (rate), nothing (predict)
                ok = True
                parts = []
                for tm, told in zip(teams, ids):
                    for p, old in zip(tm, told):
                        d = p.__dict__
                        # nothing but mu / sigma of a passed rating may be written: same attributes as before the
                        # call, every other attribute holding the very same object
                        if set(d) != set(old[4]) or any(d[k] is not old[4][k] for k in d if k not in ("mu", "sigma")):
                            ok = False
                        if op != "rate":
                            for k, o in (("mu", old[2]), ("sigma", old[3])):
                                r = game.same_value(d[k], o)
                                if r is False:
                                    ok = False
                                elif r is not True:
                                    parts.append(r)
                if (S.wl["_normal"]._mu, S.wl["_normal"]._sigma) != normal_state:
                    ok = False
                ctx.oblige(f"C14/{model}/{op}/footprint{tag}@{shape}", game.conj([ok] + parts), meta=meta)
                bad_reads = sorted({f"{a_}@{f_}" for (a_, f_) in taint if f_ not in ALLOWED_READERS})
                ctx.oblige(f"C14/{model}/{op}/no-id-read{tag}@{shape}", not bad_reads,
                           meta=dict(meta, note=str(bad_reads)))
                hashes = [e for e in ctx.events[nev:] if e[0] in ("hash", "id")]
                ctx.oblige(f"C14/{model}/{op}/no-hash-order{tag}@{shape}", not hashes, meta=meta)
                if out[0] == "return":
                    terms = [x for x in game.flatten(out[1]) if isinstance(x, z3.ExprRef)]
                    extra = sorted(game.free_symbols(terms) - allowed)
                    ctx.oblige(f"C14/{model}/{op}/depends-only-on{tag}@{shape}", not extra,
                               meta=dict(meta, note=str(extra)))
                else:
                    ctx.oblige(f"C14/{model}/{op}/returns{tag}@{shape}", False, meta=meta)
            explore(ctx, run)
            recs += settle(ctx.all_obls, mode="U")

    # ---- object identity: one list object (and its rating objects) in two slots == equal separate objects
    if len(sizes) >= 3 and sizes[0] == sizes[-1]:
        for op in OPS[1:]:
            ctx = Ctx("U")

            def run_alias(ctx, op=op):
                m, _ = game.mk_model(ctx, S)
                tA = game.mk_teams(ctx, S, sizes)
                tB = game.mk_teams(ctx, S, sizes)
                tA[-1] = tA[0]
                tB[-1] = [S.rating_cls(p.mu, p.sigma) for p in tB[0]]
                ra, rb = _do(m, op, tA), _do(m, op, tB)
                ctx.oblige(f"C14/{model}/{op}/object-identity-independent@{shape}", game.compare_outcomes(ra, rb),
                           meta={"fn": f"{model}.{op}", "shape": shape,
                                 "replay": lambda md: {"kind": "c14_alias", "model": model, "op": op, "game": game.enc_game(md, sizes), "params": game.enc_params(md)}})
            explore(ctx, run_alias)
            recs += settle(ctx.all_obls, mode="U")

    # ---- deep-copied twins: two copies of one rating (same id, same values) in one game == independently built players
    if len(set(sizes)) == 1:
        import copy as _copy
        ctx = Ctx("U")

        def run_twins(ctx):
            m, _ = game.mk_model(ctx, S)
            base = game.mk_teams(ctx, S, sizes)
            tA = [base[0]] + [[_copy.deepcopy(p) for p in base[0]] for _ in sizes[1:]]
            b2 = game.mk_teams(ctx, S, sizes)
            tB = [b2[0]] + [[S.rating_cls(p.mu, p.sigma) for p in b2[0]] for _ in sizes[1:]]
            ra, rb = _do(m, "rate", tA, ranks), _do(m, "rate", tB, ranks)
            ctx.oblige(f"C14/{model}/rate/deep-copied-twins-rated-like-independent-players@{shape}", game.compare_outcomes(ra, rb),
                       meta={"fn": f"{model}.rate", "shape": shape,
                             "replay": lambda md: {"kind": "c14_twins", "model": model, "ranks": ranks, "game": game.enc_game(md, sizes), "params": game.enc_params(md)}})
        explore(ctx, run_twins)
        recs += settle(ctx.all_obls, mode="U")

    # ---- the rating objects themselves carry no history: objects that have been rated before (with other
    # options) give what fresh objects holding the same current values give
    if sizes in ((1, 1), (2, 1)):
        for op in OPS:
            for (first_kw, second_kw) in (({}, {"limit_sigma": True}), ({"limit_sigma": True}, {}), ({}, {})):
                if op != "rate" and second_kw:
                    continue
                ctx = Ctx("U")

                def run_oh(ctx, op=op, first_kw=first_kw, second_kw=second_kw):
                    mA, _ = game.mk_model(ctx, S)
                    mB, _ = game.mk_model(ctx, S)
                    used = game.mk_teams(ctx, S, sizes)
                    r1 = _do(mA, "rate", used, ranks, **first_kw)
                    if r1[0] != "return":
                        ctx.oblige(f"C14/{model}/{op}/rated-objects-behave-like-fresh-ones@{shape}", False, meta={"fn": f"{model}.{op}", "shape": shape})
                        return
                    fresh = [[S.rating_cls(p.mu, p.sigma) for p in t] for t in used]
                    ra = _do(mA, op, used, ranks, **(second_kw if op == "rate" else {}))
                    rb = _do(mB, op, fresh, ranks, **(second_kw if op == "rate" else {}))
                    mk = lambda md: {"kind": "c14_objhist", "model": model, "op": op, "first": first_kw, "second": second_kw, "ranks": ranks,
                                     "game": game.enc_game(md, sizes), "params": game.enc_params(md)}
                    ctx.oblige(f"C14/{model}/{op}/rated-objects-behave-like-fresh-ones[first={first_kw or 'plain'},then={second_kw or 'plain'}]@{shape}",
                               game.compare_outcomes(ra, rb), meta={"replay": mk, "fn": f"{model}.{op}", "shape": shape})
                explore(ctx, run_oh)
                recs += settle(ctx.all_obls, mode="U")

    # ---- history independence: any first call, then op == fresh model's op
    firsts = [("rate", None, True), ("rate", True, False), ("rate", False, False), ("predict_win", None, False)]
    for op in OPS:
        for (op1, b, use_t) in firsts:
            for a in (False, True):
                if (op != "rate" and a) or (sizes != (1, 1) and (op1 == "predict_win" or b is False)):
                    continue
                ctx = Ctx("U")

                def run_h(ctx, op=op, op1=op1, a=a, b=b, use_t=use_t):
                    mA, _ = game.mk_model(ctx, S, limit_sigma=a)
                    mB, _ = game.mk_model(ctx, S, limit_sigma=a)
                    kw = {}
                    if b is not None:
                        kw["limit_sigma"] = b
                    if use_t:
                        t = ctx.number("t", kinds=(KINT, KFLOAT))
                        ctx.assume(t.t >= 0)
                        kw["tau"] = t
                    if op1 == "rate":
                        r1 = _do(mA, op1, game.mk_teams(ctx, S, (1, 1), tag="g1"), None, **kw)
                    else:
                        r1 = _do(mA, op1, game.mk_teams(ctx, S, (1, 1), tag="g1"))
                    ra = _do(mA, op, game.mk_teams(ctx, S, sizes), ranks)
                    rb = _do(mB, op, game.mk_teams(ctx, S, sizes), ranks)

                    def mk(md, clause=None):
                        return {"kind": "c14_history", "model": model, "op": op, "op1": op1, "a": a, "b": b,
                                "t": enc_model(md, "t") if use_t else None, "ranks": ranks, "clause": clause,
                                "game": game.enc_game(md, sizes), "game1": game.enc_game(md, (1, 1), "g1"),
                                "params": game.enc_params(md)}
                    nm = f"C14/{model}/{op}/history-independent[first={op1},model_limit={a},limit={b},tau={'t' if use_t else None}]@{shape}"
                    ctx.oblige(nm, game.compare_outcomes(ra, rb), meta={"replay": mk, "fn": f"{model}.{op}", "shape": shape})
                    if sizes == (1, 1) and op == "rate" and op1 == "rate" and b is None and not a:
                        # canary: "a model with another beta gives the same result"
                        mC, _ = game.mk_model(ctx, S, tag="c", limit_sigma=a)
                        rc = _do(mC, op, game.mk_teams(ctx, S, sizes), ranks)
                        ctx.oblige(f"C14/{model}/{op}/history-independent/canary@{shape}", game.compare_outcomes(ra, rc), kind="canary",
                                   meta={"replay": lambda md: mk(md, "canary"), "fn": f"{model}.{op}", "shape": shape})
                explore(ctx, run_h)
                recs += _merge_canaries(settle(ctx.all_obls, mode="U"))
    return recs


def unit_anysize(model, n, ranks):
    """model-frame, footprint, no-id-read, no-hash-order, depends-only-on and history independence for n teams
    of every size (pyvc/teams.py; U-mode: a float sum over a team is an opaque function of the team and the
    summed member-wise term, whose own symbols are checked as well)"""
    try:
        return _unit_anysize(model, n, ranks)
    except Exception as e:  # noqa: BLE001
        from ..symrt import UncutLoop
        if isinstance(e, UncutLoop):
            return [driver.rec(f"C14/{model}/any-team-size/unbounded-proof@n={n},ranks={ranks}", "note", "explorer", 0, kind="note", fn=f"{model}.rate",
                               shape=f"n={n},any-team-size", note=f"not attempted: {e}")]
        raise


def _unit_anysize(model, n, ranks):
    from .. import teams as T
    recs = []
    shape = f"n={n},any-team-size,ranks={ranks}"
    S = T.scratch(model)
    game.stub_gauss_uninterpreted(S)
    taint = game.install_taint(S)
    mk_teams = lambda ctx, tag="": [T.SymTeam(ctx, S.rating_cls, i, tag=tag) for i in range(n)]

    def sums_ok(ctx, allowed):
        """the member-wise terms that were summed over a team mention allowed symbols only"""
        bad = set()
        for (_nm, terms) in getattr(ctx, "usum_log", []):
            bad |= {x for x in game.free_symbols(list(terms)) - allowed if not x.startswith(("usum!", "ufold!"))}
        return sorted(bad)

    for op in OPS:
        opts = [(a, b, use_t) for a in (False, True) for b in (None, False, True) for use_t in (False, True)] if op == "rate" else [(False, None, False)]
        for (a, b, use_t) in opts:
            ctx = Ctx("U")

            def run(ctx, op=op, a=a, b=b, use_t=use_t):
                del taint[:]
                m, params = game.mk_model(ctx, S, limit_sigma=a)
                teams = mk_teams(ctx)
                ctx.team_heap = [m]
                kw = {}
                allowed = {f"m_{k}" for k in ("mu0", "sigma0", "beta", "kappa", "tau")}
                allowed |= {f"mu_{i}_k" for i in range(n)} | {f"sg_{i}_k" for i in range(n)} | {f"L_{i}" for i in range(n)} | {f"k_{i}" for i in range(n)}
                if b is not None:
                    kw["limit_sigma"] = b
                if use_t:
                    t = ctx.number("t", kinds=(KINT, KFLOAT))
                    ctx.assume(t.t >= 0)
                    kw["tau"] = t
                    allowed |= {"t"}
                snap = game.snapshot([[tm.g] for tm in teams], m)
                ids = [(tm.g.__dict__["id"], tm.g.__dict__["name"], tm.g.__dict__["mu"], tm.g.__dict__["sigma"], dict(tm.g.__dict__)) for tm in teams]
                nev = len(ctx.events)
                out = _do(m, op, teams, ranks, **kw)
                tag = f"[model_limit={a},limit={b},tau={'t' if use_t else None}]" if op == "rate" else ""
                fn = f"{model}.{op}"
                rp = lambda md, op=op, a=a, b=b, use_t=use_t: {"kind": "c14_frame", "model": model, "op": op, "a": a, "b": b, "t": enc_model(md, "t") if use_t else None,
                                                                "ranks": ranks, "game": [[[{"v": [25 + i, 1], "k": "float"}, {"v": [8 - j, 1], "k": "float"}] for j in range(5 - i)] for i in range(n)],
                                                                "params": game.enc_params(md)}
                meta = {"replay": rp, "fn": fn, "shape": shape}
                T.guard(out)
                ctx.oblige(f"C14/{model}/{op}/any-team-size/model-frame{tag}@{shape}", game.heap_unchanged(snap, ("model",)), meta=meta)
                ok, parts = True, []
                for tm, old in zip(teams, ids):
                    d = tm.g.__dict__
                    if set(d) != set(old[4]) or any(d[k] is not old[4][k] for k in d if k not in ("mu", "sigma")):
                        ok = False
                    if op != "rate":
                        for k, o in (("mu", old[2]), ("sigma", old[3])):
                            r = game.same_value(d[k], o)
                            if r is False:
                                ok = False
                            elif r is not True:
                                parts.append(r)
                ctx.oblige(f"C14/{model}/{op}/any-team-size/footprint{tag}@{shape}", game.conj([ok] + parts), meta=meta)
                bad_reads = sorted({f"{a_}@{f_}" for (a_, f_) in taint if f_ not in ALLOWED_READERS})
                ctx.oblige(f"C14/{model}/{op}/any-team-size/no-id-read{tag}@{shape}", not bad_reads, meta=dict(meta, note=str(bad_reads)))
                hashes = [e for e in ctx.events[nev:] if e[0] in ("hash", "id")]
                ctx.oblige(f"C14/{model}/{op}/any-team-size/no-hash-order{tag}@{shape}", not hashes, meta=meta)
                terms = [x for x in game.flatten(out[1]) if isinstance(x, z3.ExprRef)]
                extra = sorted(x for x in game.free_symbols(terms) - allowed if not x.startswith(("usum!", "ufold!"))) + sums_ok(ctx, allowed)
                ctx.oblige(f"C14/{model}/{op}/any-team-size/depends-only-on{tag}@{shape}", not extra, meta=dict(meta, note=str(extra)))
            explore(ctx, run)
            recs += settle(ctx.all_obls, mode="U")
    # history independence: a first rate() with per-call options on another game, then op == a fresh model's op
    for op in OPS:
        for (b, use_t) in ((None, True), (True, False)):
            ctx = Ctx("U")

            def run_h(ctx, op=op, b=b, use_t=use_t):
                mA, _ = game.mk_model(ctx, S)
                mB, _ = game.mk_model(ctx, S)
                kw = {}
                if b is not None:
                    kw["limit_sigma"] = b
                if use_t:
                    t = ctx.number("t", kinds=(KINT, KFLOAT))
                    ctx.assume(t.t >= 0)
                    kw["tau"] = t
                _do(mA, "rate", [T.SymTeam(ctx, S.rating_cls, i, tag="g1") for i in range(2)], None, **kw)
                ra = _do(mA, op, mk_teams(ctx), ranks)
                rb = _do(mB, op, mk_teams(ctx), ranks)
                T.guard(ra, rb)
                mk = lambda md: {"kind": "c14_history", "model": model, "op": op, "op1": "rate", "a": False, "b": b, "t": enc_model(md, "t") if use_t else None, "ranks": ranks,
                                 "clause": None, "game": [[[{"v": [25 + i, 1], "k": "float"}, {"v": [8 - j, 1], "k": "float"}] for j in range(5 - i)] for i in range(n)],
                                 "game1": [[[{"v": [20, 1], "k": "float"}, {"v": [7, 1], "k": "float"}]], [[{"v": [30, 1], "k": "float"}, {"v": [6, 1], "k": "float"}]]], "params": game.enc_params(md)}
                ctx.oblige(f"C14/{model}/{op}/any-team-size/history-independent[limit={b},tau={'t' if use_t else None}]@{shape}", game.compare_outcomes(ra, rb),
                           meta={"replay": mk, "fn": f"{model}.{op}", "shape": shape})
            explore(ctx, run_h)
            recs += settle(ctx.all_obls, mode="U")
    return recs


from ..symrt import UncutLoop as UncutLoopT  # noqa: E402


def unit_scan():
    """Syntactic frame obligations, re-evaluated from the AST."""
    recs = []
    files = list(extract.MODEL_FILES.values()) + [extract.WL_COMMON, extract.COMMON]
    for rel in files:
        t0 = time.time()
        tree = extract.parse(rel)
        f1 = scan.shared_state_writes(tree)
        recs.append(driver.rec(f"C14/scan/no-shared-state-write[{rel}]", "discharged" if not f1 else "refuted", "ast-scan",
                               time.time() - t0, fn=rel, unbounded=True, note=str(f1[:5]),
                               replay={"kind": "scan", "file": rel, "scan": "writes", "finding": str(f1[:3])} if f1 else None))
        f2 = scan.hash_order_uses(tree)
        recs.append(driver.rec(f"C14/scan/no-hash-order[{rel}]", "discharged" if not f2 else "refuted", "ast-scan",
                               time.time() - t0, fn=rel, unbounded=True, note=str(f2[:5]),
                               replay={"kind": "scan", "file": rel, "scan": "hash_order", "finding": str(f2[:3])} if f2 else None))
    # canary: the scanner must find the store in a known-bad snippet
    import ast
    bad = ast.parse("class M:\n    def rate(self, x, limit_sigma=None):\n        if limit_sigma is not None:\n            self.limit_sigma = limit_sigma\n        self._cache[x] = 1\n        _G.append(x)\n_G = []\n")
    fb = scan.shared_state_writes(bad)
    recs.append(driver.rec("C14/scan/canary", "refuted" if len(fb) >= 3 else "discharged", "ast-scan", 0.0, kind="canary", fn="scan"))
    return recs


def units(tier):
    shapes = SHAPES_QUICK if tier == "quick" else SHAPES_THOROUGH
    return [("unit_scan", ())] + [("unit", (m, s, r)) for m in extract.MODELS for (s, r) in shapes] + \
        [("unit_anysize", (m, n, r)) for m in extract.MODELS for (n, r) in ([(2, [2, 1])] if tier == "quick" else [(2, [2, 1]), (2, None), (3, [1, 2, 1])])]


def main(tier, seed):
    t0 = time.time()
    records, errors, walls = driver.run_units(__name__, units(tier))
    fns = {f"{extract.MODEL_FILES[m]}::{m}.{f}" for m in extract.MODELS for f in
           ("rate", "predict_win", "predict_draw", "predict_rank", "_check_teams", "_compute", "_calculate_team_ratings",
            "_calculate_rankings", "_c", "_sum_q", "_a", "__init__")}
    fns |= {f"{extract.WL_COMMON}::{f}" for f in ("_unwind", "_ladder_pairs")} | {f"{extract.COMMON}::{f}" for f in ("_unary_minus", "_rank_data", "_arg_sort", "_matrix_transpose")}
    return driver.finish(
        PROP, tier, seed, "other", records, errors, walls, t0,
        functions=fns,
        assumptions=[
            "U-mode: every float operation is a deterministic function of its operand values; NaN excluded",
            "phi_major/phi_minor/phi_major_inverse/v/w/vt/wt are stubbed as deterministic functions of their arguments; that they write no shared state is established by the syntactic scan of weng_lin/common.py in this check",
            "META (not machine-checked): from model-frame + footprint + no-shared-state-write, two calls on disjoint ratings through one model have disjoint write sets and read only never-written shared state (constructor parameters, the module constant _normal), "
            "so every interleaving of their GIL-atomic attribute accesses yields what either sequential order yields, and no call can observe an earlier one; thread schedules and long histories are NOT explored",
            "hash-seed independence: no hash()/id()/set use on any path or in the AST; dicts in the code are keyed by small ints in insertion order (not checked syntactically)",
            "shapes listed in coverage.shapes; all values symbolic",
        ],
        explanation=("Frame and functional-dependence contracts of rate/predict_win/predict_draw/predict_rank decided on the real code (real _compute) executed on symbolic games: at every exit model.__dict__ equals its entry snapshot, only mu/sigma of the passed ratings are written, "
                     "rating ids/names are read by nobody but __deepcopy__ (taint descriptors), no hash()/id() is evaluated, the result terms mention only constructor parameters, the passed mu/sigma and the call's own arguments, and a call after any earlier call (any per-call tau/limit_sigma) "
                     "returns terms identical to a fresh model's. Plus AST scans: no store to self/module-level/mutable-default state outside __init__ in any of the seven source files. Deductive per shape, bounded over shapes; schedules/histories covered by the stated meta-argument only."),
        shapes=[f"{s}/{r}" for (s, r) in (SHAPES_QUICK if tier == "quick" else SHAPES_THOROUGH)],
    )
