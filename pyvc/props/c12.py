"""C12 - predictions equal their documented pairwise-Gaussian closed forms.

The real predict_win / predict_draw / predict_rank (phi_major, phi_major_inverse
replaced by their contracts Phi, PhiInv) are executed on symbolic teams; each
result term is proved identical, as an exact normal form, to the closed form of
the property (pyvc/specs/predict.py)."""
from __future__ import annotations

import time

import z3

from .. import driver, extract
from ..symrt import term, explore, call, active, SymNum
from .predutil import PredictWorld, eq_rec, ge_rec, shapes, std_replay, generic_guard

PROP = "C12"


@generic_guard("C12")
def unit(model, sizes, generic=False):
    """generic: sizes = (1,)*n and every team has a symbolic number of members (the listed member is
    the arbitrary one, the aggregates are symbols): the same obligations for teams of every size"""
    recs = []
    n = len(sizes)
    shape = f"sizes={sizes}" if not generic else f"n={len(sizes)},any-team-size"
    W = PredictWorld(model, sizes, generic=generic)
    rpw = std_replay("c12_closed", model, sizes, op="predict_win")
    rpd = std_replay("c12_closed", model, sizes, op="predict_draw")
    rpr = std_replay("c12_closed", model, sizes, op="predict_rank")
    # ---- predict_rank (with _rank_data replaced by its contract: one path)
    fn = f"{model}.predict_rank"
    t0 = time.time()
    okr, notes, npaths = True, [], 0
    from .. import field
    for out in [W.run("predict_rank")]:
        npaths += 1
        if out[0] != "return" or len(out[1]) != n:
            okr = False
            notes.append(repr(out[1])[:100])
            continue
        sr = W.spec("rank")
        P = W.prover(timeout_ms=5000)
        for i in range(n):
            ok, be, note, t = P.prove_eq(term(out[1][i][1]), term(sr[i]))
            if not ok:
                # the code returns abs(p_i): its argument is a sum of Phi values, hence >= 0
                P.resolve_ites([term(out[1][i][1])])
                ok, be, note, t = P.prove_eq(term(out[1][i][1]), term(sr[i]))
            if not ok:
                okr = False
                notes.append(note)
    recs.append(driver.rec(f"C12/{model}/predict_rank/closed-form@{shape}", "discharged" if okr and npaths else "refuted", "field", time.time() - t0,
                           fn=fn, shape=shape, mode="R", replay=None if okr else rpr, note=f"{npaths} paths; " + "; ".join(notes)[:200]))
    # ---- predict_win, predict_draw (single path)
    ow = W.run("predict_win")
    od = W.run("predict_draw")
    seconds = {op: W.run_second_instance(op) for op in ("predict_win", "predict_draw", "predict_rank")}
    sw, sd = W.spec("win"), W.spec("draw")
    P = W.prover()
    fn = f"{model}.predict_win"
    if ow[0] != "return" or len(ow[1]) != n:
        recs.append(driver.rec(f"C12/{model}/predict_win/returns@{shape}", "refuted", "explorer", 0, fn=fn, shape=shape, replay=rpw, note=repr(ow[1])[:200]))
    else:
        for i in range(n):
            recs.append(eq_rec(P, f"C12/{model}/predict_win/closed-form[{i}]@{shape}", term(ow[1][i]), term(sw[i]), fn, shape, rpw))
        wrong = P.prove_eq(term(ow[1][0]), term(sw[1]))[0]
        recs.append(driver.rec(f"C12/{model}/predict_win/canary-wrong-team@{shape}", "discharged" if wrong else "refuted", "field", 0, kind="canary",
                               fn=fn, shape=shape, replay=dict(rpw, clause="canary")))
    fn = f"{model}.predict_draw"
    if od[0] != "return":
        recs.append(driver.rec(f"C12/{model}/predict_draw/returns@{shape}", "refuted", "explorer", 0, fn=fn, shape=shape, replay=rpd, note=repr(od[1])[:200]))
    else:
        # the code returns |S| / D, the closed form is S / D: the sign test inside abs is decided
        # from Phi-monotonicity instances (S >= 0), after which both normal forms must coincide
        t0 = time.time()
        P.resolve_ites([term(od[1])], extra_hyps=W.phi_monotone(P))
        r = eq_rec(P, f"C12/{model}/predict_draw/closed-form@{shape}", term(od[1]), term(sd), fn, shape, rpd)
        r["time"] = round(time.time() - t0, 3)
        recs.append(r)
    # ---- a second instance of the class (other beta), after the first one has predicted: still its own closed form
    P = W.prover()
    for op, which in (("predict_win", "win"), ("predict_draw", "draw"), ("predict_rank", "rank")):
        out, beta2 = seconds[op]
        fn = f"{model}.{op}"
        rp2 = std_replay("c12_second", model, sizes, op=op)
        ok = out[0] == "return"
        if ok:
            sp = W.spec(which, beta=beta2)
            got = [term(out[1])] if op == "predict_draw" else ([term(x) for x in out[1]] if op == "predict_win" else [term(p) for (_r, p) in out[1]])
            want = [term(sp)] if op == "predict_draw" else [term(x) for x in sp]
            P.resolve_ites(got, extra_hyps=W.phi_monotone(P))
            ok = len(got) == len(want) and all(P.prove_eq(g, w)[0] for g, w in zip(got, want))
        recs.append(driver.rec(f"C12/{model}/{op}/closed-form-on-a-second-instance@{shape}", "discharged" if ok else "refuted", "field", 0,
                               fn=fn, shape=shape, mode="R", replay=None if ok else rp2))
    from .predutil import history_records
    if n <= 3 and not generic:
        recs += history_records("C12", W, model, sizes, ("predict_win", "predict_draw", "predict_rank"))
    return recs


def units(tier):
    us = [("unit", (m, s)) for m in extract.MODELS for s in shapes(tier, nmax=4 if tier == "quick" else 6)] + [("unit", (m, (1,) * n, True)) for m in extract.MODELS for n in range(2, (4 if tier == "quick" else 6) + 1)]
    if tier == "quick":
        us += [("unit", (m, (1,) * 6)) for m in extract.MODELS]
    return us


def main(tier, seed):
    t0 = time.time()
    records, errors, walls = driver.run_units(__name__, units(tier))
    fns = {f"{extract.MODEL_FILES[m]}::{m}.{f}" for m in extract.MODELS for f in ("predict_win", "predict_draw", "predict_rank", "_calculate_team_ratings", "_calculate_rankings", "_check_teams")}
    fns |= {f"{extract.COMMON}::_rank_data", f"{extract.COMMON}::_arg_sort"}
    return driver.finish(
        PROP, tier, seed, "other", records, errors, walls, t0,
        functions=fns,
        assumptions=[
            __import__("pyvc.props.anysize", fromlist=["A_SUM"]).A_SUM,
            "A-fp: exact equality over the reals with the documented formula; the property's '1e-9 absolute against a high-precision evaluation' is not decided",
            "phi_major / phi_major_inverse enter as Phi / PhiInv (their bodies are C17's business); A-Phi reflection Phi(-x) = 1 - Phi(x) is used by the normaliser [A-Phi is machine-checked against Mathlib in lemmas/Phi.lean for Phi := the standard Gaussian CDF (thorough tier of C17); that libm's erfc/2 is this Phi stays assumed]",
            "the numeric constants sqrt(N), (1+1/N)/2, n(n-1)/2 are the doubles both the code and the documented formula evaluate to",
            "predict_draw: the code returns |S|/D; S >= 0 is proved with Phi-monotonicity instances (A-Phi)",
            "oracle pyvc/specs/predict.py transcribed from the property text",
            "shape-bounded: team-size vectors in coverage.shapes, all values symbolic",
        ],
        explanation=("The real predict_win, predict_draw and predict_rank of each model (real _check_teams, _calculate_team_ratings, itertools.permutations / zip_longest grouping run natively) are executed on symbolic teams with phi_major and phi_major_inverse replaced by their contracts; "
                     "every returned probability term is proved identical as an exact normal form to the property's closed form (two-team and n-team win, margin-shifted rank probabilities on every path of the ranking, draw as the ordered-pair average of the band probability)."),
        shapes=[str(s) for s in shapes(tier, nmax=4 if tier == "quick" else 6)] + [f"n=2..{4 if tier == 'quick' else 6} teams of every size (symbolic member counts)"],
    )
