"""C20 - ratings can be built, stored and restored without changing any later result.

Loop-free constructors/copies: unbounded, U-mode.  Rebuild-identical: relational
obligations on the real rate/predict_* per shape."""
from __future__ import annotations

import copy
import time

import z3

from .. import driver, extract, game
from ..symrt import AnyObj, Ctx, SymNum, call, explore
from .util import enc_model, settle
from .c18 import _merge_canaries

PROP = "C20"
NUMTAGS = (AnyObj.BOOL, AnyObj.INT, AnyObj.FLOAT)
SHAPES_QUICK = [((1, 1), None), ((2, 1), [2, 1]), ((1, 1, 1), [1, 2, 1]), ((5, 2), [2, 1])]
SHAPES_THOROUGH = SHAPES_QUICK + [((1, 2), [1, 1]), ((2, 2, 1), None), ((1, 1, 1, 1), [3, 1, 1, 2])]
OPS = ("rate", "predict_win", "predict_draw", "predict_rank")


def _is_hex_id(x):
    return isinstance(x, str) and len(x) == 32 and all(c in "0123456789abcdef" for c in x)


class FakeUUIDModule:
    """stands in for the `uuid` module: uuid4() hands out recognisable tokens, anything else is
    not the assumed-fresh source (A-uuid is about uuid4 only)"""

    class _Tok:
        def __init__(self, n):
            self.hex = "ABCDEF0123456789abcdef00" + f"{n:08x}"

        def __str__(self):
            return self.hex

    def __init__(self):
        self.issued = []

    def uuid4(self):
        t = FakeUUIDModule._Tok(len(self.issued))
        self.issued.append(t)
        return t

    def __getattr__(self, name):
        raise AttributeError(f"uuid.{name} is not the assumed-fresh id source")


def unit_ctor(model):
    S = extract.Scratch(model)
    M, Rc = S.cls, S.rating_cls
    recs = []
    # ---- the id of a new rating is the hex of one fresh uuid4() call (A-uuid then gives uniqueness)
    S2 = extract.Scratch(model)
    fake = FakeUUIDModule()
    S2.ns["uuid"] = fake
    ctx = Ctx("U")

    def run_id(ctx):
        del fake.issued[:]
        m, _ = game.mk_model(ctx, S2, assume_domain=False)
        outs = [call(m.rating), call(m.rating, mu=ctx.number("x_mu"), sigma=ctx.number("x_sigma"), name="bob"),
                call(S2.cls.create_rating, [ctx.number("x_mu"), ctx.number("x_sigma")])]
        ok = all(o[0] == "return" for o in outs) and len(fake.issued) == 3
        if ok:
            ok = all(o[1].id == tok.hex.lower() for o, tok in zip(outs, fake.issued))
        ctx.oblige(f"C20/{model}/rating/id-is-one-fresh-uuid4-per-construction", bool(ok),
                   meta={"fn": f"{model}Rating.__init__", "replay": {"kind": "c20_idsource", "model": model}})
    explore(ctx, run_id)
    recs += settle(ctx.all_obls, mode="U", unbounded=True)
    fnr = f"{model}.rating"
    fnc = f"{model}.create_rating"

    # ---- rating(mu, sigma, name): each argument given or omitted
    for gmu in (False, True):
        for gsg in (False, True):
            for nm_mode in ("none", "empty", "str", "sym"):
                ctx = Ctx("U")

                def run(ctx, gmu=gmu, gsg=gsg, nm_mode=nm_mode):
                    m, params = game.mk_model(ctx, S, assume_domain=False)
                    mu = ctx.number("x_mu") if gmu else None
                    sg = ctx.number("x_sigma") if gsg else None
                    nm = {"none": None, "empty": "", "str": "bob"}.get(nm_mode)
                    if nm_mode == "sym":
                        nm = AnyObj("name", ctx, allowed=(AnyObj.NONE, AnyObj.STR))
                    out = call(m.rating, mu=mu, sigma=sg, name=nm)
                    out2 = call(m.rating, mu=mu, sigma=sg, name=nm)

                    def mk(md, clause=None):
                        return {"kind": "c20_rating", "model": model, "params": game.enc_params(md), "clause": clause,
                                "mu": enc_model(md, "x_mu") if gmu else None, "sigma": enc_model(md, "x_sigma") if gsg else None,
                                "name": {"none": None, "empty": "", "str": "bob", "sym": "sym"}[nm_mode]}
                    tag = f"[mu={'given' if gmu else 'omitted'},sigma={'given' if gsg else 'omitted'},name={nm_mode}]"
                    meta = {"replay": mk, "fn": fnr}
                    if out[0] != "return" or out2[0] != "return":
                        ctx.oblige(f"C20/{model}/rating/values{tag}", False, meta=meta)
                        return
                    r, r2 = out[1], out2[1]
                    want_mu = mu if gmu else m.mu
                    want_sg = sg if gsg else m.sigma
                    ok = game.conj([type(r) is Rc, game.same_value(r.mu, want_mu), game.same_value(r.sigma, want_sg)])
                    ctx.oblige(f"C20/{model}/rating/values{tag}", ok, meta=meta)
                    ctx.oblige(f"C20/{model}/rating/name{tag}", r.name is nm, meta=meta)
                    ctx.oblige(f"C20/{model}/rating/fresh-id{tag}", _is_hex_id(r.id) and _is_hex_id(r2.id) and r.id != r2.id and r is not r2, meta=meta)
                    if gmu and nm_mode == "none":
                        ctx.oblige(f"C20/{model}/rating/values/canary{tag}", game.conj([game.same_value(r.mu, m.mu)]), kind="canary",
                                   meta={"replay": lambda md: mk(md, "canary"), "fn": fnr})
                explore(ctx, run)
                recs += _merge_canaries(settle(ctx.all_obls, mode="U", unbounded=True))

    # ---- create_rating([mu, sigma], name)
    for nm_mode in ("omitted", "none", "str", "sym"):
        ctx = Ctx("U")

        def run_c(ctx, nm_mode=nm_mode):
            x, y = ctx.number("x_mu"), ctx.number("x_sigma")
            kw = {}
            nm = None
            if nm_mode == "none":
                kw["name"] = None
            elif nm_mode == "str":
                nm = kw["name"] = "bob"
            elif nm_mode == "sym":
                nm = kw["name"] = AnyObj("name", ctx, allowed=(AnyObj.NONE, AnyObj.STR))
            out = call(M.create_rating, [x, y], **kw)

            def mk(md, clause=None):
                return {"kind": "c20_create", "model": model, "mu": enc_model(md, "x_mu"), "sigma": enc_model(md, "x_sigma"),
                        "name": "bob" if nm_mode in ("str", "sym") else None, "clause": clause}
            meta = {"replay": mk, "fn": fnc}
            tag = f"[name={nm_mode}]"
            if out[0] != "return":
                ctx.oblige(f"C20/{model}/create_rating/values{tag}", False, meta=meta)
                return
            r = out[1]
            ctx.oblige(f"C20/{model}/create_rating/values{tag}",
                       game.conj([type(r) is Rc, game.same_value(r.mu, x), game.same_value(r.sigma, y), _is_hex_id(r.id)]), meta=meta)
            if nm_mode == "sym":
                # a non-empty name is kept; None (and the empty string, which the
                # property's "names" exclude) gives name None
                truthy = ctx.decide(z3.And(nm.tag == AnyObj.STR, nm.length > 0))
                ctx.oblige(f"C20/{model}/create_rating/name{tag}", (r.name is nm) if truthy else (r.name is None), meta=meta)
            else:
                ctx.oblige(f"C20/{model}/create_rating/name{tag}", r.name is nm, meta=meta)
            if nm_mode == "omitted":
                ctx.oblige(f"C20/{model}/create_rating/values/canary", game.conj([game.same_value(r.mu, y)]), kind="canary",
                           meta={"replay": lambda md: mk(md, "canary"), "fn": fnc})
        explore(ctx, run_c)
        recs += _merge_canaries(settle(ctx.all_obls, mode="U", unbounded=True))

    # ---- create_rating rejects: not a list / wrong length / non-number element
    ctx = Ctx("U")

    def run_r1(ctx):
        a = AnyObj("arg", ctx, own_cls=Rc)
        # a *list* is handled by the element-wise obligations below
        ctx.assume(a.tag != AnyObj.LIST)
        out = call(M.create_rating, a)

        def mk(md):
            tg = md.get("tag!arg", [AnyObj.OTHER, 1])
            return {"kind": "c20_reject", "model": model, "arg": {"form": "tag", "tag": AnyObj.NAMES[tg[0]]}}
        ok = out[0] == "raise" and type(out[1]) in (TypeError, ValueError)
        ctx.oblige(f"C20/{model}/create_rating/rejects[non-list]", bool(ok), meta={"replay": mk, "fn": fnc})
    explore(ctx, run_r1)
    recs += settle(ctx.all_obls, mode="U", unbounded=True)
    for n in (0, 1, 3, 4):
        ctx = Ctx("U")

        def run_r2(ctx, n=n):
            out = call(M.create_rating, [ctx.number(f"e{k}") for k in range(n)])
            ok = out[0] == "raise" and type(out[1]) in (TypeError, ValueError)
            ctx.oblige(f"C20/{model}/create_rating/rejects[len={n}]", bool(ok),
                       meta={"replay": {"kind": "c20_reject", "model": model, "arg": {"form": "len", "n": n}}, "fn": fnc})
        explore(ctx, run_r2)
        recs += settle(ctx.all_obls, mode="U", unbounded=True)
    ctx = Ctx("U")

    def run_r3(ctx):
        e0 = AnyObj("e0", ctx, own_cls=Rc)
        e1 = AnyObj("e1", ctx, own_cls=Rc)
        out = call(M.create_rating, [e0, e1])
        isnum = lambda e: z3.Or([e.tag == t for t in NUMTAGS])
        wf = ctx.decide(z3.And(isnum(e0), isnum(e1)))

        def mk(md, clause=None):
            t0 = md.get("tag!e0", [AnyObj.OTHER, 1])[0]
            t1 = md.get("tag!e1", [AnyObj.OTHER, 1])[0]
            pos, tg = (0, t0) if t0 not in NUMTAGS else (1, t1)
            return {"kind": "c20_reject", "model": model, "clause": clause, "arg": {"form": "elem", "pos": pos, "tag": AnyObj.NAMES[tg]}}
        if wf:
            ok = out[0] == "return" and out[1].mu is e0 and out[1].sigma is e1
            ctx.oblige(f"C20/{model}/create_rating/accepts[two numbers of any kind]", bool(ok), meta={"fn": fnc})
        else:
            ok = out[0] == "raise" and type(out[1]) in (TypeError, ValueError)
            ctx.oblige(f"C20/{model}/create_rating/rejects[non-number element]", bool(ok), meta={"replay": mk, "fn": fnc})
            ctx.oblige(f"C20/{model}/create_rating/rejects/canary", out[0] == "return", kind="canary",
                       meta={"replay": lambda md: mk(md, "canary"), "fn": fnc})
    explore(ctx, run_r3)
    recs += _merge_canaries(settle(ctx.all_obls, mode="U", unbounded=True))

    # ---- deepcopy of a rating and of nested team lists
    for sizes in ((1,), (2, 1), (1, 3, 2)):
        ctx = Ctx("U")

        def run_d(ctx, sizes=sizes):
            teams = [[Rc(ctx.number(f"mu_{i}_{j}"), ctx.number(f"sg_{i}_{j}"), name=(f"n{i}{j}" if (i + j) % 2 else None))
                      for j in range(n)] for i, n in enumerate(sizes)]
            single = sizes == (1,)
            if len(sizes) >= 2:
                # a stored snapshot next to the live player: two distinct objects carrying one id
                teams[1][0].id = teams[0][0].id
            src = teams[0][0] if single else teams
            out = call(copy.deepcopy, src)

            def mk(md, clause=None):
                return {"kind": "c20_deepcopy", "model": model, "single": single, "clause": clause,
                        "game": [[[enc_model(md, f"mu_{i}_{j}"), enc_model(md, f"sg_{i}_{j}")] for j in range(n)] for i, n in enumerate(sizes)]}
            meta = {"replay": mk, "fn": f"{model}Rating.__deepcopy__", "shape": str(sizes), "unbounded": single}
            nm = f"C20/{model}Rating/deepcopy" + ("" if single else f"/nested@{sizes}")
            if out[0] != "return":
                ctx.oblige(nm, False, meta=meta)
                return
            c = out[1]
            if single:
                pairs = [(src, c)]
                ok = True
            else:
                ok = (c is not src and isinstance(c, list) and len(c) == len(src)
                      and all(isinstance(y, list) and x is not y and len(x) == len(y) for x, y in zip(src, c)))
                pairs = [(a, b) for x, y in zip(src, c) for a, b in zip(x, y)] if ok else []
            parts = [ok]
            for a, b in pairs:
                parts += [a is not b, type(a) is type(b), game.same_value(a.mu, b.mu), game.same_value(a.sigma, b.sigma),
                          a.name is b.name or a.name == b.name, isinstance(b.id, str) and a.id == b.id,
                          set(b.__dict__) == set(a.__dict__)]
            ctx.oblige(nm, game.conj(parts), meta=meta)
            if single:
                ctx.oblige(nm + "/canary", c.id != src.id, kind="canary", meta={"replay": lambda md: mk(md, "canary"), "fn": meta["fn"]})
        explore(ctx, run_d)
        recs += _merge_canaries(settle(ctx.all_obls, mode="U"))
    return recs


def unit_rebuild(model, sizes, ranks, twins=False, generic=False):
    try:
        return _unit_rebuild(model, sizes, ranks, twins, generic)
    except Exception as e:  # noqa: BLE001
        from ..symrt import UncutLoop
        if generic and isinstance(e, UncutLoop):
            return [driver.rec(f"C20/{model}/rebuild-identical/any-team-size/unbounded-proof@n={len(sizes)}", "note", "explorer", 0, kind="note", fn=f"{model}.rate",
                               shape=f"n={len(sizes)},any-team-size", note=f"not attempted: {e}")]
        raise


def _unit_rebuild(model, sizes, ranks, twins, generic):
    """twins: the first player of every other team is a stored snapshot (copy.deepcopy: same id, same
    values, distinct object) of the first player of team 0 - a player against her own stored ghost"""
    import copy as _copy
    recs = []
    shape = (f"sizes={sizes}" if not generic else f"n={len(sizes)},any-team-size") + f",ranks={ranks}" + (",stored snapshot of a player in the same game" if twins else "")
    if generic:
        # sizes = (1,)*n: teams of symbolic size (pyvc/teams.py); rebuilding a team = rebuilding its arbitrary member
        from .. import teams as T
        S = T.scratch(model)
    else:
        S = extract.Scratch(model)
    game.stub_gauss_uninterpreted(S)
    from .c14 import _do
    for op in OPS:
        for via in ("rating", "create_rating"):
            ctx = Ctx("U")

            def run(ctx, op=op, via=via):
                m1, _ = game.mk_model(ctx, S)
                m2, _ = game.mk_model(ctx, S)
                if generic:
                    g1 = [T.SymTeam(ctx, S.rating_cls, i) for i in range(len(sizes))]
                    g0 = [T.SymTeam(ctx, S.rating_cls, i) for i in range(len(sizes))]
                    for t in g0:
                        t.g = m2.rating(t.g.mu, t.g.sigma) if via == "rating" else S.cls.create_rating([t.g.mu, t.g.sigma])
                else:
                    g1 = game.mk_teams(ctx, S, sizes)
                    g0 = game.mk_teams(ctx, S, sizes)
                if twins:
                    for i in range(1, len(sizes)):
                        g1[i][0] = _copy.deepcopy(g1[0][0])
                        g0[i][0].mu, g0[i][0].sigma = g0[0][0].mu, g0[0][0].sigma
                if generic:
                    g2 = g0
                elif via == "rating":
                    g2 = [[m2.rating(p.mu, p.sigma) for p in t] for t in g0]
                else:
                    g2 = [[S.cls.create_rating([p.mu, p.sigma]) for p in t] for t in g0]
                ra = _do(m1, op, g1, ranks)
                rb = _do(m2, op, g2, ranks)
                if generic:
                    from .. import teams as _T
                    _T.guard(ra, rb)

                def mk(md, clause=None):
                    return {"kind": "c14_rebuild", "model": model, "op": op, "via": via, "ranks": ranks, "clause": clause, "twins": bool(twins),
                            "game": game.enc_game(md, sizes), "params": game.enc_params(md)}
                ctx.oblige(f"C20/{model}/{op}/rebuild-identical[via={via}]@{shape}", game.compare_outcomes(ra, rb),
                           meta={"replay": mk, "fn": f"{model}.{op}", "shape": shape})
                if op == "predict_win" and via == "rating" and sizes == (1, 1) and not generic:
                    g3 = game.mk_teams(ctx, S, sizes)
                    g3[0][0].mu = g3[0][0].mu + 1.0
                    rc = _do(m2, op, g3, ranks)
                    ctx.oblige(f"C20/{model}/{op}/rebuild-identical/canary@{shape}", game.compare_outcomes(ra, rc), kind="canary",
                               meta={"replay": lambda md: mk(md, "canary"), "fn": f"{model}.{op}", "shape": shape})
            explore(ctx, run)
            recs += _merge_canaries(settle(ctx.all_obls, mode="U"))
    # league step: game, rebuild every player from (mu, sigma), next game - also when the first game ran with
    # limit_sigma in force (the clamp writes sigma back: a value derived from sigma and kept on the object would be stale)
    if ranks is None and not twins and not generic:
        for op in OPS:
            for first_kw in ({}, {"limit_sigma": True}):
                if first_kw and sizes not in ((1, 1), (2, 1)):
                    continue
                ctx = Ctx("U")

                def run2(ctx, op=op, first_kw=first_kw):
                    m1, _ = game.mk_model(ctx, S)
                    m2, _ = game.mk_model(ctx, S)
                    r1 = call(m1.rate, game.mk_teams(ctx, S, sizes), **first_kw)
                    r2 = call(m2.rate, game.mk_teams(ctx, S, sizes), **first_kw)
                    tag = "[first game with limit_sigma]" if first_kw else ""
                    if r1[0] != "return" or r2[0] != "return":
                        ctx.oblige(f"C20/{model}/{op}/league-step{tag}@{shape}", False, meta={"fn": f"{model}.{op}", "shape": shape})
                        return
                    rebuilt = [[m2.rating(p.mu, p.sigma) for p in t] for t in r2[1]]
                    ra = _do(m1, op, r1[1], None)
                    rb = _do(m2, op, rebuilt, None)
                    mk = lambda md: {"kind": "c20_chain", "model": model, "op": op, "first": first_kw, "game": game.enc_game(md, sizes), "params": game.enc_params(md)}
                    ctx.oblige(f"C20/{model}/{op}/league-step{tag}@{shape}", game.compare_outcomes(ra, rb),
                               meta={"replay": mk, "fn": f"{model}.{op}", "shape": shape})
                explore(ctx, run2)
                recs += settle(ctx.all_obls, mode="U")
    return recs


def units(tier):
    shapes = SHAPES_QUICK if tier == "quick" else SHAPES_THOROUGH
    return [("unit_ctor", (m,)) for m in extract.MODELS] + [("unit_rebuild", (m, s, r)) for m in extract.MODELS for (s, r) in shapes] + \
        [("unit_rebuild", (m, (2, 1), [1, 2], True)) for m in extract.MODELS] + \
        [("unit_rebuild", (m, (1,) * n, r, False, True)) for m in extract.MODELS for (n, r) in ([(2, [2, 1]), (3, None)] if tier == "quick" else [(2, [2, 1]), (2, None), (3, None), (3, [1, 2, 1]), (4, None)])]


def main(tier, seed):
    t0 = time.time()
    records, errors, walls = driver.run_units(__name__, units(tier))
    fns = {f"{extract.MODEL_FILES[m]}::{m}.{f}" for m in extract.MODELS for f in
           ("rating", "create_rating", "__init__", "rate", "predict_win", "predict_draw", "predict_rank")}
    fns |= {f"{extract.MODEL_FILES[m]}::{m}Rating.{f}" for m in extract.MODELS for f in ("__init__", "__deepcopy__")}
    return driver.finish(
        PROP, tier, seed, "other", records, errors, walls, t0,
        functions=fns,
        assumptions=[
            "A-uuid: uuid.uuid4().hex values are pairwise distinct (freshness is checked on two native draws per path only)",
            "copy.deepcopy dispatches to __deepcopy__ and copies lists element-wise (runs natively)",
            "the empty-string name is mapped to None by create_rating; the property's 'names' are taken to be non-empty strings or None",
            "U-mode: float operations are deterministic functions of operand values; Gaussian helpers stubbed as pure functions",
            "rebuild-identical / league-step: shapes listed in coverage.shapes; constructor and copy obligations are loop-free and unbounded",
        ],
        explanation=("Constructors and copies (rating, create_rating incl. its rejections, __init__, __deepcopy__, nested deepcopy) are executed from the real AST on numbers of symbolic value and kind (zero, negative, False included) and on arguments of symbolic dynamic type; "
                     "each path's result is proved to hold exactly the given values. Rebuild-identical and the league step are relational obligations on the real rate/predict_* (real _compute): players rebuilt through rating()/create_rating() from (mu, sigma) give identical uninterpreted-IEEE result terms."),
        shapes=[f"{s}/{r}" for (s, r) in (SHAPES_QUICK if tier == "quick" else SHAPES_THOROUGH)],
    )
