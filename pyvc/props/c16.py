"""C16 - results do not depend on the unit or origin of the skill scale.

Relational R-mode obligations: two symbolic executions of the real rate() /
predict_*() on the same symbolic game, the second with every mu, sigma and the
model's beta, tau multiplied by a symbolic k > 0 (scale; rate: PL and both BT
models) or with a symbolic constant added to every mu (shift; equal team sizes;
all five models); the result terms must satisfy  B = k*A  /  B = A + a  (rate)
and B = A (predictions) as exact normal forms."""
from __future__ import annotations

import time

import z3

from .. import driver, extract, field, game
from ..symrt import Ctx, active, call, explore, per_path, term
from .computil import field_rec, scale_of
from .predutil import rank_data_contract
from .. import teams as T
from . import c01

PROP = "C16"
SCALE_RATE = ("PlackettLuce", "BradleyTerryFull", "BradleyTerryPart")
PREDICTS = ("predict_win", "predict_draw", "predict_rank")


def _world(model, sizes, mode, inplace=False, generic=False):
    """(ctx, modelA, modelB, teamsA builder, teamsB builder, k or a).
    inplace: the rescaled model B is an existing model whose mu, sigma, beta, tau attributes were
    multiplied afterwards (the property speaks of 'the model's mu, sigma, beta and tau', not of how
    the model came to have them) - a value derived from beta at construction time would be stale"""
    if generic:
        # sizes = (1,)*n: every team has a symbolic number of members (pyvc/teams.py); for the shift
        # clause all teams share one size symbol ("the same number of players")
        from .. import teams as T
        S = T.scratch(model)
    else:
        S = extract.Scratch(model)
    game.stub_tm_real(S)
    game.stub_phi_real(S)
    S.ns["_rank_data"] = rank_data_contract
    ctx = Ctx("R", feas_timeout_ms=300)
    with active(ctx):
        mA, params = game.mk_model(ctx, S)
        ctx.assume(term(params["kappa"]) <= 1)
        if mode == "scale":
            k = ctx.real("k")
            ctx.assume(k.t > 0)
            if inplace:
                mB = S.cls(mu=params["mu"], sigma=params["sigma"], beta=params["beta"], kappa=params["kappa"], tau=params["tau"])
                mB.mu, mB.sigma, mB.beta, mB.tau = params["mu"] * k, params["sigma"] * k, params["beta"] * k, params["tau"] * k
            else:
                mB = S.cls(mu=params["mu"] * k, sigma=params["sigma"] * k, beta=params["beta"] * k, kappa=params["kappa"], tau=params["tau"] * k)
        else:
            k = ctx.real("a")
            mB = S.cls(mu=params["mu"], sigma=params["sigma"], beta=params["beta"], kappa=params["kappa"], tau=params["tau"])
        if generic:
            shared = z3.Int("L_all") if mode == "shift" else None
            gbase = [T.SymTeam(ctx, S.rating_cls, i, L=shared) for i in range(len(sizes))]
            prior = [[(t.g.mu, t.g.sigma)] for t in gbase]
        else:
            base = game.mk_teams(ctx, S, sizes)
            prior = [[(p.mu, p.sigma) for p in t] for t in base]

    def teams(which):
        if generic:
            import copy as _copy
            out = []
            for t0 in gbase:
                t = _copy.deepcopy(t0)
                t.root = t
                if which == "B":
                    # every member's mu / sigma scaled or shifted: the aggregates follow by linearity (sum_of)
                    t.g.mu, t.g.sigma = (t.g.mu * k, t.g.sigma * k) if mode == "scale" else (t.g.mu + k, t.g.sigma)
                out.append(t)
            return out
        R = S.rating_cls
        out = []
        for i, row in enumerate(prior):
            t = []
            for j, (mu, sg) in enumerate(row):
                if which == "B":
                    mu, sg = (mu * k, sg * k) if mode == "scale" else (mu + k, sg)
                t.append(R(mu, sg, name=f"p{i}_{j}"))
            out.append(t)
        return out
    return ctx, S, mA, mB, teams, k


def unit_rate(model, sizes, mode, ranks, inplace=False, generic=False):
    recs = []
    shape = (f"sizes={sizes}" if not generic else f"n={len(sizes)},any-team-size") + f",ranks={ranks}" + (",model rescaled in place" if inplace else "")
    fn = f"{model}.rate"
    member = (lambda row, j: row.g) if generic else (lambda row, j: row[j])
    try:
        ctx, S, mA, mB, teams, k = _world(model, sizes, mode, inplace, generic)
        with active(ctx):
            tA, tB = per_path(teams("A")), per_path(teams("B"))
            oa = ctx.merged(lambda i: call(mA.rate, tA(i), ranks=list(ranks) if ranks else None))
            ob = ctx.merged(lambda i: call(mB.rate, tB(i), ranks=list(ranks) if ranks else None))
        if generic:
            T.guard(oa, ob)
    except Exception as e:  # noqa: BLE001
        from ..symrt import UncutLoop
        if generic and isinstance(e, UncutLoop):
            return [driver.rec(f"C16/{model}/rate/{mode}/any-team-size/unbounded-proof@{shape}", "note", "explorer", 0, kind="note", fn=fn, shape=shape, note=f"not attempted: {e}")]
        raise
    return _unit_rate_tail(model, sizes, mode, ranks, inplace, generic, shape, fn, member, ctx, k, oa, ob)


def _unit_rate_tail(model, sizes, mode, ranks, inplace, generic, shape, fn, member, ctx, k, oa, ob):
    recs = []
    rp = c01._std_replay(model, sizes if not generic else (2,) * len(sizes), ranks, "default", scale_of(model))
    rp["kind"] = "c16_rate"
    rp["mode"] = mode
    rp["inplace"] = bool(inplace)
    if oa[0] != "return" or ob[0] != "return":
        return [driver.rec(f"C16/{model}/rate/{mode}@{shape}", "refuted", "explorer", 0, fn=fn, shape=shape, replay=rp, note=repr((oa[1], ob[1]))[:200])]
    P = field.Prover(ctx.hyps(), list(ctx.facts.values()))
    ok, notes = True, []
    t0 = time.time()
    for i in range(len(sizes)):
        for j in range(sizes[i]):
            a, b = member(oa[1][i], j), member(ob[1][i], j)
            with active(ctx):
                if mode == "scale":
                    wm, ws = a.mu * k, a.sigma * k
                else:
                    wm, ws = a.mu + k, a.sigma
            for got, want, nm in ((b.mu, wm, "mu"), (b.sigma, ws, "sigma")):
                o, be, note, t = P.prove_eq(term(got), term(want))
                if not o:
                    ok = False
                    notes.append(f"{nm}[{i},{j}] {note}")
    recs.append(field_rec(f"C16/{model}/rate/{mode}@{shape}", ok, "field", "; ".join(notes)[:300], time.time() - t0, fn, shape, rp))
    if ranks is None and sizes == (1, 1) and not inplace and not generic:
        # canary: scaling / shifting only the *ratings* (not as claimed) - "sigma is unchanged by scaling" must fail
        o = P.prove_eq(term(ob[1][0][0].sigma), term(oa[1][0][0].sigma))[0] if mode == "scale" else P.prove_eq(term(ob[1][0][0].mu), term(oa[1][0][0].mu))[0]
        recs.append(driver.rec(f"C16/{model}/rate/{mode}/canary-no-effect@{shape}", "discharged" if o else "refuted", "field", 0, kind="canary", fn=fn, shape=shape,
                               replay=dict(rp, clause="canary")))
    return recs


def unit_predict(model, sizes, mode, inplace=False, generic=False):
    recs = []
    shape = (f"sizes={sizes}" if not generic else f"n={len(sizes)},any-team-size") + (",model rescaled in place" if inplace else "")
    res = {}
    try:
        ctx, S, mA, mB, teams, k = _world(model, sizes, mode, inplace, generic)
        with active(ctx):
            for op in PREDICTS:
                tA, tB = per_path(teams("A")), per_path(teams("B"))
                res[op] = (ctx.merged(lambda i, op=op, tA=tA: call(getattr(mA, op), tA(i))), ctx.merged(lambda i, op=op, tB=tB: call(getattr(mB, op), tB(i))))
                if generic:
                    T.guard(*res[op])
    except Exception as e:  # noqa: BLE001
        from ..symrt import UncutLoop
        if generic and isinstance(e, UncutLoop):
            return [driver.rec(f"C16/{model}/predict/{mode}/any-team-size/unbounded-proof@{shape}", "note", "explorer", 0, kind="note", fn=f"{model}.predict_*", shape=shape,
                               note=f"not attempted: {e}")]
        raise
    P = field.Prover(ctx.hyps(), list(ctx.facts.values()))
    for op in PREDICTS:
        oa, ob = res[op]
        fn = f"{model}.{op}"
        rp = {"kind": "c16_predict", "model": model, "op": op, "mode": mode, "inplace": bool(inplace), "game": c01._std_replay(model, sizes, None, "default")["game"]}
        t0 = time.time()
        ok = oa[0] == "return" and ob[0] == "return"
        notes = []
        if ok:
            fa, fb = game.flatten(oa[1]), game.flatten(ob[1])
            ok = len(fa) == len(fb)
            for x, y in zip(fa, fb):
                if isinstance(x, z3.ExprRef) and isinstance(y, z3.ExprRef):
                    o, be, note, t = P.prove_eq(x, y)
                    if not o:
                        # rank terms contain comparisons of probabilities: equal if the probabilities are
                        P.resolve_ites([x, y])
                        o, be, note, t = P.prove_eq(x, y)
                    if not o:
                        ok = False
                        notes.append(note)
                elif x != y:
                    ok = False
        recs.append(field_rec(f"C16/{model}/{op}/{mode}@{shape}", ok, "field", "; ".join(notes)[:300], time.time() - t0, fn, shape, rp))
    return recs


def units(tier):
    us = []
    rate_shapes = [((1, 1), None), ((2, 1), [1, 1]), ((1, 1, 1), [2, 1, 2]), ((6, 5), [1, 2])] if tier == "quick" else \
        [((1, 1), None), ((2, 1), [1, 1]), ((1, 1, 1), [2, 1, 2]), ((2, 1, 3), None), ((1, 1, 1, 1), [1, 2, 2, 3]), ((1,) * 6, [1, 2, 2, 3, 3, 3])]
    shift_shapes = [((1, 1), None), ((2, 2), [1, 1]), ((1, 1, 1), [2, 1, 2]), ((5, 5), [2, 1])] if tier == "quick" else \
        [((1, 1), None), ((2, 2), [1, 1]), ((1, 1, 1), [2, 1, 2]), ((3, 3), [2, 1]), ((2, 2, 2, 2), [1, 2, 2, 3]), ((1,) * 6, [1, 2, 2, 3, 3, 3])]
    for m in extract.MODELS:
        if m in SCALE_RATE:
            for s, r in rate_shapes:
                us.append(("unit_rate", (m, s, "scale", r)))
            us.append(("unit_rate", (m, (2, 1), "scale", [1, 2], True)))
        us.append(("unit_predict", (m, (1, 1, 1), "scale", True)))
        # teams of every size (shift: one shared symbolic size)
        for n in ((2, 3) if tier == "quick" else (2, 3, 4)):
            rk = [1, 2, 2, 3][:n]
            if m in SCALE_RATE:
                us.append(("unit_rate", (m, (1,) * n, "scale", rk, False, True)))
            us.append(("unit_rate", (m, (1,) * n, "shift", rk, False, True)))
            us.append(("unit_predict", (m, (1,) * n, "scale", False, True)))
            us.append(("unit_predict", (m, (1,) * n, "shift", False, True)))
        for s, r in shift_shapes:
            us.append(("unit_rate", (m, s, "shift", r)))
        for s in ([(1, 1), (2, 1), (1, 1, 1), (6, 5)] if tier == "quick" else [(1, 1), (2, 1), (2, 3), (6, 5), (1, 1, 1), (2, 1, 3), (1, 1, 1, 1)]):
            us.append(("unit_predict", (m, s, "scale")))
        for s in ([(1, 1), (2, 2), (1, 1, 1), (5, 5)] if tier == "quick" else [(1, 1), (2, 2), (3, 3), (5, 5), (1, 1, 1), (2, 2, 2), (1, 1, 1, 1)]):
            us.append(("unit_predict", (m, s, "shift")))
    if tier == "thorough":
        us.append(("unit_lean", ()))
    if tier == "quick":
        us += [("unit_rate", (m, (1,) * 6, "scale", [1, 2, 2, 3, 3, 3])) for m in extract.MODELS if m in SCALE_RATE] + [("unit_rate", (m, (1,) * 6, "shift", [1, 2, 2, 3, 3, 3])) for m in extract.MODELS] + [("unit_predict", (m, (1,) * 6, "scale")) for m in extract.MODELS]
    return us


def unit_lean():
    """machine-check A-exp / A-sqrt (the analytic facts the normaliser uses) against Mathlib"""
    import os
    import subprocess
    from .. import VERIF
    t0 = time.time()
    path = os.path.join(VERIF, "lemmas", "Axioms.lean")
    try:
        p = subprocess.run(["lake", "env", "lean", path], cwd="/opt/veriftools/mathlib4", capture_output=True, text=True, timeout=900)
        ok = p.returncode == 0 and "error" not in (p.stdout + p.stderr).lower() and "sorry" not in (p.stdout + p.stderr).lower()
        note = (p.stdout + p.stderr)[-300:]
    except Exception as e:  # noqa: BLE001
        ok, note = False, repr(e)
    return [driver.rec("C16/lemmas/A-exp-and-A-sqrt-checked-by-Lean-Mathlib", "discharged" if ok else "open", "lean4+mathlib", time.time() - t0,
                       kind="vacuity", fn="lemmas/Axioms.lean", note=note)]


def main(tier, seed):
    t0 = time.time()
    records, errors, walls = driver.run_units(__name__, units(tier))
    fns = {f"{extract.MODEL_FILES[m]}::{m}.{f}" for m in extract.MODELS for f in ("rate", "_compute", "predict_win", "predict_draw", "predict_rank", "_calculate_team_ratings", "_c", "_sum_q", "_a")}
    return driver.finish(
        PROP, tier, seed, "other", records, errors, walls, t0,
        functions=fns,
        assumptions=[
            "A-sqrt: sqrt(k^2 x) = k sqrt(x) for k > 0; A-exp: exp(a+b) = exp a exp b (used by the normaliser; Lean/Mathlib check in the thorough tier)",
            "A-fp: 'to floating-point accuracy' is exact equality over the reals",
            "kappa is not rescaled (dimensionless for Plackett-Luce / Bradley-Terry); the Thurstone-Mosteller rate under scaling is not claimed by the property and no obligation is generated for it; a custom gamma must be scale-free (default gamma used)",
            "shift obligations use equal team sizes, as the property states; predictions with _rank_data replaced by its contract (C11)",
            "shape-bounded (coverage.shapes), concrete rank patterns incl. ties and unsorted ranks",
        ],
        explanation=("Two symbolic executions of the real rate() and predict_*() on the same symbolic game, the second with all mu, sigma, beta, tau multiplied by symbolic k > 0 or all mu shifted by a symbolic constant: posterior mu and sigma scale by k / mu shifts by the constant and sigma is unchanged, and all three predictions are unchanged - each as an identity of exact normal forms (k is pulled out of every sqrt, cancels in every exp argument and Phi argument)."),
        shapes=sorted({str(u[1][1:]) for u in units(tier) if u[0] != "unit_lean"})[:40],
    )
