"""Concrete checkers used by replay.py: each evaluates one obligation's clause on
the real code with concrete inputs.  Pure Python (runs under the test
interpreter, no z3).  CHECKERS[kind](recipe) -> (violated, message);
SEARCHERS[kind](recipe, seed) -> (recipe', message) | None."""
import copy
import fractions
import importlib
import math
import operator
import os
import random
import sys

CHECKERS = {}
SEARCHERS = {}

MODEL_MODULES = {
    "PlackettLuce": "openskill.models.weng_lin.plackett_luce",
    "BradleyTerryFull": "openskill.models.weng_lin.bradley_terry_full",
    "BradleyTerryPart": "openskill.models.weng_lin.bradley_terry_part",
    "ThurstoneMostellerFull": "openskill.models.weng_lin.thurstone_mosteller_full",
    "ThurstoneMostellerPart": "openskill.models.weng_lin.thurstone_mosteller_part",
}
MODELS = list(MODEL_MODULES)


def checker(kind):
    def deco(f):
        CHECKERS[kind] = f
        return f
    return deco


def searcher(kind):
    def deco(f):
        SEARCHERS[kind] = f
        return f
    return deco


def _repo_on_path():
    repo = os.environ.get("PYVC_REPO", "/repo")
    if sys.path[0] != repo:
        sys.path.insert(0, repo)


def model_cls(name):
    _repo_on_path()
    return getattr(importlib.import_module(MODEL_MODULES[name]), name)


def rating_cls(name):
    _repo_on_path()
    return getattr(importlib.import_module(MODEL_MODULES[name]), name + "Rating")


def wl_common():
    _repo_on_path()
    return importlib.import_module("openskill.models.weng_lin.common")


def common():
    _repo_on_path()
    return importlib.import_module("openskill.models.common")


def num(d):
    """decode {'v':[p,q],'k':kind} (or a bare number)"""
    if isinstance(d, (int, float, bool)) or d is None:
        return d
    fr = fractions.Fraction(d["v"][0], d["v"][1])
    k = d.get("k", "float")
    if k == "bool":
        return bool(fr)
    if k == "int":
        return int(fr) if fr.denominator == 1 else int(round(fr))
    return float(fr)


def enc(x):
    if isinstance(x, bool):
        return {"v": [int(x), 1], "k": "bool"}
    if isinstance(x, int):
        return {"v": [x, 1], "k": "int"}
    fr = fractions.Fraction(x)
    return {"v": [fr.numerator, fr.denominator], "k": "float"}


def foreign_object(tag, own_model):
    """A concrete value of the AnyObj grammar alternative ``tag``."""
    others = [m for m in MODELS if m != own_model]
    table = {
        "None": None, "bool": True, "int": 7, "float": 2.5, "str": "abc",
        "tuple": (1, 2), "dict": {"a": 1}, "list": [1, 2],
        "other-object": object(),
    }
    if tag == "foreign-rating":
        return rating_cls(others[0])(25.0, 8.0)
    if tag.startswith("rating-of:"):
        return rating_cls(tag.split(":", 1)[1])(25.0, 8.0)
    return table[tag]


# ---------------------------------------------------------------- C18
OPS = {"lt": operator.lt, "le": operator.le, "gt": operator.gt, "ge": operator.ge}


def _ordinal_spec(mu, sigma, z=3.0):
    return mu - z * sigma


@checker("c18_order")
def c18_order(rp):
    R = rating_cls(rp["model"])
    a = R(num(rp["a"][0]), num(rp["a"][1]))
    b = R(num(rp["b"][0]), num(rp["b"][1]))
    op = rp["op"]
    got = OPS[op](a, b)
    spec_op = op
    if rp.get("clause") == "canary":
        spec_op = {"lt": "le", "le": "lt", "gt": "ge", "ge": "gt"}[op]
    want = OPS[spec_op](_ordinal_spec(a.mu, a.sigma), _ordinal_spec(b.mu, b.sigma))
    return (got is not want), f"{rp['model']}Rating({a.mu},{a.sigma}) {op} ({b.mu},{b.sigma}) -> {got!r}, ordinals {spec_op}: {want!r}"


@searcher("c18_order")
def c18_order_search(rp, seed):
    rnd = random.Random(seed)
    for _ in range(20000):
        a = [rnd.choice([-3, -1, 0, 0.5, 1, 2, 3, 25, 25.5]), rnd.choice([-2, 0, 0.5, 1, 2, 3, 8.5])]
        b = [rnd.choice([-3, -1, 0, 0.5, 1, 2, 3, 25, 25.5]), rnd.choice([-2, 0, 0.5, 1, 2, 3, 8.5])]
        r2 = dict(rp, a=[enc(a[0]), enc(a[1])], b=[enc(b[0]), enc(b[1])])
        bad, msg = c18_order(r2)
        if bad:
            return r2, msg
    return None


@checker("c18_ordinal")
def c18_ordinal(rp):
    R = rating_cls(rp["model"])
    a = R(num(rp["a"][0]), num(rp["a"][1]))
    if rp.get("z") is None:
        got, want = a.ordinal(), _ordinal_spec(a.mu, a.sigma)
    else:
        z = num(rp["z"])
        got, want = a.ordinal(z), _ordinal_spec(a.mu, a.sigma, z)
    if rp.get("clause") == "canary":
        want = a.mu + 3.0 * a.sigma
    return (got != want), f"ordinal -> {got!r}, mu - z*sigma = {want!r}"


@searcher("c18_ordinal")
def c18_ordinal_search(rp, seed):
    rnd = random.Random(seed)
    for _ in range(2000):
        r2 = dict(rp, a=[enc(rnd.uniform(-50, 50)), enc(rnd.uniform(0, 10))])
        if rp.get("z") is not None:
            r2["z"] = enc(rnd.choice([0, 1, 2.5, 3, -1]))
        bad, msg = c18_ordinal(r2)
        if bad:
            return r2, msg
    return None


@checker("c18_eq")
def c18_eq(rp):
    R = rating_cls(rp["model"])
    a = R(num(rp["a"][0]), num(rp["a"][1]))
    b = R(num(rp["b"][0]), num(rp["b"][1]))
    got = (a == b)
    want = (a.mu == b.mu and a.sigma == b.sigma)
    if rp.get("clause") == "canary":
        want = (a.mu == b.mu)
    return (got is not want), f"({a.mu},{a.sigma}) == ({b.mu},{b.sigma}) -> {got!r}, expected {want!r}"


@searcher("c18_eq")
def c18_eq_search(rp, seed):
    rnd = random.Random(seed)
    for _ in range(5000):
        a = [rnd.choice([0, 1, 2.5]), rnd.choice([0, 1, 2.5])]
        b = [rnd.choice([0, 1, 2.5]), rnd.choice([0, 1, 2.5])]
        r2 = dict(rp, a=[enc(a[0]), enc(a[1])], b=[enc(b[0]), enc(b[1])])
        bad, msg = c18_eq(r2)
        if bad:
            return r2, msg
    return None


@checker("c18_foreign")
def c18_foreign(rp):
    R = rating_cls(rp["model"])
    a = R(num(rp["a"][0]), num(rp["a"][1]))
    other = foreign_object(rp["tag"], rp["model"])
    op = rp["op"]
    if op == "eq":
        try:
            got = (a == other)
        except Exception as e:  # noqa: BLE001
            return True, f"== {rp['tag']} raised {type(e).__name__}"
        want = False if rp.get("clause") != "canary" else True
        return (got is not want), f"rating == {rp['tag']} -> {got!r}"
    try:
        got = OPS[op](a, other)
    except ValueError:
        return (rp.get("clause") == "canary"), f"rating {op} {rp['tag']} raised ValueError"
    except Exception as e:  # noqa: BLE001
        return True, f"rating {op} {rp['tag']} raised {type(e).__name__}, not ValueError"
    return (rp.get("clause") != "canary"), f"rating {op} {rp['tag']} returned {got!r} instead of raising ValueError"
