"""Concrete checkers used by replay.py: each evaluates one obligation's clause on
the real code with concrete inputs.  Pure Python (runs under the test
interpreter, no z3).  CHECKERS[kind](recipe) -> (violated, message);
SEARCHERS[kind](recipe, seed) -> (recipe', message) | None."""
import copy
import fractions
import importlib
import math
import operator
import os
import random
import sys

CHECKERS = {}
SEARCHERS = {}

MODEL_MODULES = {
    "PlackettLuce": "openskill.models.weng_lin.plackett_luce",
    "BradleyTerryFull": "openskill.models.weng_lin.bradley_terry_full",
    "BradleyTerryPart": "openskill.models.weng_lin.bradley_terry_part",
    "ThurstoneMostellerFull": "openskill.models.weng_lin.thurstone_mosteller_full",
    "ThurstoneMostellerPart": "openskill.models.weng_lin.thurstone_mosteller_part",
}
MODELS = list(MODEL_MODULES)


def checker(kind):
    def deco(f):
        CHECKERS[kind] = f
        return f
    return deco


def searcher(kind):
    def deco(f):
        SEARCHERS[kind] = f
        return f
    return deco


def _repo_on_path():
    repo = os.environ.get("PYVC_REPO", "/repo")
    if sys.path[0] != repo:
        sys.path.insert(0, repo)


def model_cls(name):
    _repo_on_path()
    return getattr(importlib.import_module(MODEL_MODULES[name]), name)


def rating_cls(name):
    _repo_on_path()
    return getattr(importlib.import_module(MODEL_MODULES[name]), name + "Rating")


def wl_common():
    _repo_on_path()
    return importlib.import_module("openskill.models.weng_lin.common")


def common():
    _repo_on_path()
    return importlib.import_module("openskill.models.common")


def num(d):
    """decode {'v':[p,q],'k':kind} (or a bare number)"""
    if isinstance(d, (int, float, bool)) or d is None:
        return d
    fr = fractions.Fraction(d["v"][0], d["v"][1])
    k = d.get("k", "float")
    if k == "bool":
        return bool(fr)
    if k == "int":
        return int(fr) if fr.denominator == 1 else int(round(fr))
    return float(fr)


def enc(x):
    if isinstance(x, bool):
        return {"v": [int(x), 1], "k": "bool"}
    if isinstance(x, int):
        return {"v": [x, 1], "k": "int"}
    fr = fractions.Fraction(x)
    return {"v": [fr.numerator, fr.denominator], "k": "float"}


def foreign_object(tag, own_model):
    """A concrete value of the AnyObj grammar alternative ``tag``."""
    others = [m for m in MODELS if m != own_model]
    table = {
        "None": None, "bool": True, "int": 7, "float": 2.5, "str": "abc",
        "tuple": (1, 2), "dict": {"a": 1}, "list": [1, 2],
        "other-object": object(),
    }
    if tag == "foreign-rating":
        return rating_cls(others[0])(25.0, 8.0)
    if tag.startswith("rating-of:"):
        return rating_cls(tag.split(":", 1)[1])(25.0, 8.0)
    return table[tag]


# ---------------------------------------------------------------- C18
OPS = {"lt": operator.lt, "le": operator.le, "gt": operator.gt, "ge": operator.ge}


def _ordinal_spec(mu, sigma, z=3.0):
    return mu - z * sigma


@checker("c18_order")
def c18_order(rp):
    R = rating_cls(rp["model"])
    a = R(num(rp["a"][0]), num(rp["a"][1]))
    b = R(num(rp["b"][0]), num(rp["b"][1]))
    op = rp["op"]
    got = OPS[op](a, b)
    spec_op = op
    if rp.get("clause") == "canary":
        spec_op = {"lt": "le", "le": "lt", "gt": "ge", "ge": "gt"}[op]
    want = OPS[spec_op](_ordinal_spec(a.mu, a.sigma), _ordinal_spec(b.mu, b.sigma))
    return (got is not want), f"{rp['model']}Rating({a.mu},{a.sigma}) {op} ({b.mu},{b.sigma}) -> {got!r}, ordinals {spec_op}: {want!r}"


@searcher("c18_order")
def c18_order_search(rp, seed):
    rnd = random.Random(seed)
    mus = [25, 30, 0.3, 0.1, 0.7, 1.1, 2.2, 10, 27.5, 33, 1e-3, 12.3]
    for k in range(20000):
        if k % 2:
            a = [rnd.choice([-3, -1, 0, 0.5, 1, 2, 3, 25, 25.5]), rnd.choice([-2, 0, 0.5, 1, 2, 3, 8.5])]
            b = [rnd.choice([-3, -1, 0, 0.5, 1, 2, 3, 25, 25.5]), rnd.choice([-2, 0, 0.5, 1, 2, 3, 8.5])]
        else:
            # ordinals tied or a few ulps apart with sigmas that are not exactly representable:
            # where an algebraic rearrangement of mu - 3 sigma rounds differently
            ma, mb = rnd.choice(mus), rnd.choice(mus)
            sh = rnd.choice([0, 0, 0.1, 1, 1e-16])
            a, b = [ma, ma / 3], [mb + sh, mb / 3 + sh / 3]
        r2 = dict(rp, a=[enc(a[0]), enc(a[1])], b=[enc(b[0]), enc(b[1])])
        bad, msg = c18_order(r2)
        if bad:
            return r2, msg
    return None


@checker("c18_update")
def c18_update(rp):
    """compare (all four operators, both ways, ordinal, hash, ==), then replace mu / sigma of `a` in place,
    then compare again: the verdict must follow the current values"""
    R = rating_cls(rp["model"])
    a = R(num(rp["a"][0]), num(rp["a"][1]))
    b = R(num(rp["b"][0]), num(rp["b"][1]))
    for f in OPS.values():
        f(a, b), f(b, a)
    a.ordinal(), b.ordinal(), hash(a), hash(b), a == b
    a.mu, a.sigma = num(rp["a2"][0]), num(rp["a2"][1])
    op = rp["op"]
    for (x, y, tag) in ((a, b, "a op b"), (b, a, "b op a")):
        got = OPS[op](x, y)
        want = OPS[op](_ordinal_spec(x.mu, x.sigma), _ordinal_spec(y.mu, y.sigma))
        if got is not want:
            return True, (f"{rp['model']}Rating: after a was compared as ({num(rp['a'][0])!r},{num(rp['a'][1])!r}) and then updated in place to ({a.mu!r},{a.sigma!r}): "
                          f"{tag} with b=({b.mu!r},{b.sigma!r}), {op} -> {got!r}, ordinals say {want!r}")
    return False, "comparisons follow the current values"


@searcher("c18_update")
def c18_update_search(rp, seed):
    rnd = random.Random(seed)
    # in-place updates whose old and new values have colliding hashes come first (CPython: hash(-1) ==
    # hash(-2); integer-valued floats hash modulo 2^61 - 1), then ordinary ones
    pairs = [((-1.0, 2.0), (-2.0, 2.0)), ((1.0, 2.0), (2.0 ** 61, 2.0)), ((25.0, -1.0), (25.0, -2.0)), ((0.0, 1.0), (float(2 ** 61 - 1), 1.0)),
             ((-1, 3), (-2, 3)), ((25.0, 8.0), (30.0, 8.0)), ((25.0, 8.0), (25.0, 2.0))]
    for k in range(400):
        if k < len(pairs):
            a, a2 = pairs[k]
        else:
            a = (rnd.choice([-3.0, -1.0, 0.0, 1.0, 25.0]), rnd.choice([0.5, 1.0, 2.0, 8.0]))
            a2 = (rnd.choice([-2.0, 2.0 ** 61, 0.5, 30.0, 10.0]), rnd.choice([0.5, 1.0, 2.0, 8.0]))
        for b in ((0.0, 1.0), (-1.5, 2.0), (25.0, 8.0), (1e18, 2.0)):
            r2 = dict(rp, a=[enc(a[0]), enc(a[1])], a2=[enc(a2[0]), enc(a2[1])], b=[enc(b[0]), enc(b[1])])
            try:
                bad, msg = c18_update(r2)
            except Exception:  # noqa: BLE001
                continue
            if bad:
                return r2, msg
    return None


@checker("c18_ordinal")
def c18_ordinal(rp):
    R = rating_cls(rp["model"])
    a = R(num(rp["a"][0]), num(rp["a"][1]))
    if rp.get("z") is None:
        got, want = a.ordinal(), _ordinal_spec(a.mu, a.sigma)
    else:
        z = num(rp["z"])
        got, want = a.ordinal(z), _ordinal_spec(a.mu, a.sigma, z)
    if rp.get("clause") == "canary":
        want = a.mu + 3.0 * a.sigma
    return (got != want), f"ordinal -> {got!r}, mu - z*sigma = {want!r}"


@searcher("c18_ordinal")
def c18_ordinal_search(rp, seed):
    rnd = random.Random(seed)
    for _ in range(2000):
        r2 = dict(rp, a=[enc(rnd.uniform(-50, 50)), enc(rnd.uniform(0, 10))])
        if rp.get("z") is not None:
            r2["z"] = enc(rnd.choice([0, 1, 2.5, 3, -1]))
        bad, msg = c18_ordinal(r2)
        if bad:
            return r2, msg
    return None


@checker("c18_eq")
def c18_eq(rp):
    R = rating_cls(rp["model"])
    a = R(num(rp["a"][0]), num(rp["a"][1]))
    b = R(num(rp["b"][0]), num(rp["b"][1]))
    got = (a == b)
    want = (a.mu == b.mu and a.sigma == b.sigma)
    if rp.get("clause") == "canary":
        want = (a.mu == b.mu)
    return (got is not want), f"({a.mu},{a.sigma}) == ({b.mu},{b.sigma}) -> {got!r}, expected {want!r}"


@searcher("c18_eq")
def c18_eq_search(rp, seed):
    rnd = random.Random(seed)
    for _ in range(5000):
        a = [rnd.choice([0, 1, 2.5]), rnd.choice([0, 1, 2.5])]
        b = [rnd.choice([0, 1, 2.5]), rnd.choice([0, 1, 2.5])]
        r2 = dict(rp, a=[enc(a[0]), enc(a[1])], b=[enc(b[0]), enc(b[1])])
        bad, msg = c18_eq(r2)
        if bad:
            return r2, msg
    return None


@checker("c18_foreign")
def c18_foreign(rp):
    R = rating_cls(rp["model"])
    a = R(num(rp["a"][0]), num(rp["a"][1]))
    other = foreign_object(rp["tag"], rp["model"])
    op = rp["op"]
    if op == "eq":
        try:
            got = (a == other)
        except Exception as e:  # noqa: BLE001
            return True, f"== {rp['tag']} raised {type(e).__name__}"
        want = False if rp.get("clause") != "canary" else True
        return (got is not want), f"rating == {rp['tag']} -> {got!r}"
    try:
        got = OPS[op](a, other)
    except ValueError:
        return (rp.get("clause") == "canary"), f"rating {op} {rp['tag']} raised ValueError"
    except Exception as e:  # noqa: BLE001
        return True, f"rating {op} {rp['tag']} raised {type(e).__name__}, not ValueError"
    return (rp.get("clause") != "canary"), f"rating {op} {rp['tag']} returned {got!r} instead of raising ValueError"


# ---------------------------------------------------------------- game helpers
def mk_model(name, params, **kw):
    M = model_cls(name)
    p = {k: num(v) for k, v in (params or {}).items()}
    p.update(kw)
    return M(**p)


def mk_game(name, game):
    R = rating_cls(name)
    return [[R(num(p[0]), num(p[1]), name=f"player{i}_{j}") for j, p in enumerate(team)] for i, team in enumerate(game)]


def values(res):
    return [[(p.mu, p.sigma) for p in team] for team in res]


def rand_game(rnd, sizes, beta=25.0 / 6):
    return [[[enc(rnd.uniform(-5 * beta, 10 * beta)), enc(rnd.uniform(0.05 * beta, 4 * beta))] for _ in range(n)] for n in sizes]


def _ranks(rp):
    r = rp.get("ranks")
    return None if r is None else [num(x) for x in r]


# ---------------------------------------------------------------- C15
@checker("c15_tau")
def c15_tau(rp):
    name = rp["model"]
    t = num(rp["t"])
    if rp.get("clause") == "canary":
        # wrong claim: per-call tau is ignored
        a = mk_model(name, rp["params"]).rate(mk_game(name, rp["game"]), ranks=_ranks(rp), tau=t)
        b = mk_model(name, rp["params"]).rate(mk_game(name, rp["game"]), ranks=_ranks(rp))
    else:
        la, lb = bool(rp.get("a", False)), rp.get("b")
        kw = {} if lb is None else {"limit_sigma": bool(lb)}
        a = mk_model(name, rp["params"], limit_sigma=la).rate(mk_game(name, rp["game"]), ranks=_ranks(rp), tau=t, **kw)
        pb = dict(rp["params"])
        pb["tau"] = rp["t"]
        b = mk_model(name, pb, limit_sigma=(la if lb is None else bool(lb))).rate(mk_game(name, rp["game"]), ranks=_ranks(rp))
    return values(a) != values(b), f"{name}: rate(tau={t!r}) on a model with tau={num(rp['params']['tau'])!r} -> {values(a)[0][0]}, model(tau={t!r}).rate() -> {values(b)[0][0]}"


@searcher("c15_tau")
def c15_tau_search(rp, seed):
    rnd = random.Random(seed)
    odd = [x for x in (rnd.uniform(0, 3) for _ in range(20000)) if x ** 2 != x * x][:40]   # pow and multiply round differently here
    for k in range(3000):
        t = [0, 0.0, 1e-9, 25 / 300, 5.0, 1][k % 6] if k < 60 else (odd[k % len(odd)] if odd and k % 2 else rnd.uniform(0, 3))
        r2 = dict(rp, t=enc(t), game=rand_game(rnd, [len(x) for x in rp["game"]]))
        if k % 4 == 1:
            r2["game"] = [[[q[0], enc(rnd.choice([1e-3, 0.05]))] for q in tm] for tm in r2["game"]]
        r2["params"] = dict(rp["params"], mu=enc(25.0), sigma=enc(25 / 3), beta=enc(25 / 6), kappa=enc(1e-4), tau=enc(rnd.choice([0.0, 25 / 300, 0.5, 2.0])))
        try:
            bad, msg = c15_tau(r2)
        except Exception:  # noqa: BLE001
            continue
        if bad:
            return r2, msg
    return None


def _lim(x):
    return None if x is None else bool(x)


@checker("c15_limit")
def c15_limit(rp):
    name = rp["model"]
    a = mk_model(name, rp["params"], limit_sigma=_lim(rp["a"])).rate(mk_game(name, rp["game"]), ranks=_ranks(rp), limit_sigma=_lim(rp["b"]))
    bm = rp["b"] if rp["b"] is not None else rp["a"]
    if rp.get("clause") == "canary":
        bm = not bm
    b = mk_model(name, rp["params"], limit_sigma=_lim(bm)).rate(mk_game(name, rp["game"]), ranks=_ranks(rp))
    return values(a) != values(b), f"{name}: model(limit_sigma={rp['a']}).rate(limit_sigma={rp['b']}) != model(limit_sigma={bm}).rate()"


@searcher("c15_limit")
def c15_limit_search(rp, seed):
    rnd = random.Random(seed)
    for _ in range(300):
        r2 = dict(rp, game=rand_game(rnd, [len(x) for x in rp["game"]]))
        r2["params"] = dict(rp["params"], mu=enc(25.0), sigma=enc(25 / 3), beta=enc(25 / 6), kappa=enc(1e-4), tau=enc(rnd.choice([0.0, 25 / 300, 3.0])))
        try:
            bad, msg = c15_limit(r2)
        except Exception:  # noqa: BLE001
            continue
        if bad:
            return r2, msg
    return None


@checker("c15_seq")
def c15_seq(rp):
    """two calls on one model: the second omits the options and must equal a
    fresh model's result."""
    name = rp["model"]
    m = mk_model(name, rp["params"], limit_sigma=_lim(rp["a"]))
    kw = {}
    if rp.get("b") is not None:
        kw["limit_sigma"] = _lim(rp["b"])
    if rp.get("t") is not None:
        kw["tau"] = num(rp["t"])
    m.rate(mk_game(name, rp["game1"]), **kw)
    a = m.rate(mk_game(name, rp["game"]))
    b = mk_model(name, rp["params"], limit_sigma=_lim(rp["a"])).rate(mk_game(name, rp["game"]))
    return values(a) != values(b), f"{name}: after rate(..., {kw}) the same model's rate() differs from a fresh model(limit_sigma={rp['a']})'s"


@searcher("c15_seq")
def c15_seq_search(rp, seed):
    rnd = random.Random(seed)
    for _ in range(300):
        r2 = dict(rp, game=rand_game(rnd, [len(x) for x in rp["game"]]), game1=rand_game(rnd, [len(x) for x in rp["game1"]]))
        r2["params"] = dict(rp["params"], mu=enc(25.0), sigma=enc(25 / 3), beta=enc(25 / 6), kappa=enc(1e-4), tau=enc(rnd.choice([25 / 300, 3.0])))
        try:
            bad, msg = c15_seq(r2)
        except Exception:  # noqa: BLE001
            continue
        if bad:
            return r2, msg
    return None


# ---------------------------------------------------------------- C14 / C20
def _call_op(m, op, teams, ranks=None, kw=None):
    if op == "rate":
        return values(m.rate(teams, ranks=ranks, **(kw or {})))
    return getattr(m, op)(teams)


def _kw(rp):
    kw = {}
    if rp.get("t") is not None:
        kw["tau"] = num(rp["t"])
    if rp.get("b") is not None:
        kw["limit_sigma"] = bool(rp["b"])
    return kw


def _state(m):
    return {k: (v if not isinstance(v, (list, dict, set)) else copy.deepcopy(v)) for k, v in m.__dict__.items()}


@checker("c14_frame")
def c14_frame(rp):
    name = rp["model"]
    m = mk_model(name, rp["params"], limit_sigma=bool(rp.get("a", False)))
    teams = mk_game(name, rp["game"])
    before = _state(m)
    other = lambda p: sorted((k, repr(v)) for k, v in p.__dict__.items() if k not in ("mu", "sigma"))
    ids = [[(p.id, p.name, p.mu, p.sigma, other(p)) for p in t] for t in teams]
    try:
        _call_op(m, rp["op"], teams, _ranks(rp), _kw(rp))
    except Exception as e:  # noqa: BLE001
        pass
    after = _state(m)
    if before != after:
        diff = {k: (before.get(k), after.get(k)) for k in set(before) | set(after) if before.get(k) != after.get(k)}
        return True, f"{name}.{rp['op']}({_kw(rp)}) changed model attributes: {diff}"
    ids2 = [[(p.id, p.name, p.mu, p.sigma, other(p)) for p in t] for t in teams]
    for t1, t2 in zip(ids, ids2):
        for a, b in zip(t1, t2):
            if a[0] != b[0] or a[1] != b[1] or a[4] != b[4]:
                return True, f"{name}.{rp['op']} wrote an attribute of a rating other than mu / sigma: {a[4]} -> {b[4]}"
            if rp["op"] != "rate" and (a[2] != b[2] or a[3] != b[3]):
                return True, f"{name}.{rp['op']} changed a rating's mu/sigma: {a} -> {b}"
    return False, "model and rating identity attributes unchanged"


@searcher("c14_frame")
def c14_frame_search(rp, seed):
    rnd = random.Random(seed)
    for _ in range(100):
        r2 = dict(rp, game=rand_game(rnd, [len(x) for x in rp["game"]]))
        r2["params"] = dict(mu=enc(25.0), sigma=enc(25 / 3), beta=enc(25 / 6), kappa=enc(1e-4), tau=enc(25 / 300))
        try:
            bad, msg = c14_frame(r2)
        except Exception:  # noqa: BLE001
            continue
        if bad:
            return r2, msg
    return None


@checker("c14_history")
def c14_history(rp):
    """first call (any op, any options) on game1, then op on game: equals a fresh model's result"""
    name = rp["model"]
    m = mk_model(name, rp["params"], limit_sigma=bool(rp.get("a", False)))
    try:
        _call_op(m, rp["op1"], mk_game(name, rp["game1"]), None, _kw(rp))
    except Exception:  # noqa: BLE001
        pass
    a = _call_op(m, rp["op"], mk_game(name, rp["game"]), _ranks(rp))
    b = _call_op(mk_model(name, rp["params"], limit_sigma=bool(rp.get("a", False))), rp["op"], mk_game(name, rp["game"]), _ranks(rp))
    if rp.get("clause") == "canary":
        b = _call_op(mk_model(name, dict(rp["params"], beta=enc(num(rp["params"]["beta"]) * 2)), limit_sigma=bool(rp.get("a", False))), rp["op"], mk_game(name, rp["game"]), _ranks(rp))
    return a != b, f"{name}: {rp['op']} after {rp['op1']}({_kw(rp)}) = {str(a)[:80]} ; fresh model: {str(b)[:80]}"


@searcher("c14_history")
def c14_history_search(rp, seed):
    rnd = random.Random(seed)
    for _ in range(200):
        r2 = dict(rp, game=rand_game(rnd, [len(x) for x in rp["game"]]), game1=rand_game(rnd, [len(x) for x in rp["game1"]]))
        r2["params"] = dict(mu=enc(25.0), sigma=enc(25 / 3), beta=enc(25 / 6), kappa=enc(1e-4), tau=enc(25 / 300))
        if rp.get("t") is not None:
            r2["t"] = enc(rnd.choice([0.0, 1.0, 5.0]))
        try:
            bad, msg = c14_history(r2)
        except Exception:  # noqa: BLE001
            continue
        if bad:
            return r2, msg
    return None


@checker("c14_rebuild")
def c14_rebuild(rp):
    """original objects (with names/ids) vs objects rebuilt from (mu, sigma)"""
    name = rp["model"]
    m1 = mk_model(name, rp["params"], limit_sigma=bool(rp.get("a", False)))
    m2 = mk_model(name, rp["params"], limit_sigma=bool(rp.get("a", False)))
    g1 = mk_game(name, rp["game"])
    if rp.get("twins"):
        for i in range(1, len(g1)):
            g1[i][0] = copy.deepcopy(g1[0][0])
    g2 = [[m2.rating(p.mu, p.sigma) for p in t] for t in g1]
    if rp.get("via") == "create_rating":
        g2 = [[m2.create_rating([p.mu, p.sigma]) for p in t] for t in g1]
    if rp.get("clause") == "canary":
        g2[0][0].mu = g2[0][0].mu + 1.0
    a = _call_op(m1, rp["op"], g1, _ranks(rp), _kw(rp))
    b = _call_op(m2, rp["op"], g2, _ranks(rp), _kw(rp))
    return a != b, f"{name}.{rp['op']}: originals {str(a)[:80]} ; rebuilt {str(b)[:80]}"


@searcher("c14_rebuild")
def c14_rebuild_search(rp, seed):
    rnd = random.Random(seed)
    for _ in range(200):
        r2 = dict(rp, game=rand_game(rnd, [len(x) for x in rp["game"]]))
        r2["params"] = dict(mu=enc(25.0), sigma=enc(25 / 3), beta=enc(25 / 6), kappa=enc(1e-4), tau=enc(25 / 300))
        try:
            bad, msg = c14_rebuild(r2)
        except Exception:  # noqa: BLE001
            continue
        if bad:
            return r2, msg
    return None


@checker("scan")
def scan_checker(rp):
    """a syntactic finding is replayed by re-scanning the real file"""
    import ast
    from pyvc import scan
    repo = os.environ.get("PYVC_REPO", "/repo")
    with open(os.path.join(repo, rp["file"])) as fh:
        tree = ast.parse(fh.read())
    if rp.get("scan") == "hash_order":
        found = scan.hash_order_uses(tree)
    else:
        found = scan.shared_state_writes(tree)
    return bool(found), f"{rp['file']}: {found[:3]}"


# ---------------------------------------------------------------- C20
def _same(a, b):
    return type(a) is type(b) and a == b


@checker("c20_rating")
def c20_rating(rp):
    name = rp["model"]
    m = mk_model(name, rp["params"])
    mu, sg = num(rp["mu"]), num(rp["sigma"])
    nm = rp.get("name")
    r = m.rating(mu=mu, sigma=sg, name=nm)
    want_mu = mu if mu is not None else m.mu
    want_sg = sg if sg is not None else m.sigma
    if rp.get("clause") == "canary":
        want_mu = m.mu
    r2 = m.rating(mu=mu, sigma=sg, name=nm)
    bad = not (_same(r.mu, want_mu) and _same(r.sigma, want_sg) and r.name == nm
               and isinstance(r.id, str) and r.id != r2.id)
    return bad, f"{name}.rating(mu={mu!r}, sigma={sg!r}, name={nm!r}) -> mu={r.mu!r} sigma={r.sigma!r} name={r.name!r}; expected mu={want_mu!r} sigma={want_sg!r}"


@searcher("c20_rating")
def c20_rating_search(rp, seed):
    for mu in (None, 0, 0.0, False, -3, 2.5):
        for sg in (None, 0, 0.0, False, -1.5, 4):
            for nm in (None, "", "bob"):
                r2 = dict(rp, mu=None if mu is None else enc(mu), sigma=None if sg is None else enc(sg), name=nm)
                bad, msg = c20_rating(r2)
                if bad:
                    return r2, msg
    return None


@checker("c20_create")
def c20_create(rp):
    name = rp["model"]
    M = model_cls(name)
    mu, sg = num(rp["mu"]), num(rp["sigma"])
    nm = rp.get("name")
    r = M.create_rating([mu, sg], name=nm) if nm is not None else M.create_rating([mu, sg])
    want_name = nm if nm else None
    want_mu = mu if rp.get("clause") != "canary" else sg
    bad = not (_same(r.mu, want_mu) and _same(r.sigma, sg) and r.name == want_name and isinstance(r.id, str))
    return bad, f"{name}.create_rating([{mu!r}, {sg!r}], name={nm!r}) -> mu={r.mu!r} sigma={r.sigma!r} name={r.name!r}"


@searcher("c20_create")
def c20_create_search(rp, seed):
    for mu in (0, 0.0, False, -3, 2.5):
        for sg in (0, 0.0, True, -1.5, 4):
            for nm in (None, "bob"):
                r2 = dict(rp, mu=enc(mu), sigma=enc(sg), name=nm)
                try:
                    bad, msg = c20_create(r2)
                except Exception as e:  # noqa: BLE001
                    return r2, f"raised {type(e).__name__}: {e}"
                if bad:
                    return r2, msg
    return None


@checker("c20_reject")
def c20_reject(rp):
    name = rp["model"]
    M = model_cls(name)
    arg = rp["arg"]
    if arg["form"] == "tag":
        x = foreign_object(arg["tag"], name) if arg["tag"] != "own-rating" else rating_cls(name)(1.0, 2.0)
        if arg["tag"] == "list":
            x = [1.0, 2.0, 3.0]
        if arg["tag"] == "tuple":
            x = (1.0, 2.0)
    elif arg["form"] == "len":
        x = [1.5] * int(arg["n"])
    else:
        x = [1.5, 2.5]
        x[int(arg["pos"])] = foreign_object(arg["tag"], name)
    try:
        r = M.create_rating(x)
    except (TypeError, ValueError) as e:
        return (rp.get("clause") == "canary"), f"create_rating({x!r}) raised {type(e).__name__}"
    except Exception as e:  # noqa: BLE001
        return True, f"create_rating({x!r}) raised {type(e).__name__}"
    return (rp.get("clause") != "canary"), f"create_rating({x!r}) returned {r!r}"


@checker("c20_deepcopy")
def c20_deepcopy(rp):
    name = rp["model"]
    R = rating_cls(name)
    g = [[R(num(p[0]), num(p[1]), name=(f"n{i}{j}" if (i + j) % 2 else None)) for j, p in enumerate(t)] for i, t in enumerate(rp["game"])]
    if len(g) >= 2 and not rp.get("single"):
        g[1][0].id = g[0][0].id        # a snapshot and the live player share an id
    c = copy.deepcopy(g)
    if rp.get("single"):
        g = g[0][0]
        c = copy.deepcopy(g)
        pairs = [(g, c)]
    else:
        if c is g or len(c) != len(g) or any(x is y or len(x) != len(y) for x, y in zip(g, c)):
            return True, "deepcopy of the team lists is not a distinct list of the same shape"
        pairs = [(a, b) for x, y in zip(g, c) for a, b in zip(x, y)]
    for a, b in pairs:
        ok = (a is not b and type(a) is type(b) and _same(a.mu, b.mu) and _same(a.sigma, b.sigma) and a.name == b.name and a.id == b.id)
        if rp.get("clause") == "canary":
            ok = ok and a.id != b.id
        if not ok:
            return True, f"deepcopy: ({a.mu!r},{a.sigma!r},{a.name!r},{a.id}) -> ({b.mu!r},{b.sigma!r},{b.name!r},{b.id}) same-object={a is b}"
    return False, "copies are distinct objects with equal mu, sigma, name, id"


@checker("c20_chain")
def c20_chain(rp):
    """two games; between them the players are rebuilt from (mu, sigma)"""
    name = rp["model"]
    m1 = mk_model(name, rp["params"])
    m2 = mk_model(name, rp["params"])
    g = mk_game(name, rp["game"])
    h = mk_game(name, rp["game"])
    r1 = m1.rate(g, **(rp.get("first") or {}))
    r2 = m2.rate(h, **(rp.get("first") or {}))
    r2 = [[m2.rating(p.mu, p.sigma) for p in t] for t in r2]
    if rp.get("clause") == "canary":
        r2[0][0].sigma = r2[0][0].sigma * 2
    a = _call_op(m1, rp["op"], r1)
    b = _call_op(m2, rp["op"], r2)
    return a != b, f"{name}: second game with original objects {str(a)[:70]} ; with rebuilt objects {str(b)[:70]}"


@searcher("c20_chain")
def c20_chain_search(rp, seed):
    rnd = random.Random(seed)
    for k in range(150):
        r2 = dict(rp, game=rand_game(rnd, [len(x) for x in rp["game"]]))
        if k % 2:
            # established players: tau dominates the update, so a limit_sigma clamp binds
            r2["game"] = [[[enc(rnd.uniform(15, 35)), enc(rnd.choice([0.5, 0.8, 1.2, 25 / 3]))] for _ in t] for t in rp["game"]]
        r2["params"] = dict(mu=enc(25.0), sigma=enc(25 / 3), beta=enc(25 / 6), kappa=enc(1e-4), tau=enc(rnd.choice([25 / 300, 0.5])))
        try:
            bad, msg = c20_chain(r2)
        except Exception:  # noqa: BLE001
            continue
        if bad:
            return r2, msg
    return None


# ---------------------------------------------------------------- C13 argument grammar
def concrete_obj(info, own_model):
    """A concrete value for an AnyObj: info = {'tag': name, 'truthy': bool}"""
    tag, truthy = info.get("tag", "other-object"), info.get("truthy", True)
    if "items" in info and tag in ("str", "tuple", "dict", "list"):
        # a container the code iterated: the elements the failing path chose
        els = [num(d["v"]) if d.get("t") == "num" else concrete_obj(d, own_model) for d in info["items"]]
        if tag == "str":
            return "abcdefgh"[:len(els)]
        if tag == "tuple":
            return tuple(els)
        if tag == "list":
            return els
        return {(e if isinstance(e, (int, float, str, tuple, type(None))) else ("k", i)): i for i, e in enumerate(els)}
    if tag == "None":
        return None
    if tag == "bool":
        return bool(truthy)
    if tag == "int":
        return 7 if truthy else 0
    if tag == "float":
        return 2.5 if truthy else 0.0
    if tag == "str":
        return "abc" if truthy else ""
    if tag == "tuple":
        return (1, 2) if truthy else ()
    if tag == "dict":
        return {1: 2} if truthy else {}
    if tag == "list":
        return [1, 2] if truthy else []
    if tag == "own-rating":
        return rating_cls(own_model)(25.0, 8.0)
    if tag == "foreign-rating":
        return rating_cls([m for m in MODELS if m != own_model][0])(25.0, 8.0)
    return object()


def build_arg(desc, own_model, objs, nums, game):
    t = desc["t"]
    if t == "none":
        return None
    if t == "obj":
        return concrete_obj(objs.get(desc["name"], {}), own_model)
    if t == "num":
        return num(nums.get(desc["name"], 1))
    if t == "own":
        p = game.get(f"{desc['i']}_{desc['j']}", [25.0, 8.0])
        return rating_cls(own_model)(num(p[0]), num(p[1]), name=f"p{desc['i']}_{desc['j']}")
    return [build_arg(d, own_model, objs, nums, game) for d in desc["items"]]


def _collect_ratings(x, out, own):
    if isinstance(x, list):
        for y in x:
            _collect_ratings(y, out, own)
    elif isinstance(x, own):
        out.append(x)


@checker("c13_call")
def c13_call(rp):
    """Call op with the described arguments; compare with the expected verdict
    ('TypeError'/'ValueError'/None=accept; 'reject' = either class) and check
    that a rejected call modified nothing."""
    name = rp["model"]
    m = mk_model(name, rp.get("params") or dict(mu=enc(25.0), sigma=enc(25 / 3), beta=enc(25 / 6), kappa=enc(1e-4), tau=enc(25 / 300)))
    args = [build_arg(rp["teams"], name, rp["objs"], rp["nums"], rp["game"])]
    kw = {}
    if rp["op"] == "rate":
        kw["ranks"] = build_arg(rp["ranks"], name, rp["objs"], rp["nums"], rp["game"])
        kw["scores"] = build_arg(rp["scores"], name, rp["objs"], rp["nums"], rp["game"])
    rs = []
    _collect_ratings(args[0], rs, rating_cls(name))
    before = [(id(r), dict(r.__dict__)) for r in rs]
    mstate = _state(m)
    exp = rp["expected"]
    try:
        getattr(m, rp["op"])(*args, **kw)
        got = None
    except (TypeError, ValueError) as e:
        got = type(e).__name__
    except Exception as e:  # noqa: BLE001
        return True, f"{name}.{rp['op']} raised {type(e).__name__}: {e} (neither TypeError nor ValueError)"
    desc = f"{name}.{rp['op']}({str(args[0])[:60]}, {str(kw)[:80]})"
    if rp.get("clause") == "canary":
        return (got is not None) == (exp is not None), f"{desc} -> {got}"
    if (got is None) != (exp is None):
        return True, f"{desc} -> {got or 'accepted'}, expected {exp or 'accepted'}"
    if rp.get("exact_class") and got != exp:
        return True, f"{desc} -> {got}, expected {exp}"
    if got is not None or rp["op"] != "rate":
        after = [(id(r), dict(r.__dict__)) for r in rs]
        if after != before or _state(m) != mstate:
            return True, f"{desc} -> {got or 'returned'} but a rating or the model was modified"
    return False, f"{desc} -> {got or 'accepted'} as expected"


# ---------------------------------------------------------------- C02 / C03
def _vec(v):
    return None if v is None else [num(x) for x in v]


@checker("c02_rate")
def c02_rate(rp):
    name = rp["model"]
    m = mk_model(name, rp["params"], limit_sigma=bool(rp.get("limit", False)))
    g = mk_game(name, rp["game"])
    flat = [p for t in g for p in t]
    before = [(p.id, p.name) for p in flat]
    res = m.rate(g, ranks=_vec(rp.get("ranks")), scores=_vec(rp.get("scores")))
    if rp.get("clause") == "canary":
        # wrong claim: the result lists the teams in rank order
        r = _vec(rp.get("ranks")) or [-s for s in _vec(rp.get("scores"))]
        order = sorted(range(len(g)), key=lambda i: r[i])
        ok = all(res[k][0] is g[order[k]][0] for k in range(len(g)))
        return (not ok), "result is in input order, not in rank order"
    if len(res) != len(g) or any(len(a) != len(b) for a, b in zip(res, g)):
        return True, f"{name}.rate: result shape {[len(t) for t in res]} != input shape {[len(t) for t in g]}"
    for i, (tr, tg) in enumerate(zip(res, g)):
        for j, (a, b) in enumerate(zip(tr, tg)):
            if a is not b:
                who = [(x, y) for x, t in enumerate(g) for y, p in enumerate(t) if p is a]
                return True, f"{name}.rate(ranks={_vec(rp.get('ranks'))}, scores={_vec(rp.get('scores'))}): result[{i}][{j}] is the player passed at {who or 'nowhere'}"
    if [(p.id, p.name) for p in flat] != before:
        return True, "a player's id or name changed"
    if len({id(p) for t in res for p in t}) != len(flat):
        return True, "a player appears twice in the result"
    return False, "result corresponds to the input position by position"


@searcher("c02_rate")
def c02_rate_search(rp, seed):
    rnd = random.Random(seed)
    n = len(rp["game"])
    for k in range(600):
        vec = [enc(rnd.choice([0, 1, 2, 3, 1.5, -2, 2.0] if k % 2 else [1, 2])) for _ in range(n)]
        r2 = dict(rp, game=rand_game(rnd, [len(x) for x in rp["game"]]))
        if k % 3 == 0:
            # brand-new players: every rating identical
            r2["game"] = [[[enc(25.0), enc(25 / 3)] for _ in t] for t in rp["game"]]
        r2["params"] = dict(mu=enc(25.0), sigma=enc(25 / 3), beta=enc(25 / 6), kappa=enc(1e-4), tau=enc(25 / 300))
        if rp.get("ranks") is not None:
            r2["ranks"] = vec
        elif rp.get("scores") is not None:
            r2["scores"] = vec
        try:
            bad, msg = c02_rate(r2)
        except Exception as e:  # noqa: BLE001
            continue
        if bad:
            return r2, msg
    return None


@checker("c02_unwind")
def c02_unwind(rp):
    W = wl_common()
    keys = _vec(rp["keys"])
    xs = list(range(100, 100 + len(keys)))
    s, tenet = W._unwind(keys, xs)
    back = W._unwind(tenet, s)[0]
    if rp.get("clause") == "canary":
        return s != xs, "sorting changes the order (canary: claimed identity)"
    ok_sorted = all(keys[xs.index(a)] <= keys[xs.index(b)] for a, b in zip(s, s[1:]))
    ok_stable = all(not (keys[xs.index(a)] == keys[xs.index(b)] and xs.index(a) > xs.index(b)) for a, b in zip(s, s[1:]))
    ok_tenet = [xs[i] for i in tenet] == s
    return not (back == xs and ok_sorted and ok_stable and ok_tenet and sorted(s) == xs), f"_unwind({keys}, {xs}) -> {s}, {tenet}; unwound back -> {back}"


@searcher("c02_unwind")
def c02_unwind_search(rp, seed):
    rnd = random.Random(seed)
    n = len(rp["keys"])
    for _ in range(500):
        r2 = dict(rp, keys=[enc(rnd.choice([0, 1, 2, 1.0, -1, 2.5, True])) for _ in range(n)])
        bad, msg = c02_unwind(r2)
        if bad:
            return r2, msg
    return None


@checker("c03_rankings")
def c03_rankings(rp):
    name = rp["model"]
    m = mk_model(name, None)
    n = rp["n"]
    gm = [[m.rating()] for _ in range(n)]
    ranks = _vec(rp.get("ranks"))
    out = m._calculate_rankings(gm, ranks) if ranks is not None else m._calculate_rankings(gm)
    if rp.get("clause") == "canary":
        return out != list(range(n)), f"_calculate_rankings(ranks={ranks}) -> {out} (canary: claimed positions)"
    if ranks is None:
        return out != list(range(n)), f"_calculate_rankings() -> {out}"
    for i in range(n):
        for j in range(n):
            if (out[i] == out[j]) != (ranks[i] == ranks[j]) or (out[i] < out[j]) != (ranks[i] < ranks[j]):
                return True, f"{name}._calculate_rankings(ranks={ranks!r}) -> {out}: positions {i},{j} have rank values {ranks[i]!r},{ranks[j]!r}"
    return False, f"_calculate_rankings(ranks={ranks}) -> {out}"


@searcher("c03_rankings")
def c03_rankings_search(rp, seed):
    rnd = random.Random(seed)
    n = rp["n"]
    for k in range(2000):
        pool = [0, 1, 2, 1.0, 2.0, -1, 1.5, True, 3] if k % 3 else [10 ** 12, 10 ** 12 + 1, 1e12 + 0.5, 2 * 10 ** 12, 1727352000123, 1727352000987, 0]
        v = sorted(rnd.choice(pool) for _ in range(n))
        r2 = dict(rp, ranks=[enc(x) for x in v])
        bad, msg = c03_rankings(r2)
        if bad:
            return r2, msg
    return None


@checker("c03_order")
def c03_order(rp):
    """two presentations of the same outcome must give identical results"""
    name = rp["model"]
    lim = bool(rp.get("limit", False))
    ka = {k: _vec(rp["a"].get(k)) for k in ("ranks", "scores")}
    kb = {k: _vec(rp["b"].get(k)) for k in ("ranks", "scores")}
    gk = {}
    if rp.get("gamma") == "custom":
        # a user callback that depends on every argument it is handed, the rank included
        gk["gamma"] = lambda c, k, mu, sigma_squared, team, rank, /: (1.0 + 0.25 * rank) * math.sqrt(sigma_squared) / c
    a = values(mk_model(name, rp["params"], limit_sigma=lim, **gk).rate(mk_game(name, rp["game"]), **ka))
    b = values(mk_model(name, rp["params"], limit_sigma=lim, **gk).rate(mk_game(name, rp["game"]), **kb))
    return a != b, f"{name}.rate({ka}) -> {str(a)[:90]} ; rate({kb}) -> {str(b)[:90]}" + (" (model with a rank-dependent gamma callback)" if gk else "")


@searcher("c03_order")
def c03_order_search(rp, seed):
    rnd = random.Random(seed)
    n = len(rp["game"])
    form = rp.get("form", "relabel")
    for _ in range(400):
        r2 = dict(rp, game=rand_game(rnd, [len(x) for x in rp["game"]]))
        r2["params"] = dict(mu=enc(25.0), sigma=enc(25 / 3), beta=enc(25 / 6), kappa=enc(1e-4), tau=enc(25 / 300))
        base = [rnd.choice([0, 1, 2, 3]) for _ in range(n)]
        if form == "relabel":
            f = rnd.choice([lambda x: float(x), lambda x: 2 * x - 3, lambda x: x * 1.5 - 1, lambda x: x / 3 + 1, lambda x: x * 10 ** 6,
                            lambda x: (x if x != 1 else 1.0)])
            r2["a"] = {"ranks": [enc(x) for x in base]}
            r2["b"] = {"ranks": [enc(f(x)) for x in base]}
        elif form == "scores":
            pool = [0, 1, 2.5, -1, 3] if rnd.random() < 0.5 else [250.0, 1e-14, 0.0, 1e17, 2.0, 1.0, -1e-17, -2e-17, 3]
            sc = [rnd.choice(pool) for _ in range(n)]
            r2["a"] = {"scores": [enc(x) for x in sc]}
            r2["b"] = {"ranks": [enc(-x) for x in sc]}
        else:
            r2["a"] = {}
            r2["b"] = {"ranks": [enc(x) for x in range(n)]}
        try:
            bad, msg = c03_order(r2)
        except Exception:  # noqa: BLE001
            continue
        if bad:
            return r2, msg
    return None


@checker("c03_neg")
def c03_neg(rp):
    C = common()
    x = num(rp["x"])
    got = C._unary_minus(x)
    want = -x if rp.get("clause") != "canary" else abs(x)
    return not _same(got, want), f"_unary_minus({x!r}) -> {got!r}"


# ---------------------------------------------------------------- C01 (and the rate-level numeric replays)
def _custom_gamma(c, k, mu, sigma_squared, team, rank, /):
    return 0.25 + 0.1 * rank + 1.0 / k + 0.01 * abs(mu) / (1.0 + abs(mu)) + 0.5 * sigma_squared / (c * c)


def _custom_gamma_spec(c, n, theta_i, s_i, i, rank_i):
    return _custom_gamma(c, n, theta_i, s_i, None, rank_i)


def close(a, b, rel=1e-9, abs_=1e-11):
    return abs(a - b) <= max(abs_, rel * max(abs(a), abs(b)))


def spec_rate_concrete(rp):
    from pyvc.specs import weng_lin as WS
    name = rp["model"]
    p = {k: num(v) for k, v in rp["params"].items()}
    tau = p["tau"] if rp.get("t") is None else num(rp["t"])
    lim = bool(rp.get("limit", False))
    X = WS.FloatX(wl_common())
    teams = [[(num(q[0]), num(q[1])) for q in t] for t in rp["game"]]
    return WS.rate_spec(name, teams, _vec(rp.get("ranks")), _vec(rp.get("scores")), p["beta"], p["kappa"], tau, lim, X,
                        gamma=_custom_gamma_spec if rp.get("gamma") == "custom" else None,
                        pair_scale=rp.get("pair_scale", 1))


def real_rate_concrete(rp):
    name = rp["model"]
    kw = {"limit_sigma": bool(rp.get("limit", False))}
    if rp.get("gamma") == "custom":
        kw["gamma"] = _custom_gamma
    elif rp.get("gamma") == "huge":
        kw["gamma"] = lambda *a: 1e6
    m = mk_model(name, rp.get("construct_params") or rp["params"], **kw)
    if rp.get("history"):
        # the instance has rated before: stored snapshots of the same players with other values, other players
        g0 = mk_game(name, rp["game"])
        pre = [[copy.deepcopy(p) for p in t] for t in g0]
        for t in pre:
            for k, p in enumerate(t):
                p.mu, p.sigma = p.mu + 2.5 + k, p.sigma * 0.5 + 0.3
        m.rate(pre)
        R_ = rating_cls(name)
        m.rate([[R_(20.0, 7.0)], [R_(30.0, 6.0)]], ranks=[2, 1])
        rp = dict(rp, _history_ids=[[p.id for p in t] for t in g0])
    if rp.get("construct_params"):
        # the model was built with other parameters and its attributes were assigned afterwards
        for k, v in rp["params"].items():
            setattr(m, k, num(v))
    ckw = {}
    if rp.get("t") is not None:
        ckw["tau"] = num(rp["t"])
    g = mk_game(name, rp["game"])
    if rp.get("_history_ids"):
        for t, ids in zip(g, rp["_history_ids"]):
            for p, pid in zip(t, ids):
                p.id = pid
    if rp.get("twins"):
        # every team is a deep copy of the first: same values, same ids
        g = [g[0]] + [[copy.deepcopy(p) for p in g[0]] for _ in g[1:]]
    return values(m.rate(g, ranks=_vec(rp.get("ranks")), scores=_vec(rp.get("scores")), **ckw))


@checker("c01_rate")
def c01_rate(rp):
    got = real_rate_concrete(rp)
    want = spec_rate_concrete(rp)
    if rp.get("clause") == "canary":
        want = [[(mu + 1e-6 * (1 + abs(mu)), sg) for (mu, sg) in t] for t in want]
    for i, (tg, tw) in enumerate(zip(got, want)):
        for j, ((m1, s1), (m2, s2)) in enumerate(zip(tg, tw)):
            if not (close(m1, m2) and close(s1, s2)):
                return True, (f"{rp['model']}.rate(ranks={_vec(rp.get('ranks'))}, scores={_vec(rp.get('scores'))}) player [{i}][{j}]: "
                              f"code (mu, sigma) = ({m1!r}, {s1!r}); published update (pair scale {rp.get('pair_scale', 1)}) = ({m2!r}, {s2!r})")
    return False, "code equals the published update to 1e-9 relative"


def _std_params(rnd=None, tau=None):
    return dict(mu=enc(25.0), sigma=enc(25 / 3), beta=enc(25 / 6), kappa=enc(1e-4), tau=enc(25 / 300 if tau is None else tau))


@searcher("c01_rate")
def c01_rate_search(rp, seed):
    rnd = random.Random(seed)
    sizes = [len(x) for x in rp["game"]]
    for _ in range(200):
        r2 = dict(rp, game=rand_game(rnd, sizes), params=_std_params(tau=rnd.choice([0.0, 25 / 300, 1.0])))
        if rp.get("t") is not None:
            # a per-call tau: zero (falsy) is where an `or` / truthiness test goes wrong
            r2["t"] = enc(rnd.choice([0.0, 0.0, 0, 0.5, 25 / 300]))
        try:
            bad, msg = c01_rate(r2)
        except Exception:  # noqa: BLE001
            continue
        if bad:
            return r2, msg
    # second stage: the obligation failed symbolically, i.e. for the function, not for this shape -
    # look for a witness among stress games of other shapes (many evenly matched teams, a
    # high-variance multi-player team placed last or first, small beta, large kappa: the regime
    # in which floors and clamps bind), with the same model, gamma and limit setting
    for k in range(600):
        n = rnd.choice([2, 3, 4, 6, 8])
        big = rnd.randrange(n)
        beta = rnd.choice([25 / 6, 1.0, 0.3])
        mu0 = rnd.uniform(20, 30)
        gm = []
        for i in range(n):
            if i == big:
                gm.append([[enc(mu0 + rnd.uniform(-1, 1)), enc(rnd.choice([25 / 3, 6.0, 40.0, 30.0]))] for _ in range(rnd.choice([1, 2, 2, 3]))])
            else:
                gm.append([[enc(mu0 + rnd.uniform(-1, 1)), enc(rnd.choice([0.8, 0.3, 25 / 3]))] for _ in range(rnd.choice([1, 1, 2]))])
        pr = _std_params(tau=rnd.choice([0.0, 25 / 300]))
        pr["beta"] = enc(beta)
        pr["kappa"] = enc(rnd.choice([1e-4, 1e-4, 1e-2]))
        r2 = dict(rp, game=gm, params=pr)
        r2.pop("scores", None)
        order = list(range(n))
        if rnd.random() < 0.7:
            order.remove(big)
            order.append(big) if rnd.random() < 0.7 else order.insert(0, big)
        ranks = [0] * n
        for place, i in enumerate(order):
            ranks[i] = place if rnd.random() < 0.85 else max(0, place - 1)
        r2["ranks"] = [enc(x) for x in ranks]
        try:
            bad, msg = c01_rate(r2)
        except Exception:  # noqa: BLE001
            continue
        if bad:
            return r2, msg
    return None


# ---------------------------------------------------------------- C06
@checker("c06_sigma")
def c06_sigma(rp):
    got = real_rate_concrete(rp)
    p = {k: num(v) for k, v in rp["params"].items()}
    tau = p["tau"] if rp.get("t") is None else num(rp["t"])
    lim = bool(rp.get("limit", False))
    for i, t in enumerate(rp["game"]):
        for j, q in enumerate(t):
            prior = num(q[1])
            sg = got[i][j][1]
            bound = prior if lim else math.sqrt(prior * prior + tau * tau)
            if rp.get("clause") == "canary":
                bound = 0.5 * prior
            if not (sg > 0 and math.isfinite(sg) and sg <= bound * (1 + 1e-12)):
                return True, f"{rp['model']}.rate: player [{i}][{j}] prior sigma {prior!r}, tau {tau!r}, limit_sigma={lim}: posterior sigma {sg!r} > bound {bound!r}"
    return False, "sigma within bounds"


@searcher("c06_sigma")
def c06_sigma_search(rp, seed):
    rnd = random.Random(seed)
    sizes = [len(x) for x in rp["game"]]
    for k in range(3000):
        beta = 25 / 6
        gm = [[[enc(rnd.uniform(-60, 120)), enc(rnd.choice([5e-4, 2e-3, 0.01, 0.5, 1.0, 3.0, 8.0, 30.0]))] for _ in range(n)] for n in sizes]
        r2 = dict(rp, game=gm, params=_std_params(tau=rnd.choice([0.0, 25 / 300, 1.0])))
        r2.pop("ranks", None)
        r2.pop("scores", None)
        vec = rp.get("vec", "ranks")
        if vec in ("ranks", "scores") and (vec == "scores" or k % 2):
            r2[vec] = [enc(rnd.choice([0, 1, 2, 1.5])) for _ in sizes]
        if k % 3 == 0:
            # established players in an expected result: sigma barely shrinks, so the tau inflation dominates
            for i, t in enumerate(gm):
                for q in t:
                    q[0], q[1] = enc(30.0 - 8.0 * i if vec != "scores" else 30.0 + 8.0 * r2[vec][i]["v"][0] / r2[vec][i]["v"][1]), enc(rnd.choice([1.0, 0.5]))
        try:
            bad, msg = c06_sigma(r2)
        except Exception:  # noqa: BLE001
            continue
        if bad:
            return r2, msg
    return None


# ---------------------------------------------------------------- C07
@checker("c07_zero")
def c07_zero(rp):
    got = real_rate_concrete(rp)
    p = {k: num(v) for k, v in rp["params"].items()}
    tau = p["tau"] if rp.get("t") is None else num(rp["t"])
    name = rp["model"]
    total, mag = 0.0, 0.0
    svar, theta = [], []
    gsrc = rp["game"] if not rp.get("twins") else [rp["game"][0]] * len(rp["game"])
    for i, t in enumerate(gsrc):
        s_i = sum(num(q[1]) ** 2 + tau * tau for q in t)
        d_i = sum(got[i][j][0] - num(q[0]) for j, q in enumerate(t))
        svar.append(s_i)
        total += d_i / s_i
        mag += abs(d_i / s_i)
        if rp.get("clause") == "canary":
            total += d_i - d_i / s_i
    allow = 1e-9 * max(mag, 1e-12)
    if name.startswith("Thurstone"):
        r = _vec(rp.get("ranks")) or ([-x for x in _vec(rp.get("scores"))] if rp.get("scores") else list(range(len(svar))))
        k = 2 if name.endswith("Part") else 1
        for i in range(len(svar)):
            for q in range(i + 1, len(svar)):
                if r[i] == r[q]:
                    c2 = k * k * (svar[i] + svar[q] + 2 * p["beta"] ** 2)
                    allow += 2 * p["kappa"] / c2
    return abs(total) > allow, f"{name}: precision-weighted sum of mu changes = {total!r} (allowed {allow!r})"


@searcher("c07_zero")
def c07_zero_search(rp, seed):
    rnd = random.Random(seed)
    sizes = [len(x) for x in rp["game"]]
    for k in range(300):
        r2 = dict(rp, game=rand_game(rnd, sizes), params=_std_params(tau=rnd.choice([0.0, 25 / 300])))
        if k % 2:
            r2["ranks"] = [enc(rnd.choice(range(len(sizes)))) for _ in sizes]
            r2["scores"] = None
        try:
            bad, msg = c07_zero(r2)
        except Exception:  # noqa: BLE001
            continue
        if bad:
            return r2, msg
    return None


# ---------------------------------------------------------------- C05
def _rate_vals(rp, ranks):
    r2 = dict(rp, ranks=[enc(x) for x in ranks], scores=None)
    return real_rate_concrete(r2)


@checker("c05_dir")
def c05_dir(rp):
    """direction-of-learning clauses on the real rate() for one game"""
    name = rp["model"]
    gm = [[(num(q[0]), num(q[1])) for q in t] for t in rp["game"]]
    n = len(gm)
    p = {k: num(v) for k, v in rp["params"].items()}
    tau = p["tau"]
    ranks = _vec(rp.get("ranks")) or list(range(n))
    tol = lambda x: 1e-9 * (1 + abs(x))
    got = _rate_vals(rp, ranks)
    clause = rp.get("clause")
    if clause == "canary":
        # wrong claim: the last team gains
        i = max(range(n), key=lambda k: ranks[k])
        return any(got[i][j][0] < gm[i][j][0] for j in range(len(gm[i]))), "last team loses mu (canary claimed it gains)"
    best = [i for i in range(n) if all(ranks[i] < ranks[q] for q in range(n) if q != i)]
    worst = [i for i in range(n) if all(ranks[i] > ranks[q] for q in range(n) if q != i)]
    for i in best:
        for j in range(len(gm[i])):
            if got[i][j][0] < gm[i][j][0] - tol(gm[i][j][0]):
                return True, f"{name}: team {i} finished alone in first place but player {j}'s mu went {gm[i][j][0]!r} -> {got[i][j][0]!r} (ranks {ranks})"
    for i in worst:
        for j in range(len(gm[i])):
            if got[i][j][0] > gm[i][j][0] + tol(gm[i][j][0]):
                return True, f"{name}: team {i} finished alone in last place but player {j}'s mu went {gm[i][j][0]!r} -> {got[i][j][0]!r} (ranks {ranks})"
    for i in range(n):
        for j in range(len(gm[i]) - 1):
            a = (got[i][j][0] - gm[i][j][0]) * (gm[i][j + 1][1] ** 2 + tau * tau)
            b = (got[i][j + 1][0] - gm[i][j + 1][0]) * (gm[i][j][1] ** 2 + tau * tau)
            if abs(a - b) > 1e-7 * (abs(a) + abs(b)) + 1e-12:
                return True, f"{name}: team {i} members {j},{j + 1} do not move in proportion to their variance: {a!r} vs {b!r}"
    if n == 2:
        w, d, l = _rate_vals(rp, [0, 1]), _rate_vals(rp, [0, 0]), _rate_vals(rp, [1, 0])
        for j in range(len(gm[0])):
            x = (l[0][j][0], d[0][j][0], w[0][j][0], gm[0][j][0])
            if not (x[0] <= x[1] + tol(x[1]) and x[1] <= x[2] + tol(x[2]) and x[0] <= x[3] + tol(x[3]) and x[3] <= x[2] + tol(x[2])):
                return True, f"{name}: two-team game, team 0 player {j}: loss/draw/win posterior mu {x[:3]} prior {x[3]}"
        for j in range(len(gm[1])):
            x = (w[1][j][0], d[1][j][0], l[1][j][0], gm[1][j][0])
            if not (x[0] <= x[1] + tol(x[1]) and x[1] <= x[2] + tol(x[2]) and x[0] <= x[3] + tol(x[3]) and x[3] <= x[2] + tol(x[2])):
                return True, f"{name}: two-team game, team 1 player {j}: loss/draw/win posterior mu {x[:3]} prior {x[3]}"
    return False, "direction clauses hold"


@searcher("c05_dir")
def c05_dir_search(rp, seed):
    rnd = random.Random(seed)
    sizes = [len(x) for x in rp["game"]]
    n = len(sizes)
    for k in range(1500):
        spread = rnd.choice([1, 1, 4, 12])
        gm = [[[enc(rnd.uniform(25 - 10 * spread, 25 + 10 * spread)), enc(rnd.choice([0.3, 2.0, 8.0]))] for _ in range(m)] for m in sizes]
        ranks = [rnd.choice(range(n)) for _ in range(n)] if k % 2 else list(range(n))
        r2 = dict(rp, game=gm, ranks=[enc(x) for x in ranks], params=_std_params(tau=rnd.choice([0.0, 25 / 300])))
        try:
            bad, msg = c05_dir(r2)
        except Exception:  # noqa: BLE001
            continue
        if bad:
            return r2, msg
    return None


# ---------------------------------------------------------------- C09 - C12 predictions
def _pred_setup(rp):
    name = rp["model"]
    beta = num(rp.get("beta", enc(25 / 6)))
    m = model_cls(name)(beta=beta)
    teams = mk_game(name, rp["game"])
    return name, beta, m, teams


@checker("c12_closed")
def c12_closed(rp):
    from pyvc.specs import predict as PS
    name, beta, m, teams = _pred_setup(rp)
    X = PS.FloatX()
    gm = [[(p.mu, p.sigma) for p in t] for t in teams]
    op = rp["op"]
    if op == "predict_win":
        got, want = m.predict_win(teams), PS.win(gm, beta, X)
    elif op == "predict_draw":
        got, want = [m.predict_draw(teams)], [PS.draw(gm, beta, X)]
    else:
        got, want = [p for (_r, p) in m.predict_rank(teams)], PS.rank_probabilities(gm, beta, X)
    if rp.get("clause") == "canary":
        want = list(reversed(want)) if len(want) > 1 else [want[0] + 1e-3]
    for i, (a, b) in enumerate(zip(got, want)):
        if abs(a - b) > 1e-9:
            return True, f"{name}.{op}: value {i} = {a!r}, closed form {b!r}"
    return len(got) != len(want), f"{name}.{op} equals its closed form to 1e-9"


def _rand_pred(rnd, sizes):
    gm = [[[rnd.uniform(0, 50), rnd.choice([0.0, 0.5, 3.0, 8.0])] for _ in range(n)] for n in sizes]
    # partial coincidences between two teams (a cache or lookup keyed by part of the data shows only
    # then): the same mus with other sigmas, the same sigmas with other mus, the same total mu
    mode = rnd.random()
    if len(sizes) > 1 and mode < 0.45:
        i, j = rnd.sample(range(len(sizes)), 2)
        if sizes[i] == sizes[j]:
            for k in range(sizes[i]):
                if mode < 0.2:
                    gm[i][k][0] = gm[j][k][0]
                    if gm[i][k][1] == gm[j][k][1]:
                        gm[i][k][1] = gm[j][k][1] + 1.5
                elif mode < 0.35:
                    gm[i][k][1] = gm[j][k][1]
        if mode >= 0.35:
            # equal totals, different members
            ti, tj = sum(p[0] for p in gm[i]), sum(p[0] for p in gm[j])
            gm[i][0][0] += tj - ti
            if abs(sum(p[0] for p in gm[i]) - tj) > 0 or all(a[1] == b[1] for a, b in zip(gm[i], gm[j])):
                gm[i][0][1] += 1.25
    return [[[enc(mu), enc(sg)] for (mu, sg) in t] for t in gm]


@searcher("c12_closed")
def c12_closed_search(rp, seed):
    rnd = random.Random(seed)
    sizes = [len(x) for x in rp["game"]]
    for k in range(300):
        gm = _rand_pred(rnd, sizes)
        if k % 3 == 0:
            # value-identical teams (e.g. new players)
            for i in range(1, len(sizes)):
                if sizes[i] == sizes[0] and rnd.random() < 0.7:
                    gm[i] = gm[0]
        r2 = dict(rp, game=gm)
        try:
            bad, msg = c12_closed(r2)
        except Exception:  # noqa: BLE001
            continue
        if bad:
            return r2, msg
    return None


@checker("c09_win")
def c09_win(rp):
    name, beta, m, teams = _pred_setup(rp)
    n = len(teams)
    p = m.predict_win(teams)
    if rp.get("clause") == "canary":
        return abs(sum(p) - 1.5) > 1e-9, f"sum = {sum(p)!r} (canary claimed 1.5)"
    if len(p) != n:
        return True, f"{name}.predict_win returned {len(p)} values for {n} teams"
    if any(not (-1e-12 <= x <= 1 + 1e-12) for x in p) or abs(sum(p) - 1) > 1e-9:
        return True, f"{name}.predict_win -> {p} (sum {sum(p)!r})"
    # permutation equivariance (reverse) and identical teams
    q = m.predict_win(list(reversed(mk_game(name, rp["game"]))))
    if any(abs(a - b) > 1e-9 for a, b in zip(p, reversed(q))):
        return True, f"{name}.predict_win not equivariant under reversing the teams: {p} vs {list(reversed(q))}"
    for i in range(n):
        for k in range(i + 1, n):
            if rp["game"][i] == rp["game"][k] and abs(p[i] - p[k]) > 1e-9:
                return True, f"identical teams {i},{k} get {p[i]!r} and {p[k]!r}"
    if n == 2 and rp["game"][0] == rp["game"][1] and p != [0.5, 0.5]:
        return True, f"two identical teams get {p}"
    if rp.get("alias"):
        # the same list object in the first and last slot vs value-identical separate lists
        g1 = mk_game(name, rp["game"][:-1] + [rp["game"][0]])
        g2 = mk_game(name, rp["game"][:-1] + [rp["game"][0]])
        g2[-1] = g2[0]
        pa, pb = m.predict_win(g1), m.predict_win(g2)
        if any(abs(a - b) > 1e-12 for a, b in zip(pa, pb)) or len(pa) != len(pb):
            return True, f"{name}.predict_win with one list object in two slots -> {pb}, with equal separate lists -> {pa}"
    # monotonicity in one member's mu
    g2 = mk_game(name, rp["game"])
    g2[0][0].mu += num(rp.get("bump", enc(1.0)))
    r = m.predict_win(g2)
    if r[0] < p[0] - 1e-12 or any(r[k] > p[k] + 1e-12 for k in range(1, n)):
        return True, f"raising a member's mu: {p} -> {r}"
    return False, "predict_win clauses hold"


@searcher("c09_win")
def c09_win_search(rp, seed):
    rnd = random.Random(seed)
    sizes = [len(x) for x in rp["game"]]
    for k in range(400):
        gm = _rand_pred(rnd, sizes)
        if k % 3 == 0 and len(sizes) > 1 and sizes[0] == sizes[-1]:
            gm[-1] = gm[0]
        r2 = dict(rp, game=gm, bump=enc(rnd.choice([0.0, 1e-3, 1.0, 30.0])))
        try:
            bad, msg = c09_win(r2)
        except Exception:  # noqa: BLE001
            continue
        if bad:
            return r2, msg
    return None


@checker("c10_draw")
def c10_draw(rp):
    name, beta, m, teams = _pred_setup(rp)
    n = len(teams)
    d = m.predict_draw(teams)
    if rp.get("clause") == "canary":
        return d < 0.9, f"draw = {d!r} (canary claimed >= 0.9)"
    if not (-1e-12 <= d <= 1 + 1e-9):
        return True, f"{name}.predict_draw -> {d!r}"
    q = m.predict_draw(list(reversed(mk_game(name, rp["game"]))))
    g3 = [list(reversed(t)) for t in mk_game(name, rp["game"])]
    q3 = m.predict_draw(g3)
    if abs(q - d) > 1e-9 or abs(q3 - d) > 1e-9:
        return True, f"{name}.predict_draw depends on the order: {d!r}, teams reversed {q!r}, players reversed {q3!r}"
    return False, "predict_draw clauses hold"


@searcher("c10_draw")
def c10_draw_search(rp, seed):
    rnd = random.Random(seed)
    sizes = [len(x) for x in rp["game"]]
    for k in range(400):
        r2 = dict(rp, game=_rand_pred(rnd, sizes))
        try:
            bad, msg = c10_draw(r2)
        except Exception:  # noqa: BLE001
            continue
        if bad:
            return r2, msg
    return None


@checker("c11_rank")
def c11_rank(rp):
    name, beta, m, teams = _pred_setup(rp)
    n = len(teams)
    out = m.predict_rank(teams)
    if rp.get("clause") == "canary":
        return [r for (r, _p) in out] != list(range(1, n + 1)), "ranks are not simply 1..n in input order"
    if len(out) != n:
        return True, f"{name}.predict_rank returned {len(out)} pairs for {n} teams"
    rk = [r for (r, _p) in out]
    pr = [p for (_r, p) in out]
    if any(not (isinstance(r, int) and 1 <= r <= n) for r in rk) or any(not (-1e-12 <= p <= 1 + 1e-12) for p in pr):
        return True, f"{name}.predict_rank -> {out}"
    for a in range(n):
        for b in range(n):
            if (pr[a] > pr[b] and not rk[a] < rk[b]) or (pr[a] == pr[b] and rk[a] != rk[b]):
                return True, f"{name}.predict_rank: teams {a},{b} have probabilities {pr[a]!r},{pr[b]!r} and ranks {rk[a]},{rk[b]}"
    if rk[max(range(n), key=lambda k: pr[k])] != 1:
        return True, f"most likely team does not have rank 1: {out}"
    if n >= 3:
        tot = sum(pr) + m.predict_draw(mk_game(name, rp["game"]))
        if abs(tot - 1) > 1e-9:
            return True, f"{name}: sum of rank probabilities + predict_draw = {tot!r}"
    return False, "predict_rank clauses hold"


@searcher("c11_rank")
def c11_rank_search(rp, seed):
    rnd = random.Random(seed)
    sizes = [len(x) for x in rp["game"]]
    for k in range(400):
        gm = _rand_pred(rnd, sizes)
        if k % 2 == 0 and len(sizes) > 1 and sizes[0] == sizes[-1]:
            gm[-1] = gm[0]
        r2 = dict(rp, game=gm)
        try:
            bad, msg = c11_rank(r2)
        except Exception:  # noqa: BLE001
            continue
        if bad:
            return r2, msg
    return None


@checker("c11_rankdata")
def c11_rankdata(rp):
    C = common()
    v = [num(x) for x in rp["v"]]
    got = C._rank_data(v)
    want = [1 + sum(1 for y in v if y < x) for x in v]
    if rp.get("clause") == "canary":
        want = [1 + sum(1 for y in v if y <= x) - 1 for x in v]
        want = list(range(1, len(v) + 1))
    return got != want, f"_rank_data({v}) -> {got}, competition ranks {want}"


@searcher("c11_rankdata")
def c11_rankdata_search(rp, seed):
    rnd = random.Random(seed)
    n = len(rp["v"])
    for _ in range(2000):
        r2 = dict(rp, v=[enc(rnd.choice([0.1, 0.2, 0.2, 0.5, 0.7, 0.0])) for _ in range(n)])
        bad, msg = c11_rankdata(r2)
        if bad:
            return r2, msg
    return None


# ---------------------------------------------------------------- C17
def _measured_relerr(fn, x):
    from pyvc import hiprec as H
    from decimal import Decimal as D
    W = wl_common()
    got = getattr(W, fn)(x)
    ref = H.Phi(D(x)) if fn == "phi_major" else H.phi(D(x))
    return got, float(H.relerr(got, ref)), ref


@checker("c17_cdf")
def c17_cdf(rp):
    x = float(num(rp["x"]))
    got, err, ref = _measured_relerr(rp["fn"], x)
    return err > rp.get("bound", 1e-12), f"{rp['fn']}({x!r}) = {got!r}, 50-digit reference {float(ref)!r}: relative error {err:.3e} (bound {rp.get('bound', 1e-12)})"


@searcher("c17_cdf")
def c17_cdf_search(rp, seed):
    """the propagated bound is a worst case: walk from the solver's x towards both tails
    until the *measured* error exceeds the bound"""
    x0 = float(num(rp["x"]))
    cands = [x0] + [x0 - 0.25 * k for k in range(1, 140)] + [x0 + 0.25 * k for k in range(1, 140)]
    for x in cands:
        if -37.5 <= x <= 38:
            r2 = dict(rp, x=enc(x))
            bad, msg = c17_cdf(r2)
            if bad:
                return r2, msg
    return None


@checker("c17_fn")
def c17_fn(rp):
    from pyvc import hiprec as H
    from decimal import Decimal as D
    W = wl_common()
    x, t = float(num(rp["x"])), float(num(rp["t"]))
    fn = rp["fn"]
    clause = rp.get("clause")
    eps = sys.float_info.epsilon
    if fn == "vt" and clause == "odd":
        s = W.vt(x, t) + W.vt(-x, t)
        return abs(s) > 2 * t * (1 + 1e-9) + 1e-15, f"vt({x!r},{t!r}) + vt({-x!r},{t!r}) = {s!r}, 2t = {2 * t!r}"
    if fn == "vt" and clause == "order":
        a, b, c = W.v(x, t), W.vt(x, t), -W.v(-x, t)
        return not (a >= b - 1e-9 * (1 + abs(a)) and b >= c - 1e-9 * (1 + abs(c))), f"v, vt, -v(-x) at ({x!r},{t!r}) = {a!r}, {b!r}, {c!r}"
    got = getattr(W, fn)(x, t)
    if not math.isfinite(got):
        return True, f"{fn}({x!r},{t!r}) = {got!r}"
    if clause == "canary":
        bad = {"v": got > 1, "w": got > 0.5, "vt": got < 0, "wt": got < 0.5}[fn]
        return bad, f"{fn}({x!r},{t!r}) = {got!r} (canary)"
    y = D(x) - D(t)
    if fn == "v":
        if got <= 0 and not (got == 0 and x - t > 37):
            return True, f"v({x!r},{t!r}) = {got!r} is not positive"
        if -37 < x - t < 37:
            ref = H.V(y)
            tol = D("1e-6") if W.phi_major(x - t) >= eps else D("0.02")
            if H.relerr(got, ref) > tol:
                return True, f"v({x!r},{t!r}) = {got!r}, V = {float(ref)!r} (relative error {float(H.relerr(got, ref)):.3e} > {tol})"
    elif fn == "w":
        if not (-1e-14 / t <= got <= 1 + 1e-14 / t):
            return True, f"w({x!r},{t!r}) = {got!r} outside [0,1]"
        if -37 < x - t < 37:
            ref = H.W(y)
            tol = D("1e-6") if W.phi_major(x - t) >= eps else D("0.02")
            if H.relerr(got, ref) > tol and abs(D(got) - ref) > D("1e-12"):
                return True, f"w({x!r},{t!r}) = {got!r}, W = {float(ref)!r}"
    elif fn == "vt":
        if abs(x) < 37:
            ref = H.Vt(D(x), D(t))
            if abs(D(got) - ref) > 2 * D(t) * (1 + D("1e-6")) + D("1e-12"):
                return True, f"vt({x!r},{t!r}) = {got!r}, V~ = {float(ref)!r} (off by more than 2t)"
    elif fn == "wt":
        if not (-1e-14 / t <= got <= 1 + 1e-14 / t):
            return True, f"wt({x!r},{t!r}) = {got!r} outside [0,1]"
    return False, f"{fn}({x!r},{t!r}) = {got!r} within the property's bounds"


@searcher("c17_fn")
def c17_fn_search(rp, seed):
    rnd = random.Random(seed)
    x0 = float(num(rp["x"]))
    for k in range(4000):
        x = rnd.choice([x0, -x0]) + rnd.uniform(-1, 1) if k % 2 else rnd.uniform(-40, 40)
        if k % 7 == 0:
            x = rnd.choice([-8.13, -8.12, -8.126, 0.0, -0.0, 8.12]) + rnd.choice([0, 1e-9, -1e-9, 1e-3])
        t = 10 ** rnd.uniform(-8, -2)
        r2 = dict(rp, x=enc(x), t=enc(t))
        try:
            bad, msg = c17_fn(r2)
        except ArithmeticError as e:
            return r2, f"{rp['fn']}({x!r}, {t!r}) raised {type(e).__name__}: {e}"
        except Exception as e:  # noqa: BLE001
            continue
        if bad:
            return r2, msg
    return None


# ---------------------------------------------------------------- C19
@checker("c19_predict")
def c19_predict(rp):
    beta = num(rp.get("beta", enc(25 / 6)))
    out = {}
    for name in (rp["a"], rp["b"]):
        m = model_cls(name)(beta=beta)
        out[name] = getattr(m, rp["op"])(mk_game(name, rp["game"]))
    return out[rp["a"]] != out[rp["b"]], f"{rp['op']}: {rp['a']} -> {str(out[rp['a']])[:80]} ; {rp['b']} -> {str(out[rp['b']])[:80]}"


@searcher("c19_predict")
def c19_predict_search(rp, seed):
    rnd = random.Random(seed)
    sizes = rp["sizes"]
    for k in range(300):
        gm = _rand_pred(rnd, sizes)
        if k % 3 == 0:
            # value-identical teams: tied probabilities
            for i in range(1, len(sizes)):
                if sizes[i] == sizes[0] and rnd.random() < 0.7:
                    gm[i] = gm[0]
        r2 = dict(rp, game=gm, beta=enc(rnd.choice([25 / 6, 1.0, 0.3])))
        try:
            bad, msg = c19_predict(r2)
        except Exception:  # noqa: BLE001
            continue
        if bad:
            return r2, msg
    return None


@checker("c19_btp")
def c19_btp(rp):
    out = {}
    for name in ("BradleyTerryFull", "BradleyTerryPart"):
        kw = {"gamma": _custom_gamma} if rp.get("gamma") == "custom" else {}
        m = mk_model(name, rp["params"], **kw)
        try:
            g = mk_game(name, rp["game"])
            if rp.get("alias") == "across":
                g[1][0] = g[0][0]
            elif rp.get("alias") == "within":
                g[0][1] = g[0][0]
            out[name] = values(m.rate(g, ranks=rp.get("ranks")))
        except Exception as e:  # noqa: BLE001
            out[name] = ("raises", type(e).__name__, str(e)[:80])
    return out["BradleyTerryFull"] != out["BradleyTerryPart"], f"two-team game: BradleyTerryFull {str(out['BradleyTerryFull'])[:90]} ; BradleyTerryPart {str(out['BradleyTerryPart'])[:90]}"


@searcher("c19_btp")
def c19_btp_search(rp, seed):
    rnd = random.Random(seed)
    for _ in range(200):
        r2 = dict(rp, game=rand_game(rnd, rp["sizes"]), params=_std_params())
        try:
            bad, msg = c19_btp(r2)
        except Exception:  # noqa: BLE001
            continue
        if bad:
            return r2, msg
    return None


@checker("c19_validation")
def c19_validation(rp):
    got = {}
    for name in (rp["ref"], rp["model"]):
        r2 = dict(rp, model=name)
        m = mk_model(name, _std_params())
        args = [build_arg(rp["teams"], name, rp["objs"], rp["nums"], rp["game"])]
        kw = {}
        if rp["op"] == "rate":
            kw["ranks"] = build_arg(rp["ranks"], name, rp["objs"], rp["nums"], rp["game"])
            kw["scores"] = build_arg(rp["scores"], name, rp["objs"], rp["nums"], rp["game"])
        try:
            getattr(m, rp["op"])(*args, **kw)
            got[name] = None
        except Exception as e:  # noqa: BLE001
            got[name] = type(e).__name__
    return got[rp["ref"]] != got[rp["model"]], f"{rp['op']} on the same arguments: {got}"


@checker("c19_signatures")
def c19_signatures(rp):
    import inspect
    A, B = model_cls(rp["a"]), model_cls(rp["b"])
    for n in sorted(set(dir(A)) | set(dir(B))):
        if n.startswith("_") and not n.startswith("__"):
            continue
        fa, fb = getattr(A, n, None), getattr(B, n, None)
        if callable(fa) != callable(fb) or (fa is None) != (fb is None):
            return True, f"{n}: present/callable differs"
        if callable(fa) and n in A.__dict__:
            try:
                sa = [(q.name, str(q.kind), repr(q.default).replace(rp["a"], "M")) for q in inspect.signature(fa).parameters.values()]
                sb = [(q.name, str(q.kind), repr(q.default).replace(rp["b"], "M")) for q in inspect.signature(fb).parameters.values()]
                sa = [x if "function _gamma" not in x[2] else (x[0], x[1], "_gamma") for x in sa]
                sb = [x if "function _gamma" not in x[2] else (x[0], x[1], "_gamma") for x in sb]
            except (TypeError, ValueError):
                continue
            if sa != sb:
                return True, f"{n}{sa} vs {n}{sb}"
    return False, "same public operations and signatures"


@checker("c19_registry")
def c19_registry(rp):
    _repo_on_path()
    import openskill.models as OM
    names = sorted(c.__name__ for c in OM.MODELS)
    return names != sorted(MODELS), f"MODELS = {names}"


@checker("c19_rating")
def c19_rating(rp):
    A, B = rating_cls(rp["a"]), rating_cls(rp["b"])
    what = rp["what"]
    for (mu1, s1, mu2, s2) in ((1.0, 2.0, 1.0, 2.0), (3.0, 1.0, 0.0, 0.0), (0.0, 1.0, 3.0, 2.0), (5, 1, 5.0, 1.0),
                               # tied / nearly tied ordinals with sigmas that are not exactly representable
                               (25, 25 / 3, 30, 10), (0.3, 0.1, 30.0, 10.0), (10, 10 / 3, 30.1, 30.1 / 3), (30, 10, 25, 25 / 3)):
        res = []
        for R in (A, B):
            a, b = R(mu1, s1, "A"), R(mu2, s2)
            a.id = "x"
            try:
                if what == "hash":
                    res.append(hash(a))
                elif what == "deepcopy":
                    c = copy.deepcopy(a)
                    res.append((c is not a, c.id, c.name, c.mu, c.sigma, sorted(c.__dict__)))
                elif what.startswith("ordinal"):
                    res.append(a.ordinal() if what == "ordinal" else a.ordinal(2.5))
                elif what.endswith("/foreign"):
                    try:
                        res.append(getattr(a, what.split("/")[0])(7))
                    except Exception as e:  # noqa: BLE001
                        res.append(type(e).__name__)
                else:
                    res.append(getattr(a, what)(b))
            except Exception as e:  # noqa: BLE001
                res.append(type(e).__name__)
        if res[0] != res[1]:
            return True, f"{what}: {rp['a']}Rating -> {res[0]!r}, {rp['b']}Rating -> {res[1]!r}"
    return False, "same rule"


# ---------------------------------------------------------------- C04
@checker("c04_perm")
def c04_perm(rp):
    name = rp["model"]
    n = len(rp["game"])
    ranks = _vec(rp.get("ranks")) or list(range(n))
    base = real_rate_concrete(dict(rp, ranks=[enc(x) for x in ranks]))
    partial = name.endswith("Part")
    perms = [rp["perm"]] if rp.get("perm") else list(__import__("itertools").permutations(range(n)))[:24]
    if rp.get("clause") == "canary":
        r2 = list(ranks)
        r2[0], r2[1] = r2[1], r2[0]
        other = real_rate_concrete(dict(rp, ranks=[enc(x) for x in r2]))
        return other != base, "swapping the outcome of two teams changes the result"
    for pi in perms:
        if partial and any(ranks[i] == ranks[j] and list(pi).index(i) > list(pi).index(j) for i in range(n) for j in range(i + 1, n)):
            continue
        g2 = [rp["game"][k] for k in pi]
        out = real_rate_concrete(dict(rp, game=g2, ranks=[enc(ranks[k]) for k in pi]))
        for p, k in enumerate(pi):
            for j in range(len(g2[p])):
                if not (close(out[p][j][0], base[k][j][0], 1e-9) and close(out[p][j][1], base[k][j][1], 1e-9)):
                    return True, f"{name}: teams presented in order {list(pi)} (ranks {ranks}): player [{k}][{j}] gets {out[p][j]} instead of {base[k][j]}"
    # players reversed inside every team
    g3 = [list(reversed(t)) for t in rp["game"]]
    out = real_rate_concrete(dict(rp, game=g3, ranks=[enc(x) for x in ranks]))
    for i in range(n):
        m = len(g3[i])
        for j in range(m):
            if not (close(out[i][j][0], base[i][m - 1 - j][0], 1e-9) and close(out[i][j][1], base[i][m - 1 - j][1], 1e-9)):
                return True, f"{name}: players of team {i} reversed: {out[i][j]} vs {base[i][m - 1 - j]}"
    return False, "equivariant"


@searcher("c04_perm")
def c04_perm_search(rp, seed):
    rnd = random.Random(seed)
    sizes = [len(x) for x in rp["game"]]
    n = len(sizes)
    for _ in range(300):
        r2 = dict(rp, game=rand_game(rnd, sizes), ranks=[enc(rnd.choice(range(n))) for _ in range(n)], params=_std_params())
        try:
            bad, msg = c04_perm(r2)
        except Exception:  # noqa: BLE001
            continue
        if bad:
            return r2, msg
    return None


# ---------------------------------------------------------------- C16
@checker("c16_rate")
def c16_rate(rp):
    name = rp["model"]
    base = real_rate_concrete(rp)
    mode = rp.get("mode", "scale")
    for f in ((1e-3, 0.37, 12.5, 1e3) if mode == "scale" else (-11.0, 3.5, 40.0)):
        if mode == "scale":
            g2 = [[[enc(num(q[0]) * f), enc(num(q[1]) * f)] for q in t] for t in rp["game"]]
            p2 = {k: (enc(num(v) * f) if k != "kappa" else v) for k, v in rp["params"].items()}
        else:
            g2 = [[[enc(num(q[0]) + f), q[1]] for q in t] for t in rp["game"]]
            p2 = rp["params"]
        out = real_rate_concrete(dict(rp, game=g2, params=p2, construct_params=rp["params"] if rp.get("inplace") else None))
        for i, t in enumerate(base):
            for j, (mu, sg) in enumerate(t):
                wm, ws = (mu * f, sg * f) if mode == "scale" else (mu + f, sg)
                if rp.get("clause") == "canary":
                    wm, ws = mu, sg
                if not (close(out[i][j][0], wm, 1e-10, 1e-13 * max(1.0, abs(wm))) and close(out[i][j][1], ws, 1e-10, 1e-13)):
                    return True, f"{name}.rate under {mode} by {f}: player [{i}][{j}] -> {out[i][j]}, expected ({wm!r}, {ws!r})"
    return False, f"{mode} invariance holds"


@searcher("c16_rate")
def c16_rate_search(rp, seed):
    rnd = random.Random(seed)
    sizes = [len(x) for x in rp["game"]]
    for _ in range(100):
        r2 = dict(rp, game=rand_game(rnd, sizes), params=_std_params())
        try:
            bad, msg = c16_rate(r2)
        except Exception:  # noqa: BLE001
            continue
        if bad:
            return r2, msg
    return None


@checker("c16_predict")
def c16_predict(rp):
    name = rp["model"]
    beta = 25 / 6
    base = getattr(model_cls(name)(beta=beta), rp["op"])(mk_game(name, rp["game"]))
    mode = rp["mode"]
    for f in ((1e-3, 0.37, 1e3) if mode == "scale" else (-11.0, 40.0)):
        if mode == "scale":
            g2 = [[[enc(num(q[0]) * f), enc(num(q[1]) * f)] for q in t] for t in rp["game"]]
            if rp.get("inplace"):
                m = model_cls(name)(beta=beta)
                m.mu, m.sigma, m.beta, m.tau = m.mu * f, m.sigma * f, m.beta * f, m.tau * f
            else:
                m = model_cls(name)(beta=beta * f)
        else:
            g2 = [[[enc(num(q[0]) + f), q[1]] for q in t] for t in rp["game"]]
            m = model_cls(name)(beta=beta)
        out = getattr(m, rp["op"])(mk_game(name, g2))
        fa = base if isinstance(base, list) else [base]
        fb = out if isinstance(out, list) else [out]
        for a, b in zip(fa, fb):
            xa = a if isinstance(a, tuple) else (a,)
            xb = b if isinstance(b, tuple) else (b,)
            if any(abs(u - v) > 1e-11 for u, v in zip(xa, xb)):
                return True, f"{name}.{rp['op']} under {mode} by {f}: {out} vs {base}"
    return False, "invariant"


# ---------------------------------------------------------------- C08
def _all_finite(x):
    if isinstance(x, (list, tuple)):
        return all(_all_finite(y) for y in x)
    return isinstance(x, (int, float)) and math.isfinite(x)


@checker("c08_total")
def c08_total(rp):
    try:
        out = real_rate_concrete(rp)
    except Exception as e:  # noqa: BLE001
        return rp.get("clause") != "canary", f"{rp['model']}.rate raised {type(e).__name__}: {e}"
    if rp.get("clause") == "canary":
        return False, "no failure inside the domain"
    return not _all_finite(out), f"{rp['model']}.rate -> {str(out)[:120]}"


@searcher("c08_total")
def c08_total_search(rp, seed):
    rnd = random.Random(seed)
    sizes = [len(x) for x in rp["game"]]
    canary = rp.get("clause") == "canary"
    for k in range(1500):
        beta = (25 / 6) * 10 ** rnd.choice([-3, -1, 0, 2, 3])
        wide = 1e4 if canary else 20
        if k % 3 == 0:
            # corners of the domain: whole teams at the extremes
            sgc = rnd.choice([1e-4, 1e-4, 10])
            gm = [[[enc((wide if (i + k // 3) % 2 else -wide) * beta), enc(sgc * beta)] for _ in range(m)] for i, m in enumerate(sizes)]
        else:
            gm = [[[enc(rnd.choice([-wide, wide, rnd.uniform(-wide, wide)]) * beta), enc(rnd.choice([1e-4, 10, rnd.uniform(1e-4, 10)]) * beta)] for _ in range(m)] for m in sizes]
        params = dict(mu=enc(25.0), sigma=enc(25 / 3), beta=enc(beta), kappa=enc(rnd.choice([1e-4, 1e-2, 1e-8])), tau=enc(rnd.choice([0.0, 0.02, 100.0]) * beta))
        r2 = dict(rp, game=gm, params=params, ranks=[enc(rnd.choice(range(len(sizes)))) for _ in sizes], clause=None,
                  gamma=rnd.choice(["default", "huge"]) if not canary else "default")
        try:
            bad, msg = c08_total(r2)
        except Exception:  # noqa: BLE001
            continue
        if bad:
            return dict(r2, clause=rp.get("clause")), msg
    return None


@checker("c08_predict")
def c08_predict(rp):
    name = rp["model"]
    m = model_cls(name)()
    for op in ([rp["op"]] if rp.get("op") else ["predict_win", "predict_draw", "predict_rank"]):
        try:
            out = getattr(m, op)(mk_game(name, rp["game"]))
        except Exception as e:  # noqa: BLE001
            return True, f"{name}.{op} raised {type(e).__name__}: {e}"
        if not _all_finite(out):
            return True, f"{name}.{op} -> {out}"
    return False, "finite"


@checker("c08_gauss")
def c08_gauss(rp):
    W = wl_common()
    x, t = float(num(rp["x"])), float(num(rp["t"]))
    try:
        r = getattr(W, rp["fn"])(x, t)
    except Exception as e:  # noqa: BLE001
        return True, f"{rp['fn']}({x!r}, {t!r}) raised {type(e).__name__}: {e}"
    return not math.isfinite(r), f"{rp['fn']}({x!r}, {t!r}) = {r!r}"


@searcher("c08_gauss")
def c08_gauss_search(rp, seed):
    rnd = random.Random(seed)
    for k in range(6000):
        x = rnd.uniform(-60, 60) if k % 2 else rnd.choice([-1, 1]) * rnd.choice([8.12, 8.13, 37.5, 38.4, 38.6, 39.0, 40.0, 45.0]) + rnd.uniform(-0.05, 0.05)
        t = 10 ** rnd.uniform(-8, -2)
        r2 = dict(rp, x=enc(x), t=enc(t))
        bad, msg = c08_gauss(r2)
        if bad:
            return r2, msg
    return None


@checker("c14_alias")
def c14_alias(rp):
    name = rp["model"]
    m = mk_model(name, rp["params"])
    gm = rp["game"][:-1] + [rp["game"][0]]
    a = mk_game(name, gm)
    b = mk_game(name, gm)
    b[-1] = b[0]
    ra, rb = getattr(m, rp["op"])(a), getattr(m, rp["op"])(b)
    return ra != rb, f"{name}.{rp['op']}: separate equal objects -> {str(ra)[:90]} ; one list object in two slots -> {str(rb)[:90]}"


@searcher("c14_alias")
def c14_alias_search(rp, seed):
    rnd = random.Random(seed)
    for _ in range(100):
        r2 = dict(rp, game=_rand_pred(rnd, [len(x) for x in rp["game"]]), params=_std_params())
        try:
            bad, msg = c14_alias(r2)
        except Exception:  # noqa: BLE001
            continue
        if bad:
            return r2, msg
    return None


@checker("c20_idsource")
def c20_idsource(rp):
    """ids must not be a function of re-seedable global state"""
    import random as _r
    name = rp["model"]
    m = mk_model(name, None)
    ids = []
    for _ in range(3):
        _r.seed(12345)
        try:
            import numpy as _np   # noqa: F401
            _np.random.seed(12345)
        except Exception:  # noqa: BLE001
            pass
        ids.append((m.rating().id, m.create_rating([1.0, 2.0]).id))
    flat = [x for t in ids for x in t]
    return len(set(flat)) != len(flat), f"{name}: ids of ratings created after re-seeding the global random state: {ids}"


@checker("c13_foreign_native")
def c13_foreign_native(rp):
    H, HR, OR = model_cls(rp["host"]), rating_cls(rp["host"]), rating_cls(rp["other"])
    for op in ("rate", "predict_win", "predict_draw", "predict_rank"):
        teams = [[HR(25.0, 8.0)], [HR(24.0, 7.0), OR(22.0, 5.0)]]
        try:
            getattr(H(), op)(teams)
        except (TypeError, ValueError):
            continue
        except Exception as e:  # noqa: BLE001
            return True, f"{rp['host']}.{op} given a {rp['other']}Rating raised {type(e).__name__}"
        return True, f"{rp['host']}.{op} accepted a {rp['other']}Rating (isinstance({rp['other']}Rating(), {rp['host']}Rating) = {isinstance(OR(1.0, 1.0), HR)})"
    return False, "foreign ratings rejected"


@checker("c14_twins")
def c14_twins(rp):
    name = rp["model"]
    m = mk_model(name, rp["params"])
    g = mk_game(name, rp["game"])
    a = [g[0]] + [[copy.deepcopy(p) for p in g[0]] for _ in g[1:]]
    h = mk_game(name, rp["game"])
    R = rating_cls(name)
    b = [h[0]] + [[R(p.mu, p.sigma) for p in h[0]] for _ in h[1:]]
    ra, rb = values(m.rate(a, ranks=rp.get("ranks"))), values(m.rate(b, ranks=rp.get("ranks")))
    return ra != rb, f"{name}.rate: deep copies of one rating -> {str(ra)[:90]} ; independently built equal players -> {str(rb)[:90]}"


@searcher("c14_twins")
def c14_twins_search(rp, seed):
    rnd = random.Random(seed)
    for _ in range(50):
        r2 = dict(rp, game=rand_game(rnd, [len(x) for x in rp["game"]]), params=_std_params())
        try:
            bad, msg = c14_twins(r2)
        except Exception:  # noqa: BLE001
            continue
        if bad:
            return r2, msg
    return None


@checker("c12_second")
def c12_second(rp):
    """a second instance (other beta) of the class, used after a first one, against a fresh process-independent closed form"""
    from pyvc.specs import predict as PS
    name = rp["model"]
    M = model_cls(name)
    X = PS.FloatX()
    for (b1, b2) in ((25 / 6, 1.0), (25 / 6, 0.5), (1.0, 25 / 6)):
        teams = mk_game(name, rp["game"])
        getattr(M(beta=b1), rp["op"])(teams)
        got = getattr(M(beta=b2), rp["op"])(mk_game(name, rp["game"]))
        gm = [[(p.mu, p.sigma) for p in t] for t in teams]
        if rp["op"] == "predict_win":
            g, w = got, PS.win(gm, b2, X)
        elif rp["op"] == "predict_draw":
            g, w = [got], [PS.draw(gm, b2, X)]
        else:
            g, w = [p for (_r, p) in got], PS.rank_probabilities(gm, b2, X)
        for a, b in zip(g, w):
            if abs(a - b) > 1e-9 or not (-1e-12 <= a <= 1 + 1e-9):
                return True, f"{name}(beta={b2}).{rp['op']} after {name}(beta={b1}).{rp['op']}: {g} ; closed form {w}"
    return False, "instances do not influence each other"


@checker("c12_history")
def c12_history(rp):
    """the same instance, used before (a bigger game sharing the rating objects; this game with other
    values in the same objects), against the closed form of the game at hand"""
    from pyvc.specs import predict as PS
    name, beta, m, teams = _pred_setup(rp)
    X = PS.FloatX()
    R = rating_cls(name)
    ops = ("predict_win", "predict_draw", "predict_rank")
    hx = rp.get("extra") or [[enc(21.0), enc(4.0)]]
    extra = [R(num(a), num(b)) for a, b in hx]
    objs = [p for t in teams for p in t]
    keep = [(p.mu, p.sigma) for p in objs]
    hv = rp.get("history_values")
    for k, p in enumerate(objs):
        if hv:
            p.mu, p.sigma = num(hv[k % len(hv)][0]), num(hv[k % len(hv)][1])
        else:
            p.mu, p.sigma = p.mu + 3.0 + k, p.sigma * 0.5 + 0.25
    for o in ops:
        getattr(m, o)(teams)
    for p, (m0, s0) in zip(objs, keep):
        p.mu, p.sigma = m0, s0
    for o in ops:
        getattr(m, o)([extra] + teams)
    got = getattr(m, rp["op"])(teams)
    gm = [[(p.mu, p.sigma) for p in t] for t in teams]
    if rp["op"] == "predict_win":
        g, w = got, PS.win(gm, beta, X)
    elif rp["op"] == "predict_draw":
        g, w = [got], [PS.draw(gm, beta, X)]
    else:
        g, w = [p for (_r, p) in got], PS.rank_probabilities(gm, beta, X)
    for a, b in zip(g, w):
        if abs(a - b) > 1e-9:
            return True, f"{name}.{rp['op']} on an instance used before -> {g}; first use / closed form {w}"
    return len(g) != len(w), "earlier calls do not influence the result"


@searcher("c12_history")
def c12_history_search(rp, seed):
    rnd = random.Random(seed)
    sizes = [len(x) for x in rp["game"]]
    for k in range(100):
        r2 = dict(rp, game=_rand_pred(rnd, sizes), extra=[[enc(rnd.uniform(0, 50)), enc(rnd.choice([0.5, 3.0, 8.0]))] for _ in range(rnd.choice([1, 1, 2]))])
        try:
            bad, msg = c12_history(r2)
        except Exception:  # noqa: BLE001
            continue
        if bad:
            return r2, msg
    return None


def _total_call(W, fn, x, t):
    f = getattr(W, fn)
    try:
        r = f(x, t) if t is not None else f(x)
    except (ArithmeticError, ValueError) as e:
        return True, f"{fn}({x!r}{', ' + repr(t) if t is not None else ''}) raised {type(e).__name__}: {e}"
    if not (isinstance(r, (int, float)) and math.isfinite(r)):
        return True, f"{fn}({x!r}{', ' + repr(t) if t is not None else ''}) returned {r!r}"
    return False, f"{fn} returns a finite value"


@checker("c17_total")
def c17_total(rp):
    """no arithmetic exception, finite result, at the given finite x (and margin t)"""
    W = wl_common()
    x = float(num(rp["x"]))
    t = float(num(rp["t"])) if rp.get("t") is not None else None
    if not math.isfinite(x):
        x = math.copysign(sys.float_info.max, x)
    return _total_call(W, rp["fn"], x, t)


@searcher("c17_total")
def c17_total_search(rp, seed):
    W = wl_common()
    rnd = random.Random(seed)
    t0 = float(num(rp["t"])) if rp.get("t") is not None else None
    mags = [1e-320, 1e-160, 1e-8, 1.0, 8.2, 37.6, 38.5, 40.0, 1e3, 1e8, 1e77, 1.3e154, 1.4e154, 1e155, 1e200, 1e300, sys.float_info.max]
    for mag in mags:
        for sgn in (1.0, -1.0):
            for t in ([t0, 1e-8, 1e-5, 1e-2] if t0 is not None else [None]):
                x = sgn * mag
                bad, msg = _total_call(W, rp["fn"], x, t)
                if bad:
                    return dict(rp, x=enc(x), t=enc(t) if t is not None else None), msg
    for _ in range(300):
        x = rnd.choice([-1, 1]) * 10 ** rnd.uniform(-300, 308)
        t = 10 ** rnd.uniform(-8, -2) if t0 is not None else None
        bad, msg = _total_call(W, rp["fn"], x, t)
        if bad:
            return dict(rp, x=enc(x), t=enc(t) if t is not None else None), msg
    return None


@checker("c13_history")
def c13_history(rp):
    """an accepted call, then the same list objects edited in place so that they are malformed"""
    H, HR, OR = model_cls(rp["model"]), rating_cls(rp["model"]), rating_cls(rp["other"])
    m = H()
    teams = [[HR(25.0, 8.0)], [HR(24.0, 7.0), HR(23.0, 6.0)]]
    getattr(m, rp["first"])(teams)
    teams[1][0] = OR(22.0, 5.0) if rp["what"] == "foreign-rating" else 21
    before = [(id(p), dict(p.__dict__)) for t in teams for p in t if hasattr(p, "__dict__")] + [dict(m.__dict__)]
    try:
        getattr(m, rp["op"])(teams)
        verdict = "returned normally"
    except (TypeError, ValueError):
        verdict = None
    except Exception as e:  # noqa: BLE001
        verdict = f"raised {type(e).__name__}: {e}"
    after = [(id(p), dict(p.__dict__)) for t in teams for p in t if hasattr(p, "__dict__")] + [dict(m.__dict__)]
    if verdict is not None:
        return True, f"{rp['model']}.{rp['op']} on lists edited in place after an accepted {rp['first']} ({rp['what']} in a player slot) {verdict}"
    return after != before, "rejected" + (" but something was modified" if after != before else "")


@checker("c13_long_vector")
def c13_long_vector(rp):
    """a vector of n elements with one non-number at position j must be rejected before any side effect"""
    import decimal
    H, HR = model_cls(rp["model"]), rating_cls(rp["model"])
    n, j = rp["n"], rp["j"]
    for bad in ("abc", None, decimal.Decimal(3), [1], (2,), {"a": 1}, object()):
        m = H()
        teams = [[HR(25.0 + k, 8.0)] for k in range(n)]
        vals = list(range(n))
        vals[j] = bad
        before = [dict(p.__dict__) for t in teams for p in t] + [dict(m.__dict__)]
        try:
            m.rate(teams, **{rp["vec"]: vals})
            verdict = "returned normally"
        except (TypeError, ValueError):
            verdict = None
        except Exception as e:  # noqa: BLE001
            verdict = f"raised {type(e).__name__}"
        after = [dict(p.__dict__) for t in teams for p in t] + [dict(m.__dict__)]
        if verdict is not None or after != before:
            return True, (f"{rp['model']}.rate({n} teams, {rp['vec']} with {bad!r} at position {j}) " +
                          (verdict or "was rejected, but the ratings or the model had already been modified"))
    return False, "rejected without side effect"


@checker("c13_long_teams")
def c13_long_teams(rp):
    """n teams, one malformed at position j: rejected before any side effect"""
    H, HR, OR = model_cls(rp["model"]), rating_cls(rp["model"]), rating_cls(rp["other"])
    n, j, what = rp["n"], rp["j"], rp["what"]
    m = H()
    teams = [[HR(25.0 + k, 8.0)] for k in range(n)]
    good = [p for t in teams for p in t]
    if what == "not-a-list":
        teams[j] = tuple(teams[j])
    elif what == "empty":
        teams[j] = []
    elif what == "non-rating-member":
        teams[j] = [teams[j][0], 21]
    else:
        teams[j] = [OR(22.0, 5.0)]
    before = [dict(p.__dict__) for p in good] + [dict(m.__dict__)]
    try:
        getattr(m, rp["op"])(teams)
        verdict = "returned normally"
    except (TypeError, ValueError):
        verdict = None
    except Exception as e:  # noqa: BLE001
        verdict = f"raised {type(e).__name__}: {e}"
    after = [dict(p.__dict__) for p in good] + [dict(m.__dict__)]
    if verdict is not None or after != before:
        return True, f"{rp['model']}.{rp['op']}({n} teams, {what} at position {j}) " + (verdict or "was rejected, but something had already been modified")
    return False, "rejected without side effect"


@checker("c14_objhist")
def c14_objhist(rp):
    """rating objects that were rated before (with other options) against fresh objects with the same values"""
    name = rp["model"]
    mA, mB = mk_model(name, rp["params"]), mk_model(name, rp["params"])
    used = mk_game(name, rp["game"])
    mA.rate(used, ranks=_ranks(rp), **(rp.get("first") or {}))
    R_ = rating_cls(name)
    fresh = [[R_(p.mu, p.sigma) for p in t] for t in used]
    kw = (rp.get("second") or {}) if rp["op"] == "rate" else {}
    a = _call_op(mA, rp["op"], used, _ranks(rp), kw)
    b = _call_op(mB, rp["op"], fresh, _ranks(rp), kw)
    return a != b, f"{name}.{rp['op']}({kw}) on objects rated before with {rp.get('first') or 'no options'}: {str(a)[:90]} ; on fresh objects with the same values: {str(b)[:90]}"


@searcher("c14_objhist")
def c14_objhist_search(rp, seed):
    rnd = random.Random(seed)
    sizes = [len(x) for x in rp["game"]]
    for k in range(200):
        # established players (small sigma: tau dominates the update, sigma would rise) against newcomers
        gm = [[[enc(rnd.uniform(15, 35)), enc(rnd.choice([0.8, 1.5, 3.0, 25 / 3]))] for _ in range(n)] for n in sizes]
        r2 = dict(rp, game=gm, params=_std_params(tau=rnd.choice([25 / 300, 0.5, 1.0])))
        try:
            bad, msg = c14_objhist(r2)
        except Exception:  # noqa: BLE001
            continue
        if bad:
            return r2, msg
    return None
