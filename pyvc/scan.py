"""Syntactic frame scans on the real AST (re-evaluated on every run).

They establish the frame part of a contract where the dynamic heap comparison
cannot (containers mutated in place, module-level state, symbolic numbers of
objects): which places a function may write."""
from __future__ import annotations

import ast

MUTATORS = {"append", "extend", "insert", "pop", "remove", "clear", "update", "setdefault",
            "add", "discard", "popitem", "sort", "reverse", "__setitem__", "__delitem__",
            "__setattr__", "appendleft", "popleft", "put", "put_nowait", "acquire", "release",
            "write", "seed", "shuffle"}


def _root_name(node):
    """Name at the root of an attribute/subscript chain, and the chain depth."""
    d = 0
    while isinstance(node, (ast.Attribute, ast.Subscript)):
        node = node.value
        d += 1
    if isinstance(node, ast.Name):
        return node.id, d
    return None, d


def module_level_names(tree):
    names = set()
    for n in tree.body:
        if isinstance(n, (ast.Assign, ast.AnnAssign, ast.AugAssign)):
            tg = n.targets if isinstance(n, ast.Assign) else [n.target]
            for t in tg:
                for x in ast.walk(t):
                    if isinstance(x, ast.Name):
                        names.add(x.id)
        elif isinstance(n, (ast.Import, ast.ImportFrom)):
            for a in n.names:
                names.add((a.asname or a.name).split(".")[0])
        elif isinstance(n, (ast.FunctionDef, ast.ClassDef)):
            names.add(n.name)
    return names


def _local_names(fn):
    loc = {a.arg for a in fn.args.args + fn.args.kwonlyargs + fn.args.posonlyargs}
    if fn.args.vararg:
        loc.add(fn.args.vararg.arg)
    if fn.args.kwarg:
        loc.add(fn.args.kwarg.arg)
    for n in ast.walk(fn):
        if isinstance(n, ast.Name) and isinstance(n.ctx, ast.Store):
            loc.add(n.id)
        elif isinstance(n, (ast.FunctionDef, ast.ClassDef)) and n is not fn:
            loc.add(n.name)
        elif isinstance(n, ast.arg):
            loc.add(n.arg)
    return loc


def _mutable_default_params(fn):
    out = set()
    args = fn.args.posonlyargs + fn.args.args
    defaults = fn.args.defaults
    for a, d in zip(args[len(args) - len(defaults):], defaults):
        if isinstance(d, (ast.Dict, ast.List, ast.Set, ast.Call, ast.ListComp, ast.DictComp, ast.SetComp)):
            out.add(a.arg)
    for a, d in zip(fn.args.kwonlyargs, fn.args.kw_defaults):
        if d is not None and isinstance(d, (ast.Dict, ast.List, ast.Set, ast.Call)):
            out.add(a.arg)
    return out


def shared_state_writes(tree, functions=None, skip=("__init__",)):
    """Findings [(qualname, lineno, description)]: places where a function may
    write state that outlives the call and is shared between calls:

    * `self.<attr> = ...` / `self.<attr>[..] = ...` / del / augmented assignment
    * `self.<attr>.<mutator>(...)`
    * `global` / `nonlocal` declarations
    * stores into, or mutator calls on, module-level names (incl. class attributes
      via the class name) and parameters with a mutable default value
    * `setattr(self|module-level, ...)`, `<x>.__dict__` access on those
    """
    mod_names = module_level_names(tree)
    findings = []

    def visit_fn(fn, qual, self_name):
        if fn.name in skip:
            return
        loc = _local_names(fn)
        shared = (mod_names - loc) | _mutable_default_params(fn)
        roots = set(shared)
        if self_name:
            roots.add(self_name)
        for n in ast.walk(fn):
            if isinstance(n, (ast.Global, ast.Nonlocal)):
                # nonlocal inside nested helper functions refers to the enclosing
                # call's frame, which does not outlive the call - still reported,
                # the repo has none
                findings.append((qual, n.lineno, f"{type(n).__name__.lower()} {', '.join(n.names)}"))
            targets = []
            if isinstance(n, ast.Assign):
                targets = n.targets
            elif isinstance(n, (ast.AugAssign, ast.AnnAssign)):
                targets = [n.target]
            elif isinstance(n, ast.Delete):
                targets = n.targets
            elif isinstance(n, (ast.For, ast.AsyncFor)):
                targets = [n.target]
            elif isinstance(n, ast.With):
                targets = [i.optional_vars for i in n.items if i.optional_vars is not None]
            flat = []
            for t in targets:
                if isinstance(t, (ast.Tuple, ast.List)):
                    flat.extend(t.elts)
                else:
                    flat.append(t)
            for t in flat:
                if isinstance(t, (ast.Attribute, ast.Subscript)):
                    root, _d = _root_name(t)
                    if root in roots:
                        findings.append((qual, t.lineno, f"store to {ast.unparse(t)}"))
            if isinstance(n, ast.Call):
                f = n.func
                if isinstance(f, ast.Attribute) and f.attr in MUTATORS:
                    root, d = _root_name(f.value)
                    # self.<attr>.<mutator>() or <shared>.<mutator>()
                    if (root == self_name and self_name and d >= 1) or (root in shared):
                        findings.append((qual, n.lineno, f"mutating call {ast.unparse(f)}(...)"))
                if isinstance(f, ast.Name) and f.id in ("setattr", "delattr") and n.args:
                    root, _d = _root_name(n.args[0])
                    if root in roots:
                        findings.append((qual, n.lineno, f"{f.id}({ast.unparse(n.args[0])}, ...)"))
                if isinstance(f, ast.Name) and f.id in ("globals", "vars", "exec", "eval"):
                    findings.append((qual, n.lineno, f"call to {f.id}()"))
            if isinstance(n, ast.Attribute) and n.attr == "__dict__":
                root, _d = _root_name(n.value)
                if root in roots:
                    findings.append((qual, n.lineno, f"access to {ast.unparse(n)}"))

    for n in tree.body:
        if isinstance(n, ast.FunctionDef):
            if functions is None or n.name in functions:
                visit_fn(n, n.name, None)
        elif isinstance(n, ast.ClassDef):
            for m in n.body:
                if isinstance(m, ast.FunctionDef):
                    q = f"{n.name}.{m.name}"
                    if functions is not None and q not in functions and m.name not in functions:
                        continue
                    is_static = any(isinstance(d, ast.Name) and d.id in ("staticmethod",) for d in m.decorator_list)
                    self_name = None if is_static or not m.args.args else m.args.args[0].arg
                    visit_fn(m, q, self_name)
    return findings


def hash_order_uses(tree):
    """Uses of constructs whose result can depend on PYTHONHASHSEED or object
    addresses: set/frozenset displays and calls, hash(), id(), iteration over
    them; dict keyed by non-int is not detectable syntactically (the dynamic
    taint covers ids/names)."""
    out = []
    for n in ast.walk(tree):
        if isinstance(n, (ast.Set, ast.SetComp)):
            out.append((n.lineno, "set display"))
        if isinstance(n, ast.Call) and isinstance(n.func, ast.Name) and n.func.id in ("set", "frozenset", "id"):
            out.append((n.lineno, f"{n.func.id}()"))
    return out


PURE_BUILTINS = {"isinstance", "len", "str", "repr", "format", "type", "enumerate", "range", "zip", "min", "max", "sorted", "list", "tuple",
                 "any", "all", "bool", "int", "float", "abs", "sum", "TypeError", "ValueError"}
PURE_METHODS = {"join", "format", "startswith", "endswith", "strip", "lower", "upper", "get", "keys", "values", "items", "count", "index"}


def _stmts_pure(stmts, allowed_calls, cls, depth, findings, where="", resolve=None, unknown=None):
    """no store to an attribute / subscript, no delete, no call other than the allowed builtins,
    exception constructors and - followed into their bodies - methods of the same class and functions
    of the package that `resolve(name)` finds (a validation helper moved into a shared module).
    A call that cannot be followed goes to `unknown` (the frame cannot be established syntactically:
    not attempted), a store goes to `findings` (the frame is broken)."""
    unknown = unknown if unknown is not None else findings
    for stmt in stmts:
        for n in ast.walk(stmt):
            targets = []
            if isinstance(n, ast.Assign):
                targets = n.targets
            elif isinstance(n, (ast.AugAssign, ast.AnnAssign)):
                targets = [n.target]
            elif isinstance(n, ast.Delete):
                targets = n.targets
            for t in targets:
                for x in ast.walk(t):
                    if isinstance(x, (ast.Attribute, ast.Subscript)) and isinstance(getattr(x, "ctx", None), (ast.Store, ast.Del)):
                        findings.append((x.lineno, f"store to {ast.unparse(x)} before the arguments are validated{where}"))
            if isinstance(n, (ast.Global, ast.Nonlocal)):
                findings.append((n.lineno, f"{type(n).__name__.lower()} declaration{where}"))
            if isinstance(n, ast.Call):
                f = n.func
                if isinstance(f, ast.Name):
                    if f.id in allowed_calls or f.id in PURE_BUILTINS:
                        continue
                    node = resolve(f.id) if resolve is not None else None
                    if node is not None and depth > 0:
                        _stmts_pure(node.body, allowed_calls, None, depth - 1, findings, where=f" (in {f.id})", resolve=resolve, unknown=unknown)
                        continue
                    unknown.append((n.lineno, f"call to {f.id}() in the validation prefix{where}"))
                elif isinstance(f, ast.Attribute):
                    if isinstance(f.value, ast.Name) and f.value.id == "self" and f"self.{f.attr}" in allowed_calls:
                        continue
                    if f.attr in PURE_METHODS and isinstance(f.value, (ast.Constant, ast.JoinedStr)):
                        continue          # ", ".join(..), "..".format(..): building a message
                    helper = None
                    if cls is not None and isinstance(f.value, ast.Name) and f.value.id in ("self", "cls", cls.name):
                        helper = next((m for m in cls.body if isinstance(m, ast.FunctionDef) and m.name == f.attr), None)
                    if helper is not None and depth > 0:
                        # a helper of the same class: the frame condition is checked on its body
                        _stmts_pure(helper.body, allowed_calls, cls, depth - 1, findings, where=f" (in {cls.name}.{helper.name})", resolve=resolve, unknown=unknown)
                        continue
                    unknown.append((n.lineno, f"call to {ast.unparse(f)}() in the validation prefix{where}"))


def package_resolver(tree, parse):
    """name -> FunctionDef of a module-level function of this module or of a function imported from
    another module of the package (`from openskill.x import name`); parse(relpath) returns a module AST"""
    local = {n.name: n for n in tree.body if isinstance(n, ast.FunctionDef)}
    imported = {}
    for n in tree.body:
        if isinstance(n, ast.ImportFrom) and n.module and n.module.startswith("openskill") and n.level == 0:
            for a in n.names:
                imported[a.asname or a.name] = (n.module.replace(".", "/") + ".py", a.name)
    cache = {}

    def resolve(name):
        if name in local:
            return local[name]
        if name in imported:
            rel, real = imported[name]
            try:
                if rel not in cache:
                    cache[rel] = parse(rel)
                return next((x for x in cache[rel].body if isinstance(x, ast.FunctionDef) and x.name == real), None)
            except Exception:  # noqa: BLE001
                return None
        return None
    return resolve


def prefix_is_pure(fn, stop_call=("copy", "deepcopy"), allowed_calls=("isinstance", "len", "ValueError", "TypeError"), cls=None, resolve=None, unknown=None):
    """Frame scan for a validation prefix: the statements of `fn` before the first
    statement that calls <stop_call> may not store to an attribute or subscript, delete,
    or call anything but the allowed builtins / exception constructors, `self.<method>`
    listed in allowed_calls, and methods of the same class `cls` whose own bodies satisfy
    the same condition.  Returns (findings, number of prefix statements)."""
    findings = []
    nprefix = 0

    def is_stop(stmt):
        for n in ast.walk(stmt):
            if isinstance(n, ast.Call) and isinstance(n.func, ast.Attribute) and n.func.attr == stop_call[1] \
                    and isinstance(n.func.value, ast.Name) and n.func.value.id == stop_call[0]:
                return True
        return False
    for stmt in fn.body:
        if is_stop(stmt):
            break
        nprefix += 1
        _stmts_pure([stmt], allowed_calls, cls, 3, findings, resolve=resolve, unknown=unknown)
    else:
        findings.append((fn.lineno, "no call to copy.deepcopy found: cannot delimit the validation prefix"))
    return findings, nprefix
