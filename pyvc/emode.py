"""pyvc.emode - first-order relative-error propagation (E-mode).

An ENum is (val, err): `val` a z3 real term denoting the *mathematical* value
the expression is meant to compute, `err` a z3 real term bounding the relative
error of the float actually computed, by the standard first-order model
(u = 2^-53):

  a*b, a/b       err_a + err_b + u          (exact when a factor is a power of two)
  a+b, a-b       (|a| err_a + |b| err_b) / |a +- b| + u
  f(a) (libm)    kappa_f(a) * err_a + u_f   with the assumed bounds (A-libm, A-Mills family)
                    kappa_erf <= 1;  kappa_erfc(a) <= 1 for a <= 0, <= 2a^2 + 2a + 1 for a > 0;
                    kappa_exp(a) = |a|;  kappa_sqrt = 1/2;   u_f = 4u (sqrt: u)

The real source (openskill's phi_major/phi_minor and the NormalDist.cdf/pdf of
the test interpreter's statistics.py, extracted class-wise) runs on ENum
proxies; every additive node records its condition number, so a tail computed
by cancellation cannot meet a relative-error bound."""
from __future__ import annotations

import ast
import fractions
import math
import subprocess

import z3

from .symrt import EngineError, realval, R

U = z3.RealVal(fractions.Fraction(1, 2 ** 53).__str__())
UF_ERR = 4 * U
_erf = z3.Function("erf", R, R)
_erfc = z3.Function("erfc", R, R)
_exp = z3.Function("exp", R, R)
_sqrt = z3.Function("sqrt", R, R)
SQRT2 = z3.Real("SQRT2")
SQRT2_FACTS = [SQRT2 > z3.RealVal("1.41421356"), SQRT2 < z3.RealVal("1.41421357"), SQRT2 * SQRT2 == 2]


def zabs(t):
    return z3.If(t >= 0, t, -t)


def _is0(e):
    e = z3.simplify(e)
    return z3.is_rational_value(e) and e.numerator_as_long() == 0


def _pow2(x):
    if not isinstance(x, float) or x == 0:
        return False
    m, _e = math.frexp(abs(x))
    return m == 0.5


BRANCH_ORACLE = [None]


class ENum:
    __slots__ = ("val", "err", "const")

    def __init__(self, val, err, const=None):
        self.val, self.err, self.const = val, err, const

    @staticmethod
    def lift(x):
        if isinstance(x, ENum):
            return x
        if isinstance(x, (int, float)) and not isinstance(x, bool):
            return ENum(realval(x), z3.RealVal(0), float(x))
        raise EngineError(f"E-mode: not a number: {x!r}")

    def _mul(self, o, div=False, swap=False):
        o = ENum.lift(o)
        a, b = (o, self) if swap else (self, o)
        val = a.val / b.val if div else a.val * b.val
        exact = (b.const is not None and _pow2(b.const)) or (not div and a.const is not None and _pow2(a.const))
        if a.const is not None and b.const is not None:
            c = a.const / b.const if div else a.const * b.const
            return ENum(realval(c), z3.RealVal(0), c)
        err = a.err + b.err + (z3.RealVal(0) if exact else U)
        return ENum(val, z3.simplify(err))

    def __mul__(self, o):
        return self._mul(o)

    def __rmul__(self, o):
        return self._mul(o, swap=True)

    def __truediv__(self, o):
        return self._mul(o, div=True)

    def __rtruediv__(self, o):
        return self._mul(o, div=True, swap=True)

    def _add(self, o, sub=False, swap=False):
        o = ENum.lift(o)
        a, b = (o, self) if swap else (self, o)
        val = a.val - b.val if sub else a.val + b.val
        if a.const is not None and b.const is not None:
            c = a.const - b.const if sub else a.const + b.const
            return ENum(realval(c), z3.RealVal(0), c)
        if (a.const == 0.0):
            return ENum(-b.val if sub else b.val, b.err)
        if (b.const == 0.0):
            return a
        if _is0(a.err) and _is0(b.err):
            return ENum(val, U)       # exact operands: one rounding (and no 0/0 when the sum vanishes)
        err = (zabs(a.val) * a.err + zabs(b.val) * b.err) / zabs(val) + U
        return ENum(val, err)

    def __add__(self, o):
        return self._add(o)

    def __radd__(self, o):
        return self._add(o, swap=True)

    def __sub__(self, o):
        return self._add(o, sub=True)

    def __rsub__(self, o):
        return self._add(o, sub=True, swap=True)

    def __neg__(self):
        return ENum(-self.val, self.err, None if self.const is None else -self.const)

    def __pow__(self, n):
        # x ** n for a small integer n: libm pow, relative error n * err(x) + one rounding
        if isinstance(n, ENum) and n.const is not None:
            n = n.const
        if isinstance(n, float) and n == int(n):
            n = int(n)
        if not isinstance(n, int) or isinstance(n, bool) or not (-8 <= n <= 8):
            raise EngineError(f"E-mode: power with exponent {n!r}")
        if n == 0:
            return ENum.lift(1.0)
        if self.const is not None:
            c = self.const ** n
            return ENum(realval(c), z3.RealVal(0), c)
        val = self.val
        for _ in range(abs(n) - 1):
            val = val * self.val
        if n < 0:
            val = 1 / val
        return ENum(val, z3.simplify(abs(n) * self.err + (U if abs(n) > 1 else z3.RealVal(0))))

    def __bool__(self):
        if self.const is not None:
            return bool(self.const)
        raise EngineError("E-mode: branch on a computed value")

    # comparisons of a computed value are answered by the analysis (one branch is analysed at a
    # time; the oracle returns the branch taken and records what that means for the exact value)
    def _cmp(self, op, o):
        o = ENum.lift(o)
        if self.const is not None and o.const is not None:
            return {"lt": self.const < o.const, "le": self.const <= o.const, "gt": self.const > o.const, "ge": self.const >= o.const}[op]
        if BRANCH_ORACLE[0] is None:
            raise EngineError("E-mode: comparison of a computed value without a branch oracle")
        return BRANCH_ORACLE[0](op, self, o)

    def __lt__(self, o):
        return self._cmp("lt", o)

    def __le__(self, o):
        return self._cmp("le", o)

    def __gt__(self, o):
        return self._cmp("gt", o)

    def __ge__(self, o):
        return self._cmp("ge", o)

    def __repr__(self):
        return f"ENum({self.val}, err={self.err})"


def e_erf(a):
    a = ENum.lift(a)
    return ENum(_erf(a.val), a.err + UF_ERR)            # kappa_erf <= 1


def e_erfc(a):
    a = ENum.lift(a)
    k = z3.If(a.val <= 0, z3.RealVal(1), 2 * a.val * a.val + 2 * a.val + 1)
    return ENum(_erfc(a.val), k * a.err + UF_ERR)


def e_exp(a):
    a = ENum.lift(a)
    return ENum(_exp(a.val), zabs(a.val) * a.err + UF_ERR)


_log = z3.Function("log", R, R)


def e_log(a):
    a = ENum.lift(a)
    v = _log(a.val)
    return ENum(v, a.err / zabs(v) + UF_ERR)            # kappa_log(a) = 1/|log a|


def e_sqrt(a):
    a = ENum.lift(a)
    if a.const is not None:
        c = math.sqrt(a.const)
        if c * c == a.const:
            return ENum(realval(c), z3.RealVal(0), c)
        if a.const == 2.0:
            return ENum(SQRT2, U)
        if a.const == math.tau:
            return ENum(_sqrt(realval(a.const)), U)
    return ENum(_sqrt(a.val), a.err / 2 + U)


class EMath:
    pi, tau, e = math.pi, math.tau, math.e
    erf, erfc, exp, sqrt, log = staticmethod(e_erf), staticmethod(e_erfc), staticmethod(e_exp), staticmethod(e_sqrt), staticmethod(e_log)

    def __getattr__(self, n):
        raise EngineError(f"E-mode: math.{n} not modelled")


def test_interpreter_statistics():
    out = subprocess.run(["/venv/bin/python", "-c", "import statistics; print(statistics.__file__)"],
                         capture_output=True, text=True, timeout=60)
    return out.stdout.strip()


def extract_normaldist(ns_extra):
    """Compile class NormalDist (and _normal_dist_inv_cdf) of the test
    interpreter's statistics.py, alone, into a namespace.  Dropped: the rest of
    that module.  Names it uses are provided by ns_extra."""
    path = test_interpreter_statistics()
    with open(path) as fh:
        src = fh.read()
    tree = ast.parse(src, filename=path)
    keep = [n for n in tree.body if (isinstance(n, ast.ClassDef) and n.name in ("NormalDist", "StatisticsError"))
            or (isinstance(n, ast.FunctionDef) and n.name == "_normal_dist_inv_cdf")]
    mod = ast.Module(body=keep, type_ignores=[])
    ns = {"__name__": "pyvc_scratch.statistics_NormalDist"}
    ns.update(ns_extra)
    exec(compile(mod, path, "exec"), ns)
    return ns, path
