"""pyvc.tactics - discharging obligations.

verdicts: 'discharged' (hypotheses |- goal, unsat of the negation),
          'refuted'   (a model of hypotheses and not goal; a *candidate* until
                       it is replayed on the real code),
          'open'      (no back end decided it).
"""
from __future__ import annotations

import fractions
import os
import subprocess
import tempfile
import time

import z3

Z3_TIMEOUT_MS = int(os.environ.get("PYVC_Z3_TIMEOUT_MS", "20000"))
Z3_RLIMIT = int(os.environ.get("PYVC_Z3_RLIMIT", "60000000"))
CVC5 = "/usr/bin/cvc5"
CVC5_TLIMIT_MS = int(os.environ.get("PYVC_CVC5_TLIMIT_MS", "20000"))


def model_to_dict(m):
    out = {}
    for d in m.decls():
        if d.arity() != 0:
            continue
        v = m[d]
        try:
            if z3.is_rational_value(v):
                out[d.name()] = [v.numerator_as_long(), v.denominator_as_long()]
            elif z3.is_int_value(v):
                out[d.name()] = [v.as_long(), 1]
            elif z3.is_true(v) or z3.is_false(v):
                out[d.name()] = bool(z3.is_true(v))
            elif z3.is_algebraic_value(v):
                a = v.approx(30)
                out[d.name()] = [a.numerator_as_long(), a.denominator_as_long()]
            else:
                out[d.name()] = str(v)
        except Exception:  # noqa: BLE001
            out[d.name()] = str(v)
    return out


def model_value(md, name, default=0.0):
    v = md.get(name)
    if v is None:
        return default
    if isinstance(v, list):
        return fractions.Fraction(v[0], v[1])
    return v


def select_facts(obl):
    out = []
    for (e, level, _subj) in obl.facts.values():
        if level == "sign" or level in obl.reveal or "all" in obl.reveal:
            out.append(e)
    return out


def _has_quantifier(es):
    seen = set()
    stack = list(es)
    while stack:
        e = stack.pop()
        if e.get_id() in seen:
            continue
        seen.add(e.get_id())
        if z3.is_quantifier(e):
            return True
        stack.extend(e.children())
    return False


def _cvc5(assertions, want_model=False):
    s = z3.Solver()
    for a in assertions:
        s.add(a)
    smt = s.to_smt2()
    logic = "(set-logic ALL)\n"
    fd, path = tempfile.mkstemp(suffix=".smt2", prefix="pyvc_")
    try:
        with os.fdopen(fd, "w") as fh:
            fh.write(logic + smt)
        r = subprocess.run([CVC5, f"--tlimit={CVC5_TLIMIT_MS}", "--nl-ext-tplanes", path],
                           capture_output=True, text=True, timeout=CVC5_TLIMIT_MS / 1000 + 10)
        out = r.stdout.strip().splitlines()
        return out[0] if out else "unknown"
    except Exception:  # noqa: BLE001
        return "unknown"
    finally:
        try:
            os.unlink(path)
        except OSError:
            pass


def check_sat(assertions, timeout_ms=None, rlimit=None, use_cvc5=True, nlsat=True):
    """(result, backend, model_or_None, reason) for the conjunction."""
    t0 = time.time()
    s = z3.Solver()
    s.set("timeout", timeout_ms or Z3_TIMEOUT_MS)
    s.set("rlimit", rlimit or Z3_RLIMIT)
    for a in assertions:
        s.add(a)
    r = s.check()
    if r == z3.unsat:
        return "unsat", "z3", None, ""
    if r == z3.sat:
        return "sat", "z3", s.model(), ""
    reason = s.reason_unknown()
    if nlsat and not _has_quantifier(assertions):
        try:
            t = z3.Then("simplify", "purify-arith", "qfnra-nlsat")
            s2 = t.solver()
            s2.set("timeout", timeout_ms or Z3_TIMEOUT_MS)
            for a in assertions:
                s2.add(a)
            r2 = s2.check()
            if r2 == z3.unsat:
                return "unsat", "z3-nlsat", None, ""
            if r2 == z3.sat:
                return "sat", "z3-nlsat", s2.model(), ""
        except z3.Z3Exception:
            pass
    if use_cvc5:
        r3 = _cvc5(assertions)
        if r3 == "unsat":
            return "unsat", "cvc5", None, ""
        if r3 == "sat":
            return "sat", "cvc5", None, "cvc5 sat (no model extracted)"
    return "unknown", "-", None, reason


def discharge(obl, timeout_ms=None, rlimit=None, use_cvc5=True):
    t0 = time.time()
    g = obl.goal
    if z3.is_true(g):
        obl.verdict, obl.backend = "discharged", "path-eval"
        obl.time = 0.0
        return obl
    base = list(obl.hyps) + select_facts(obl)
    r, be, m, why = check_sat(base + [z3.Not(g)], timeout_ms, rlimit, use_cvc5)
    obl.time = time.time() - t0
    obl.backend = be
    if r == "unsat":
        obl.verdict = "discharged"
    elif r == "sat":
        obl.verdict = "refuted"
        obl.model = model_to_dict(m) if m is not None else {}
        obl.note = why
    else:
        obl.verdict = "open"
        obl.note = why
    return obl


def vacuity(hyps, timeout_ms=5000):
    """hypotheses must be satisfiable (else everything is discharged vacuously).
    Returns 'sat', 'unsat' or 'unknown'."""
    r, _be, _m, _why = check_sat(list(hyps), timeout_ms, None, use_cvc5=False, nlsat=False)
    return r
