"""pyvc.tactics - discharging obligations.

verdicts: 'discharged' (hypotheses |- goal, unsat of the negation),
          'refuted'   (a model of hypotheses and not goal; a *candidate* until
                       it is replayed on the real code),
          'open'      (no back end decided it).
"""
from __future__ import annotations

import fractions
import os
import subprocess
import tempfile
import time

import z3

Z3_TIMEOUT_MS = int(os.environ.get("PYVC_Z3_TIMEOUT_MS", "20000"))
Z3_RLIMIT = int(os.environ.get("PYVC_Z3_RLIMIT", "60000000"))
CVC5 = "/usr/bin/cvc5"
CVC5_TLIMIT_MS = int(os.environ.get("PYVC_CVC5_TLIMIT_MS", "20000"))


def model_to_dict(m):
    out = {}
    for d in m.decls():
        if d.arity() != 0:
            continue
        v = m[d]
        try:
            if z3.is_rational_value(v):
                out[d.name()] = [v.numerator_as_long(), v.denominator_as_long()]
            elif z3.is_int_value(v):
                out[d.name()] = [v.as_long(), 1]
            elif z3.is_true(v) or z3.is_false(v):
                out[d.name()] = bool(z3.is_true(v))
            elif z3.is_algebraic_value(v):
                a = v.approx(30)
                out[d.name()] = [a.numerator_as_long(), a.denominator_as_long()]
            else:
                out[d.name()] = str(v)
        except Exception:  # noqa: BLE001
            out[d.name()] = str(v)
    return out


def model_value(md, name, default=0.0):
    v = md.get(name)
    if v is None:
        return default
    if isinstance(v, list):
        return fractions.Fraction(v[0], v[1])
    return v


def select_facts(obl):
    out = []
    for (e, level, _subj) in obl.facts.values():
        if level == "sign" or level in obl.reveal or "all" in obl.reveal:
            out.append(e)
    return out


def _has_quantifier(es):
    seen = set()
    stack = list(es)
    while stack:
        e = stack.pop()
        if e.get_id() in seen:
            continue
        seen.add(e.get_id())
        if z3.is_quantifier(e):
            return True
        stack.extend(e.children())
    return False


def _cvc5(assertions, want_model=False):
    s = z3.Solver()
    for a in assertions:
        s.add(a)
    smt = s.to_smt2()
    logic = "(set-logic ALL)\n"
    fd, path = tempfile.mkstemp(suffix=".smt2", prefix="pyvc_")
    try:
        with os.fdopen(fd, "w") as fh:
            fh.write(logic + smt)
        r = subprocess.run([CVC5, f"--tlimit={CVC5_TLIMIT_MS}", "--nl-ext-tplanes", path],
                           capture_output=True, text=True, timeout=CVC5_TLIMIT_MS / 1000 + 10)
        out = r.stdout.strip().splitlines()
        return out[0] if out else "unknown"
    except Exception:  # noqa: BLE001
        return "unknown"
    finally:
        try:
            os.unlink(path)
        except OSError:
            pass


def check_sat(assertions, timeout_ms=None, rlimit=None, use_cvc5=True, nlsat=True):
    """(result, backend, model_or_None, reason) for the conjunction."""
    t0 = time.time()
    s = z3.Solver()
    s.set("timeout", timeout_ms or Z3_TIMEOUT_MS)
    s.set("rlimit", rlimit or Z3_RLIMIT)
    for a in assertions:
        s.add(a)
    r = s.check()
    if r == z3.unsat:
        return "unsat", "z3", None, ""
    if r == z3.sat:
        return "sat", "z3", s.model(), ""
    reason = s.reason_unknown()
    if nlsat and not _has_quantifier(assertions):
        try:
            t = z3.Then("simplify", "purify-arith", "qfnra-nlsat")
            s2 = t.solver()
            s2.set("timeout", timeout_ms or Z3_TIMEOUT_MS)
            for a in assertions:
                s2.add(a)
            r2 = s2.check()
            if r2 == z3.unsat:
                return "unsat", "z3-nlsat", None, ""
            if r2 == z3.sat:
                return "sat", "z3-nlsat", s2.model(), ""
        except z3.Z3Exception:
            pass
    if use_cvc5:
        r3 = _cvc5(assertions)
        if r3 == "unsat":
            return "unsat", "cvc5", None, ""
        if r3 == "sat":
            return "sat", "cvc5", None, "cvc5 sat (no model extracted)"
    return "unknown", "-", None, reason


def discharge(obl, timeout_ms=None, rlimit=None, use_cvc5=True):
    t0 = time.time()
    g = obl.goal
    if z3.is_true(g):
        obl.verdict, obl.backend = "discharged", "path-eval"
        obl.time = 0.0
        return obl
    base = list(obl.hyps) + select_facts(obl)
    if _has_quantifier(base + [g]):
        # quantified (loop-invariant) VC: deterministic index-set instantiation first
        r0, why0 = check_by_instantiation(base + [z3.Not(g)], timeout_ms=timeout_ms or Z3_TIMEOUT_MS)
        if r0 == "unsat":
            obl.time = time.time() - t0
            obl.verdict, obl.backend = "discharged", "instantiate+z3"
            return obl
    r, be, m, why = check_sat(base + [z3.Not(g)], timeout_ms, rlimit, use_cvc5)
    obl.time = time.time() - t0
    obl.backend = be
    if r == "unsat":
        obl.verdict = "discharged"
    elif r == "sat":
        obl.verdict = "refuted"
        obl.model = model_to_dict(m) if m is not None else {}
        obl.note = why
    else:
        obl.verdict = "open"
        obl.note = why
    return obl


def vacuity(hyps, timeout_ms=5000):
    """hypotheses must be satisfiable (else everything is discharged vacuously).
    Returns 'sat', 'unsat' or 'unknown'."""
    r, _be, _m, _why = check_sat(list(hyps), timeout_ms, None, use_cvc5=False, nlsat=False)
    return r


# ---------------------------------------------------------------------------
# the `instantiate` tactic: quantified loop-invariant VCs without the solver's
# own (run-to-run unstable) quantifier heuristics.  hyps /\ not goal is brought
# to negation normal form (existentials skolemised by z3's `nnf` tactic); every
# universally quantified index variable is then instantiated with every ground
# index term of the formula (the index set of the array-property fragment,
# Bradley-Manna-Sipma), for a fixed number of rounds; the quantified formulas
# are dropped.  Sound: instances only weaken the hypotheses, so `unsat` of the
# quantifier-free result implies `unsat` of the original.
def _index_terms(es, limit=40):
    seen, out = set(), {}
    stack = list(es)
    while stack:
        e = stack.pop()
        if e.get_id() in seen:
            continue
        seen.add(e.get_id())
        if z3.is_quantifier(e):
            stack.append(e.body())
            continue
        if not z3.is_app(e):
            continue
        ch = e.children()
        k = e.decl().kind()
        cands = []
        if k in (z3.Z3_OP_SELECT, z3.Z3_OP_STORE) and len(ch) >= 2:
            cands.append(ch[1])
        elif k == z3.Z3_OP_UNINTERPRETED and ch:
            cands += [c for c in ch if z3.is_int(c)]
        elif k in (z3.Z3_OP_LE, z3.Z3_OP_LT, z3.Z3_OP_GE, z3.Z3_OP_GT, z3.Z3_OP_EQ) and len(ch) == 2 and z3.is_int(ch[0]):
            cands += [c for c in ch if z3.is_const(c) or z3.is_int_value(c)]
        for c in cands:
            if z3.is_int(c) and not _has_var(c):
                out[c.get_id()] = c
        stack.extend(ch)
    terms = list(out.values())
    terms.sort(key=lambda t: (len(t.sexpr()), t.sexpr()))
    return terms[:limit]


def _has_var(e):
    stack = [e]
    seen = set()
    while stack:
        x = stack.pop()
        if x.get_id() in seen:
            continue
        seen.add(x.get_id())
        if z3.is_var(x):
            return True
        if z3.is_quantifier(x):
            return True
        stack.extend(x.children())
    return False


def _instantiate(e, index, budget):
    if z3.is_quantifier(e):
        if not e.is_forall():
            return e
        n = e.num_vars()
        if any(e.var_sort(i) != z3.IntSort() for i in range(n)):
            return e
        import itertools
        insts = []
        for vals in itertools.product(index, repeat=n):
            if budget[0] <= 0:
                break
            budget[0] -= 1
            # de Bruijn: variable 0 is the innermost (last) bound variable
            body = z3.substitute_vars(e.body(), *reversed(vals))
            insts.append(_instantiate(body, index, budget))
        return z3.And(insts) if insts else z3.BoolVal(True)
    if not z3.is_app(e) or not z3.is_bool(e):
        return e
    k = e.decl().kind()
    if k in (z3.Z3_OP_AND, z3.Z3_OP_OR):
        ch = [_instantiate(c, index, budget) for c in e.children()]
        return z3.And(ch) if k == z3.Z3_OP_AND else z3.Or(ch)
    return e


def check_by_instantiation(assertions, rounds=2, timeout_ms=20000, max_instances=60000):
    g = z3.Goal()
    for a in assertions:
        g.add(a)
    try:
        nnf = z3.Tactic("nnf")(g)
    except z3.Z3Exception:
        return "unknown", "nnf failed"
    forms = [f for sub in nnf for f in sub]
    ground = forms
    for _ in range(rounds):
        index = _index_terms(ground)
        if not index:
            break
        budget = [max_instances]
        ground = [z3.simplify(_instantiate(f, index, budget)) for f in forms]
        if budget[0] <= 0:
            break
    # drop whatever quantifier is left (non-Int binders)
    ground = [f for f in ground if not _has_quantifier([f])]
    s = z3.Solver()
    s.set("timeout", timeout_ms)
    for f in ground:
        s.add(f)
    r = s.check()
    if r == z3.unsat:
        return "unsat", ""
    return "unknown", f"instantiated formula {r}"
