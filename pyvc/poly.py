"""pyvc.poly - exact normal forms of real terms (the `field` tactic).

A z3 Real term is converted bottom-up into a Laurent polynomial over *atoms*
with Fraction coefficients:

  sym     an input symbol
  sqrt    sqrt(P)        keyed by the canonical form of P (after pulling out
                         positive monomial square content)
  expm    exp(m)         m a single Laurent monomial with coefficient normalised
                         to +1; exp(sum c_k m_k) = prod exp(m_k)^c_k  (A-exp)
  uf      f(P1,..,Pk)    any other uninterpreted function (Phi, phi, PhiInv,
                         the U_* stubs), keyed by canonical argument forms
  ite     If(c, a, b)    keyed by canonical forms (c as the sign condition of a
                         canonical polynomial)
  inv     1/D            D a canonical polynomial with more than one term
                         (primitive, positive leading coefficient, no monomial
                         content); relation  D * inv(D) = 1

Equal canonical keys give the same atom, so congruence is syntactic.  Products
containing inv(D)^k are reduced by exact multivariate division of the cofactor
by D (single divisor, lex order): P*inv(D)^k = Q*inv(D)^(k-1) + R*inv(D)^k.
Everything is an identity of real terms wherever the denominators are non-zero
and the sqrt arguments non-negative (side conditions reported by the caller).
"""
from __future__ import annotations

import fractions
from fractions import Fraction

import z3

ZERO = Fraction(0)
ONE = Fraction(1)


class Unsupported(Exception):
    pass


class Atoms:
    def __init__(self, positive_syms=()):
        self.by_key = {}
        self.info = []          # index -> (kind, key, payload)
        self.positive = set()   # atom ids known > 0 (input symbols declared positive)
        self.positive_names = set(positive_syms)

    def get(self, kind, key, payload=None):
        k = (kind, key)
        i = self.by_key.get(k)
        if i is None:
            i = len(self.info)
            self.by_key[k] = i
            self.info.append((kind, key, payload))
            if kind == "sym" and key in self.positive_names:
                self.positive.add(i)
            if kind == "expm":
                self.positive.add(i)
        return i

    def name(self, i):
        kind, key, _ = self.info[i]
        if kind == "sym":
            return str(key)
        return f"{kind}#{i}"


# monomial: tuple of (atom, exp) sorted by atom, exp != 0
def mono_mul(a, b):
    if not a:
        return b
    if not b:
        return a
    out = []
    i = j = 0
    while i < len(a) and j < len(b):
        if a[i][0] == b[j][0]:
            e = a[i][1] + b[j][1]
            if e:
                out.append((a[i][0], e))
            i += 1
            j += 1
        elif a[i][0] < b[j][0]:
            out.append(a[i])
            i += 1
        else:
            out.append(b[j])
            j += 1
    out.extend(a[i:])
    out.extend(b[j:])
    return tuple(out)


def mono_inv(a):
    return tuple((x, -e) for (x, e) in a)


def mono_pow(a, n):
    return tuple((x, e * n) for (x, e) in a) if n else ()


class Poly:
    __slots__ = ("t",)

    def __init__(self, t=None):
        self.t = t or {}

    @staticmethod
    def const(c):
        c = Fraction(c)
        return Poly({(): c} if c else {})

    @staticmethod
    def atom(i, e=1):
        return Poly({((i, e),): ONE})

    def is_zero(self):
        return not self.t

    def copy(self):
        return Poly(dict(self.t))

    def __add__(self, o):
        t = dict(self.t)
        for m, c in o.t.items():
            v = t.get(m, ZERO) + c
            if v:
                t[m] = v
            else:
                t.pop(m, None)
        return Poly(t)

    def __neg__(self):
        return Poly({m: -c for m, c in self.t.items()})

    def __sub__(self, o):
        return self + (-o)

    def scale(self, c):
        c = Fraction(c)
        return Poly({m: v * c for m, v in self.t.items()}) if c else Poly()

    def mul_mono(self, mono, c=ONE):
        return Poly({mono_mul(m, mono): v * c for m, v in self.t.items()}) if c else Poly()

    def __mul__(self, o):
        if len(self.t) < len(o.t):
            return o * self
        t = {}
        for m2, c2 in o.t.items():
            for m1, c1 in self.t.items():
                m = mono_mul(m1, m2)
                v = t.get(m, ZERO) + c1 * c2
                if v:
                    t[m] = v
                else:
                    t.pop(m, None)
        return Poly(t)

    def pow(self, n):
        if n < 0:
            raise Unsupported("negative power of a polynomial")
        r = Poly.const(1)
        b = self
        while n:
            if n & 1:
                r = r * b
            b = b * b
            n >>= 1
        return r

    def key(self):
        return tuple(sorted(self.t.items()))

    def atoms(self):
        s = set()
        for m in self.t:
            for (a, _e) in m:
                s.add(a)
        return s

    def __len__(self):
        return len(self.t)

    def single(self):
        """(mono, coeff) if the polynomial is one term, else None"""
        if len(self.t) == 1:
            (m, c), = self.t.items()
            return m, c
        return None

    def constant(self):
        """Fraction if constant else None"""
        if not self.t:
            return ZERO
        if len(self.t) == 1 and () in self.t:
            return self.t[()]
        return None


def mono_cmp(m1, m2):
    """lex order on exponent vectors (absent atom = exponent 0), atoms in
    increasing id: a true monomial order (compatible with multiplication)"""
    i = j = 0
    while i < len(m1) and j < len(m2):
        a1, e1 = m1[i]
        a2, e2 = m2[j]
        if a1 == a2:
            if e1 != e2:
                return 1 if e1 > e2 else -1
            i += 1
            j += 1
        elif a1 < a2:
            return 1 if e1 > 0 else -1
        else:
            return -1 if e2 > 0 else 1
    if i < len(m1):
        return 1 if m1[i][1] > 0 else -1
    if j < len(m2):
        return -1 if m2[j][1] > 0 else 1
    return 0


import functools
_mono_key = functools.cmp_to_key(mono_cmp)


def leading(p):
    m = max(p.t, key=_mono_key)
    return m, p.t[m]


def _divides(d, m):
    """does monomial d (nonneg exps) divide monomial m (as monomials with
    arbitrary integer exponents of *other* atoms allowed)?  Returns quotient
    monomial or None.  Division is exact on the atoms of d; exponents of m on
    those atoms must be >= those of d."""
    md = dict(m)
    for (a, e) in d:
        if md.get(a, 0) < e:
            return None
    q = dict(md)
    for (a, e) in d:
        v = q[a] - e
        if v:
            q[a] = v
        else:
            del q[a]
    return tuple(sorted(q.items()))


def divmod_single(p, d):
    """p = q*d + r with no term of r divisible by LT(d) (lex order)."""
    lm, lc = leading(d)
    q = Poly()
    r = Poly()
    work = p.copy()
    guard = 0
    while work.t:
        guard += 1
        if guard > 200000:
            raise Unsupported("division does not terminate")
        m = max(work.t, key=_mono_key)
        c = work.t[m]
        qm = _divides(lm, m)
        if qm is None:
            r.t[m] = c
            del work.t[m]
        else:
            f = c / lc
            q = q + Poly({qm: f})
            work = work - d.mul_mono(qm, f)
    return q, r


class Normalizer:
    def __init__(self, positive_syms=()):
        self.atoms = Atoms(positive_syms)
        self.memo = {}
        self.side = []   # side conditions used: ('nonzero', z3 term) / ('nonneg', z3 term)
        self.inv_of = {}   # inv atom -> D poly
        self.sqrt_of = {}  # sqrt atom -> arg poly
        self.known = {}    # canonical condition key -> truth value on this path
        self.known_source = None   # callable returning the path's hypotheses (scanned lazily)
        self._known_scanned = False

    # ---- canonicalisation helpers
    def _primitive(self, p):
        """p = c * mono * D with D primitive (coprime integer coefficients, positive
        leading coefficient) and without monomial content; returns (c, mono, D)."""
        # monomial content: min exponent per atom over all terms (absent = 0)
        allat = set()
        for m in p.t:
            for (a, _e) in m:
                allat.add(a)
        ats = {}
        for a in allat:
            ats[a] = min(dict(m).get(a, 0) for m in p.t)
        mono = tuple(sorted((a, e) for a, e in ats.items() if e))
        d = p.mul_mono(mono_inv(mono)) if mono else p
        # numeric content
        from math import gcd
        num = 0
        den = 1
        for c in d.t.values():
            num = gcd(num, abs(c.numerator))
            den = den * c.denominator // gcd(den, c.denominator)
        content = Fraction(num, den) if num else ONE
        _, lc = leading(d)
        if lc < 0:
            content = -content
        d = d.scale(1 / content)
        return content, mono, d

    def inv_poly(self, p, origin=None):
        """Poly for 1/p."""
        if p.is_zero():
            raise Unsupported("division by the zero polynomial")
        s = p.single()
        if s is not None:
            m, c = s
            return Poly({mono_inv(m): 1 / c})
        c, mono, d = self._primitive(p)
        s = d.single()
        if s is not None:
            m2, c2 = s
            return Poly({mono_inv(mono_mul(mono, m2)): 1 / (c * c2)})
        a = self.atoms.get("inv", d.key(), d)
        self.inv_of[a] = d
        return Poly({mono_mul(mono_inv(mono), ((a, 1),)): 1 / c})

    def reduce(self, p):
        """normalise products with inv atoms by exact division of cofactors"""
        if not self.inv_of:
            return p
        changed = True
        rounds = 0
        while changed:
            changed = False
            rounds += 1
            if rounds > 50:
                break
            groups = {}
            for m, c in p.t.items():
                sig = tuple((a, e) for (a, e) in m if a in self.inv_of)
                rest = tuple((a, e) for (a, e) in m if a not in self.inv_of)
                groups.setdefault(sig, Poly()).t[rest] = c
            out = Poly()
            for sig, cof in groups.items():
                done = False
                for (a, e) in sig:
                    if e <= 0:
                        # inv(D)^(-k) = D^k
                        d = self.inv_of[a]
                        newsig = tuple((x, y) for (x, y) in sig if x != a)
                        out = out + (cof * d.pow(-e)).mul_mono(newsig)
                        changed = True
                        done = True
                        break
                    d = self.inv_of[a]
                    # lift negative exponents of the cofactor on the atoms of d
                    q, r = self._div_laurent(cof, d)
                    if not q.is_zero():
                        newsig = tuple((x, (y - 1 if x == a else y)) for (x, y) in sig)
                        newsig = tuple((x, y) for (x, y) in newsig if y)
                        out = out + q.mul_mono(newsig) + r.mul_mono(sig)
                        changed = True
                        done = True
                        break
                if not done:
                    out = out + cof.mul_mono(sig)
            p = out
        return p

    def _div_laurent(self, cof, d):
        dats = {a for m in d.t for (a, _e) in m}
        shift = {}
        for m in cof.t:
            for (a, e) in m:
                if a in dats and e < 0:
                    shift[a] = max(shift.get(a, 0), -e)
        if shift:
            sm = tuple(sorted(shift.items()))
            cof2 = cof.mul_mono(sm)
            q, r = divmod_single(cof2, d)
            ism = mono_inv(sm)
            return q.mul_mono(ism), r.mul_mono(ism)
        return divmod_single(cof, d)

    # ---- special functions
    def _sqrt(self, p, origin):
        c = p.constant()
        if c is not None and c >= 0:
            # exact rational square roots only
            from math import isqrt
            n, d = c.numerator, c.denominator
            if isqrt(n) ** 2 == n and isqrt(d) ** 2 == d:
                return Poly.const(Fraction(isqrt(n), isqrt(d)))
        # pull out even monomial content of positive atoms: sqrt(m^2 * q) = m * sqrt(q)
        content, mono, d = self._primitive(p)
        out_mono = []
        keep = []
        for (a, e) in mono:
            if a in self.atoms.positive or self.atoms.info[a][0] in ("sqrt",):
                h = e // 2 if e >= 0 else -((-e) // 2)
                if h:
                    out_mono.append((a, h))
                if e - 2 * h:
                    keep.append((a, e - 2 * h))
            else:
                keep.append((a, e))
        inner = d.mul_mono(tuple(keep), content)
        ic = inner.constant()
        if ic is not None and ic >= 0:
            from math import isqrt
            n, dd = ic.numerator, ic.denominator
            if isqrt(n) ** 2 == n and isqrt(dd) ** 2 == dd:
                return Poly({tuple(sorted(out_mono)): Fraction(isqrt(n), isqrt(dd))})
        a = self.atoms.get("sqrt", inner.key(), inner)
        self.sqrt_of[a] = inner
        self.atoms.positive.add(a)  # sqrt of a positive argument; callers establish arg > 0 (side condition)
        self.side.append(("nonneg", origin))
        return Poly({tuple(sorted(out_mono + [(a, 1)])): ONE}) if out_mono else Poly.atom(a)

    def _exp(self, p, origin):
        if p.is_zero():
            return Poly.const(1)
        mono = ()
        for m, c in sorted(p.t.items()):
            if not m:
                raise Unsupported("exp of a term with a constant summand")
            if c.denominator != 1:
                # exp(m * p/q) = exp(m/q)^p : make the atom exp((1/q) m)
                a = self.atoms.get("expm", (m, c.denominator), None)
                k = c.numerator
            else:
                a = self.atoms.get("expm", (m, 1), None)
                k = c.numerator
            mono = mono_mul(mono, ((a, k),))
        return Poly({mono: ONE})

    # ---- conversion
    def poly(self, e):
        k = e.get_id()
        r = self.memo.get(k)
        if r is not None:
            return r[1]
        r = self._conv(e)
        self.memo[k] = (e, r)   # keep e alive so that the id is not recycled
        return r

    def _conv(self, e):
        if z3.is_rational_value(e):
            return Poly.const(Fraction(e.numerator_as_long(), e.denominator_as_long()))
        if z3.is_int_value(e):
            return Poly.const(e.as_long())
        if not z3.is_app(e):
            raise Unsupported(f"not an application: {e}")
        d = e.decl()
        kind = d.kind()
        ch = e.children()
        if kind == z3.Z3_OP_UNINTERPRETED:
            name = d.name()
            if not ch:
                pinned = getattr(self, "sym_values", None)
                if pinned and name in pinned:
                    return Poly.const(pinned[name])
                return Poly.atom(self.atoms.get("sym", name))
            args = [self.reduce(self.poly(c)) for c in ch]
            if name == "sqrt":
                return self._sqrt(args[0], e)
            if name == "exp":
                return self._exp(args[0], e)
            if name in ("Phi", "phi") and len(args) == 1:
                # A-Phi reflection made syntactic: Phi(-a) = 1 - Phi(a), phi(-a) = phi(a), Phi(0) = 1/2
                a0 = args[0]
                if a0.is_zero():
                    if name == "Phi":
                        return Poly.const(Fraction(1, 2))
                else:
                    _, lc = leading(a0)
                    if lc < 0:
                        at = Poly.atom(self.atoms.get("uf", (name, (-a0).key()), None))
                        return (Poly.const(1) - at) if name == "Phi" else at
            if name == "PhiInv" and len(args) == 1:
                c0 = args[0].constant()
                if c0 is not None and c0 == Fraction(1, 2):
                    return Poly.const(0)
            return Poly.atom(self.atoms.get("uf", (name,) + tuple(a.key() for a in args), None))
        if kind == z3.Z3_OP_ADD:
            r = Poly()
            for c in ch:
                r = r + self.poly(c)
            return r
        if kind == z3.Z3_OP_SUB:
            r = self.poly(ch[0])
            for c in ch[1:]:
                r = r - self.poly(c)
            return r
        if kind == z3.Z3_OP_UMINUS:
            return -self.poly(ch[0])
        if kind == z3.Z3_OP_MUL:
            r = Poly.const(1)
            for c in ch:
                r = r * self.poly(c)
            return self._squares(r)
        if kind == z3.Z3_OP_DIV:
            num = self.poly(ch[0])
            den = self.reduce(self.poly(ch[1]))
            self.side.append(("nonzero", ch[1]))
            return self._squares(num * self.inv_poly(den, ch[1]))
        if kind == z3.Z3_OP_POWER:
            ex = self.poly(ch[1]).constant()
            if ex is None or ex.denominator != 1:
                if ex == Fraction(1, 2):
                    return self._sqrt(self.reduce(self.poly(ch[0])), e)
                raise Unsupported(f"power with exponent {ch[1]}")
            n = ex.numerator
            b = self.poly(ch[0])
            if n >= 0:
                return self._squares(b.pow(n))
            self.side.append(("nonzero", ch[0]))
            return self._squares(self.inv_poly(self.reduce(b), ch[0]).pow(-n))
        if kind == z3.Z3_OP_TO_REAL:
            return self.poly(ch[0])
        if kind == z3.Z3_OP_ITE:
            a = self.reduce(self.poly(ch[1]))
            b = self.reduce(self.poly(ch[2]))
            if a.key() == b.key():
                return a
            ck = self.cond_key(ch[0])
            if ck is True:
                return a
            if ck is False:
                return b
            if isinstance(ck, tuple) and ck[0] == "not":
                ck, a, b = ck[1], b, a
            kv = self.lookup(ck)
            if kv is True:
                return a
            if kv is False:
                return b
            return Poly.atom(self.atoms.get("ite", (ck, a.key(), b.key()), (ch[0], a, b)))
        raise Unsupported(f"operator {d.name()}")

    def _squares(self, p):
        """sqrt-atom^(+-2) -> its argument / the inverse of its argument
        (valid for positive arguments)"""
        if not self.sqrt_of:
            return p
        need = False
        for m in p.t:
            for (a, e) in m:
                if a in self.sqrt_of and (e >= 2 or e <= -2):
                    need = True
                    break
            if need:
                break
        if not need:
            return p
        out = Poly()
        for m, c in p.t.items():
            term = Poly({tuple((a, e) for (a, e) in m if not (a in self.sqrt_of and abs(e) >= 2)): c})
            for (a, e) in m:
                if a in self.sqrt_of and abs(e) >= 2:
                    arg = self.sqrt_of[a]
                    if e > 0:
                        term = term * arg.pow(e // 2)
                        if e % 2:
                            term = term.mul_mono(((a, 1),))
                    else:
                        term = term * self.inv_poly(arg).pow((-e) // 2)
                        if (-e) % 2:
                            term = term.mul_mono(((a, -1),))
            out = out + term
        return self._squares(out) if out.t != p.t else out

    def cond_key(self, c):
        """canonical key of a Boolean condition (comparisons of real terms)"""
        if z3.is_true(c):
            return True
        if z3.is_false(c):
            return False
        k = c.decl().kind()
        ch = c.children()
        if k == z3.Z3_OP_NOT:
            s = self.cond_key(ch[0])
            if s is True:
                return False
            if s is False:
                return True
            return ("not", s)
        if k in (z3.Z3_OP_AND, z3.Z3_OP_OR):
            return ("and" if k == z3.Z3_OP_AND else "or", tuple(sorted((self.cond_key(x) for x in ch), key=repr)))
        if k in (z3.Z3_OP_LE, z3.Z3_OP_LT, z3.Z3_OP_GE, z3.Z3_OP_GT, z3.Z3_OP_EQ, z3.Z3_OP_DISTINCT) and z3.is_arith(ch[0]):
            a, b = self.reduce(self.poly(ch[0])), self.reduce(self.poly(ch[1]))
            # base forms: ("ge0", P) meaning P >= 0 and ("eq0", P); everything
            # else is a negation of one of them
            neg = False
            if k == z3.Z3_OP_LE:      # a <= b  <=> b - a >= 0
                dlt = b - a
            elif k == z3.Z3_OP_GE:    # a >= b  <=> a - b >= 0
                dlt = a - b
            elif k == z3.Z3_OP_LT:    # a < b   <=> not (a - b >= 0)
                dlt, neg = a - b, True
            elif k == z3.Z3_OP_GT:    # a > b   <=> not (b - a >= 0)
                dlt, neg = b - a, True
            else:
                dlt = a - b
                neg = (k == z3.Z3_OP_DISTINCT)
            dlt = self.reduce(dlt)
            iseq = k in (z3.Z3_OP_EQ, z3.Z3_OP_DISTINCT)
            cst = dlt.constant()
            if cst is not None:
                v = (cst == 0) if iseq else (cst >= 0)
                return (not v) if neg else v
            from math import gcd
            num, den = 0, 1
            for v in dlt.t.values():
                num = gcd(num, abs(v.numerator))
                den = den * v.denominator // gcd(den, v.denominator)
            dl = dlt.scale(Fraction(den, num))
            if iseq:
                _, lc = leading(dl)
                if lc < 0:
                    dl = -dl
            base = ("eq0" if iseq else "ge0", dl.key())
            return ("not", base) if neg else base
        raise Unsupported(f"condition {c}")

    def lookup(self, ck):
        """truth value of a canonical condition on this path, if the path
        condition decides it syntactically"""
        if not self._known_scanned and self.known_source is not None:
            self._known_scanned = True
            for h in self.known_source():
                self.learn(h)
        return self.eval_cond(ck)

    def eval_cond(self, ck):
        """three-valued truth of a canonical condition from the recorded atomic ones"""
        if ck is True or ck is False:
            return ck
        v = self.known.get(ck)
        if v is not None or not isinstance(ck, tuple):
            return v
        if ck[0] == "not":
            r = self.eval_cond(ck[1])
            return None if r is None else (not r)
        if ck[0] in ("and", "or"):
            vals = [self.eval_cond(x) for x in ck[1]]
            if ck[0] == "and":
                if any(x is False for x in vals):
                    return False
                return True if all(x is True for x in vals) else None
            if any(x is True for x in vals):
                return True
            return False if all(x is False for x in vals) else None
        return None

    def undecided_atom(self, ck):
        """an atomic (ge0 / eq0) sub-condition of ck whose truth is not recorded, or None"""
        if ck is True or ck is False or not isinstance(ck, tuple):
            return None
        if ck[0] == "not":
            return self.undecided_atom(ck[1])
        if ck[0] in ("and", "or"):
            for x in ck[1]:
                r = self.undecided_atom(x)
                if r is not None:
                    return r
            return None
        return ck if self.known.get(ck) is None else None

    def learn(self, h, val=True):
        try:
            if z3.is_and(h) and val:
                for c in h.children():
                    self.learn(c, True)
                return
            if z3.is_or(h) and not val:
                for c in h.children():
                    self.learn(c, False)
                return
            ck = self.cond_key(h)
        except Unsupported:
            return
        if ck is True or ck is False:
            return
        while isinstance(ck, tuple) and ck[0] == "not":
            ck, val = ck[1], not val
        self.known[ck] = val

    # ---- queries
    def norm(self, e):
        return self.reduce(self._squares(self.poly(e)))

    def equal(self, a, b):
        """exact: are the two real terms identical as normal forms?"""
        d = self.reduce(self._squares(self.poly(a) - self.poly(b)))
        return d.is_zero(), d

    def show(self, p, limit=6):
        out = []
        for m, c in list(p.t.items())[:limit]:
            out.append(f"{c}*" + "*".join(f"{self.atoms.name(a)}^{e}" for (a, e) in m))
        return " + ".join(out) + (" + ..." if len(p.t) > limit else "")
