"""usage: python3-vt -m pyvc.check <property id> [--tier quick|thorough]

exit 0: every obligation generated from $PYVC_REPO's current source discharged
exit 1: VIOLATION line(s) printed       exit 3: engine error (no verdict)"""
import argparse
import importlib
import os
import sys
import traceback


def main(argv=None):
    ap = argparse.ArgumentParser()
    ap.add_argument("prop")
    ap.add_argument("--tier", default=os.environ.get("VERIF_TIER") or "quick", choices=["quick", "thorough"])
    a = ap.parse_args(argv)
    seed = int(os.environ.get("VERIF_SEED", "0") or 0)
    os.environ["VERIF_TIER"] = a.tier
    from . import REPO
    sys.path.insert(0, REPO)
    try:
        mod = importlib.import_module(f"pyvc.props.{a.prop.lower()}")
        return mod.main(a.tier, seed)
    except Exception as e:  # noqa: BLE001
        traceback.print_exc()
        print(f"ENGINE-ERROR {a.prop}: {type(e).__name__}: {e}")
        return 3


if __name__ == "__main__":
    sys.exit(main())
