"""The published Weng-Lin updates (Weng & Lin, JMLR 12 (2011), Algorithms 1-4),
transcribed as definitions over team aggregates and index sets, with the
documented extensions named in property C01:

* prior variance inflated by tau (done by the caller: sigma_ij := sqrt(sigma_ij^2 + tau^2)),
* team skill theta_i = sum of member mu, team variance s_i = sum of member sigma^2,
* member share sigma_ij^2 / s_i,
* variance factor floored at kappa, variance step scaled by the gamma callback
  (default sqrt(s_i)/c),
* Thurstone-Mosteller: V, W, V~, W~ are the exported v, w, vt, wt with draw
  margin kappa / c_iq.

Written from the paper and the property, not from _compute: sums range over
index sets; p_iq is e^(theta_i/c)/(e^(theta_i/c)+e^(theta_q/c)).  Polymorphic:
runs on floats (replays) and on pyvc SymNum proxies (obligations); `X` supplies
sqrt, exp, max, v, w, vt, wt, gamma.
"""


def _sum(xs):
    xs = list(xs)
    if not xs:
        return 0
    s = xs[0]
    for x in xs[1:]:
        s = s + x
    return s


def aggregates(teams):
    theta = [_sum(mu for (mu, sg) in t) for t in teams]
    s = [_sum(sg * sg for (mu, sg) in t) for t in teams]
    return theta, s


def dense_rank(ranks, i):
    """number of teams placed strictly better: the rank the code hands to gamma"""
    return sum(1 for q in range(len(ranks)) if ranks[q] < ranks[i])


def _finish(teams, s, omega, delta, kappa, X):
    out = []
    for i, t in enumerate(teams):
        row = []
        for (mu, sg) in t:
            share = sg * sg / s[i]
            mu2 = mu + share * omega[i]
            sg2 = sg * X.sqrt(X.max(1 - share * delta[i], kappa))
            row.append((mu2, sg2))
        out.append(row)
    return out


def _default_gamma(X):
    return lambda c, n, theta_i, s_i, i, rank_i: X.sqrt(s_i) / c


def _pairwise_partners(model, ranks, n):
    """index sets q ranges over, per team i"""
    if model in ("BradleyTerryFull", "ThurstoneMostellerFull"):
        return [[q for q in range(n) if q != i] for i in range(n)]
    # partial pairing: neighbours in the rank-ordered ladder; tied teams keep
    # their presentation order (stable order by (rank value, position))
    pos = []
    for i in range(n):
        pos.append(sum(1 for q in range(n) if (ranks[q] < ranks[i]) or (ranks[q] == ranks[i] and q < i)))
    by_pos = {pos[i]: i for i in range(n)}
    out = []
    for i in range(n):
        nb = []
        if pos[i] - 1 in by_pos:
            nb.append(by_pos[pos[i] - 1])
        if pos[i] + 1 in by_pos:
            nb.append(by_pos[pos[i] + 1])
        out.append(nb)
    return out


def posterior(model, teams, ranks, beta, kappa, X, gamma=None, pair_scale=1, details=None, agg=None):
    """teams: [[(mu, sigma), ...], ...] with sigma already tau-inflated;
    ranks: list of rank values (smaller is better) - None means 0..n-1.
    Returns [[(mu', sigma'), ...], ...] in the order given.
    agg = (theta, s): the team aggregates given directly (teams of any size: `teams` then lists
    only the members whose posterior is wanted; theta_i, s_i are the sums over *all* members)."""
    n = len(teams)
    if ranks is None:
        ranks = list(range(n))
    gamma = gamma or _default_gamma(X)
    theta, s = agg if agg is not None else aggregates(teams)
    omega, delta = [], []
    if model == "PlackettLuce":
        c = X.sqrt(_sum(s[i] + beta * beta for i in range(n)))
        e = [X.exp(theta[i] / c) for i in range(n)]
        A = [sum(1 for q in range(n) if ranks[q] == ranks[i]) for i in range(n)]
        C = [[x for x in range(n) if ranks[x] >= ranks[q]] for q in range(n)]
        for i in range(n):
            om, de = 0, 0
            for q in range(n):
                if ranks[q] <= ranks[i]:
                    p = e[i] / _sum(e[x] for x in C[q])
                    if q == i:
                        om = om + (s[i] / (c * A[q])) * (1 - p)
                    else:
                        om = om - (s[i] / (c * A[q])) * p
                    de = de + (s[i] / (c * c * A[q])) * p * (1 - p)
            g = gamma(c, n, theta[i], s[i], i, dense_rank(ranks, i))
            omega.append(om)
            delta.append(g * de)
        if details is not None:
            details.update(theta=theta, s=s, omega=omega, delta=delta, c=c, e=e, A=A, C=C)
        return _finish(teams, s, omega, delta, kappa, X)
    partners = _pairwise_partners(model, ranks, n)
    bt = model.startswith("BradleyTerry")
    pairs = {}
    for i in range(n):
        om, de = 0, 0
        for q in partners[i]:
            c_iq = pair_scale * X.sqrt(s[i] + s[q] + 2 * beta * beta)
            g = gamma(c_iq, n, theta[i], s[i], i, dense_rank(ranks, i))
            if bt:
                ei, eq = X.exp(theta[i] / c_iq), X.exp(theta[q] / c_iq)
                p_iq = ei / (ei + eq)
                p_qi = eq / (ei + eq)
                if ranks[q] > ranks[i]:
                    sc = 1
                elif ranks[q] == ranks[i]:
                    sc = X.half
                else:
                    sc = 0
                om = om + (s[i] / c_iq) * (sc - p_iq)
                de = de + g * (s[i] / (c_iq * c_iq)) * p_iq * p_qi
                pairs[(i, q)] = dict(c=c_iq, p=p_iq, score=sc)
            else:
                t = kappa / c_iq
                if ranks[q] > ranks[i]:
                    x = (theta[i] - theta[q]) / c_iq
                    vv = X.v(x, t)
                    om = om + (s[i] / c_iq) * vv
                    de = de + g * (s[i] / (c_iq * c_iq)) * X.w(x, t)
                    pairs[(i, q)] = dict(c=c_iq, t=t, x=x, kind="win", v=vv)
                elif ranks[q] < ranks[i]:
                    x = (theta[q] - theta[i]) / c_iq
                    vv = X.v(x, t)
                    om = om - (s[i] / c_iq) * vv
                    de = de + g * (s[i] / (c_iq * c_iq)) * X.w(x, t)
                    pairs[(i, q)] = dict(c=c_iq, t=t, x=x, kind="loss", v=vv)
                else:
                    x = (theta[i] - theta[q]) / c_iq
                    vv = X.vt(x, t)
                    om = om + (s[i] / c_iq) * vv
                    de = de + g * (s[i] / (c_iq * c_iq)) * X.wt(x, t)
                    pairs[(i, q)] = dict(c=c_iq, t=t, x=x, kind="tie", v=vv)
        omega.append(om)
        delta.append(de)
    if details is not None:
        details.update(theta=theta, s=s, omega=omega, delta=delta, pairs=pairs, partners=partners)
    return _finish(teams, s, omega, delta, kappa, X)


def rate_spec(model, teams, ranks, scores, beta, kappa, tau, limit_sigma, X, gamma=None, pair_scale=1, agg=None, sizes=None):
    """rate() as the property describes it: tau inflation, outcome from ranks
    (or negated scores, or the presentation order), the model's update, the
    limit_sigma clamp against the prior sigma.
    agg = (theta, s), sizes = [L_i]: teams of any size given by their aggregates *before* the
    inflation (the inflated team variance is s_i + L_i tau^2); `teams` then lists the members wanted."""
    infl = [[(mu, X.sqrt(sg * sg + tau * tau)) for (mu, sg) in t] for t in teams]
    if ranks is None and scores is not None:
        ranks = [-x for x in scores]
    agg2 = None
    if agg is not None:
        theta, s = agg
        agg2 = (list(theta), [s[i] + sizes[i] * (tau * tau) for i in range(len(s))])
    post = posterior(model, infl, ranks, beta, kappa, X, gamma, pair_scale, agg=agg2)
    if limit_sigma:
        post = [[(mu2, X.min(sg2, sg0)) for (mu2, sg2), (mu0, sg0) in zip(tp, t0)] for tp, t0 in zip(post, teams)]
    return post


class FloatX:
    """concrete instantiation (replays): Python floats and the exported v/w/vt/wt"""
    half = 0.5

    def __init__(self, wl):
        import math
        self.sqrt, self.exp = math.sqrt, math.exp
        self.v, self.w, self.vt, self.wt = wl.v, wl.w, wl.vt, wl.wt
        self.max, self.min = max, min
