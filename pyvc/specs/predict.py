"""The documented pairwise-Gaussian closed forms of the predictions (property
C12), over team aggregates and index sets.  Polymorphic in X (sqrt, Phi, PhiInv)."""


def _sum(xs):
    xs = list(xs)
    s = xs[0]
    for x in xs[1:]:
        s = s + x
    return s


def aggregates(teams):
    theta = [_sum(mu for (mu, sg) in t) for t in teams]
    var = [_sum(sg * sg for (mu, sg) in t) for t in teams]
    return theta, var


def _agg(teams, agg):
    return agg if agg is not None else aggregates(teams)


def margin(teams, beta, X, sizes=None):
    """sizes: the team sizes when `teams` does not list every member (teams of any size)"""
    N = sum(len(t) for t in teams) if sizes is None else _sum(sizes)
    # the constants are the doubles the documented formula evaluates to
    return X.sqrt(N) * beta * X.PhiInv((1 + 1 / N) / 2)


def win(teams, beta, X, agg=None, sizes=None):
    n = len(teams)
    theta, var = _agg(teams, agg)
    if n == 2:
        N = (len(teams[0]) + len(teams[1])) if sizes is None else sizes[0] + sizes[1]
        p = X.Phi((theta[0] - theta[1]) / X.sqrt(N * beta * beta + var[0] + var[1]))
        return [p, 1 - p]
    out = []
    for a in range(n):
        s = _sum(X.Phi((theta[a] - theta[b]) / X.sqrt(n * beta * beta + var[a] + var[b])) for b in range(n) if b != a)
        out.append(s / (n * (n - 1) / X.two))
    return out


def rank_probabilities(teams, beta, X, agg=None, sizes=None):
    n = len(teams)
    theta, var = _agg(teams, agg)
    m = margin(teams, beta, X, sizes)
    out = []
    for a in range(n):
        s = _sum(X.Phi((theta[a] - theta[b] - m) / X.sqrt(n * beta * beta + var[a] + var[b])) for b in range(n) if b != a)
        out.append(s / (n * (n - 1) / X.two))
    return out


def draw(teams, beta, X, details=None, agg=None, sizes=None):
    """average over ordered pairs (plain sum for two teams) of P(|difference| < margin)"""
    n = len(teams)
    theta, var = _agg(teams, agg)
    m = margin(teams, beta, X, sizes)
    if details is not None:
        details.update(m=m, s={}, d={})
    tot = None
    for a in range(n):
        for b in range(n):
            if a == b:
                continue
            s = X.sqrt(n * beta * beta + var[a] + var[b])
            d = theta[a] - theta[b]
            if details is not None:
                details["s"][(a, b)] = s
                details["d"][(a, b)] = d
            band = X.Phi((m - d) / s) - X.Phi((-m - d) / s)
            tot = band if tot is None else tot + band
    return tot / (1 if n == 2 else n * (n - 1))


class FloatX:
    two = 2

    def __init__(self):
        import math
        from statistics import NormalDist
        self.sqrt = math.sqrt
        self.Phi = lambda x: 0.5 * math.erfc(-x / math.sqrt(2.0))
        self.PhiInv = NormalDist().inv_cdf
