/-
  Fourth batch (self-contained: repeats lemmas/Phi3.lean and continues), machine-checked against Mathlib:
    mills_cf_lower, mills_cf_lower_neg   z + (z^3 + 7z)/(z^4 + 9z^2 + 8) <= V(-z) for z > 0 (continued-fraction bound; the
                                         Mills-ratio instance behind C17's "within 2 percent on the asymptotic branch")
    one_sub_W_neg_pos, one_sub_W_neg_le_two, one_sub_W_neg_le     0 < 1 - W(-z) <= 2/z^2 <= 3/z^2
  Re-checked by the thorough tier of C17:  cd /opt/veriftools/mathlib4 && lake env lean /verif/lemmas/Phi4.lean
-/
import Mathlib.Probability.Distributions.Gaussian.Real
import Mathlib.Probability.CDF
import Mathlib.MeasureTheory.Integral.IntegralEqImproper
import Mathlib.Analysis.Calculus.Deriv.MeanValue
import Mathlib.MeasureTheory.Integral.IntervalIntegral.FundThmCalculus
import Mathlib.Tactic

open MeasureTheory ProbabilityTheory Set Filter
open scoped NNReal ENNReal Topology

namespace PyvcPhi

noncomputable def Phi (x : ℝ) : ℝ := ProbabilityTheory.cdf (ProbabilityTheory.gaussianReal 0 1) x
noncomputable def phi (x : ℝ) : ℝ := ProbabilityTheory.gaussianPDFReal 0 1 x

/-! ### Group 1 -/

theorem Phi_nonneg (x : ℝ) : 0 ≤ Phi x := cdf_nonneg _ x

theorem Phi_le_one (x : ℝ) : Phi x ≤ 1 := cdf_le_one _ x

theorem Phi_mono : Monotone Phi := monotone_cdf _

/-! ### Group 2 -/

theorem phi_pos (x : ℝ) : 0 < phi x := gaussianPDFReal_pos 0 1 x one_ne_zero

theorem phi_even (x : ℝ) : phi (-x) = phi x := by
  simp [phi, gaussianPDFReal]

theorem phi_antitone_on_nonneg {a b : ℝ} (ha : 0 ≤ a) (hab : a ≤ b) : phi b ≤ phi a := by
  unfold phi gaussianPDFReal
  gcongr

/-! ### Group 3/4 -/

/-- the standard Gaussian measure -/
local notation "γ" => gaussianReal 0 1

instance : NullSingletonClass γ := nullSingletonClass_gaussianReal one_ne_zero

theorem Phi_eq_real (x : ℝ) : Phi x = (γ).real (Iic x) := cdf_eq_real _ x

theorem gamma_Iic_neg (x : ℝ) : (γ).real (Iic (-x)) = (γ).real (Ici x) := by
  have hmap : (γ).map (fun y : ℝ ↦ -y) = γ := by
    rw [gaussianReal_map_neg]; simp
  have h1 : (γ).real (Iic (-x)) = ((γ).map (fun y : ℝ ↦ -y)).real (Iic (-x)) := by rw [hmap]
  rw [h1, map_measureReal_apply measurable_neg measurableSet_Iic]
  congr 1
  ext y
  simp

theorem one_sub_Phi_eq (x : ℝ) : 1 - Phi x = (γ).real (Ioi x) := by
  rw [Phi_eq_real, ← compl_Iic, probReal_compl_eq_one_sub measurableSet_Iic]

theorem Phi_neg (x : ℝ) : Phi (-x) = 1 - Phi x := by
  rw [one_sub_Phi_eq, Phi_eq_real, gamma_Iic_neg]
  exact (measureReal_congr Ioi_ae_eq_Ici).symm

theorem Phi_reflect (x : ℝ) : Phi x + Phi (-x) = 1 := by
  rw [Phi_neg]; ring

theorem Phi_zero : Phi 0 = 1 / 2 := by
  have h := Phi_reflect 0
  rw [neg_zero] at h
  linarith

/-! ### Group 5 -/

theorem gamma_pos_of_volume_ne_zero {s : Set ℝ} (hs : volume s ≠ 0) : 0 < (γ).real s := by
  have h0 : (γ) s ≠ 0 := fun h ↦ hs (gaussianReal_absolutelyContinuous' 0 one_ne_zero h)
  have h1 : (γ).real s ≠ 0 := (measureReal_ne_zero_iff (measure_ne_top _ _)).2 h0
  exact lt_of_le_of_ne measureReal_nonneg h1.symm

theorem Phi_pos (x : ℝ) : 0 < Phi x := by
  rw [Phi_eq_real]
  apply gamma_pos_of_volume_ne_zero
  rw [Real.volume_Iic]
  exact ENNReal.top_ne_zero

theorem Phi_lt_one (x : ℝ) : Phi x < 1 := by
  have h := Phi_pos (-x)
  rw [Phi_neg] at h
  linarith

/-! ### Group 6 -/

theorem Phi_sub_eq (a b : ℝ) : ENNReal.ofReal (Phi b - Phi a) = (γ) (Ioc a b) := by
  have h := (cdf γ).measure_Ioc a b
  rw [measure_cdf] at h
  exact h.symm

theorem Phi_strictMono : StrictMono Phi := by
  intro a b hab
  have h1 : (γ) (Ioc a b) ≠ 0 := by
    intro h
    have := gaussianReal_absolutelyContinuous' 0 one_ne_zero h
    rw [Real.volume_Ioc, ENNReal.ofReal_eq_zero] at this
    linarith
  rw [← Phi_sub_eq, Ne, ENNReal.ofReal_eq_zero, not_le] at h1
  linarith

/-! ### Group 8b: derivative -/

theorem phi_continuous : Continuous phi := by
  unfold phi gaussianPDFReal
  fun_prop

theorem Phi_eq_integral (x : ℝ) : Phi x = ∫ t in Iic x, phi t := by
  rw [Phi_eq_real, measureReal_def, gaussianReal_apply_eq_integral 0 one_ne_zero,
    ENNReal.toReal_ofReal]
  · rfl
  · exact setIntegral_nonneg measurableSet_Iic (fun t _ ↦ gaussianPDFReal_nonneg 0 1 t)

theorem Phi_eq_add_intervalIntegral (x : ℝ) : Phi x = Phi 0 + ∫ t in (0 : ℝ)..x, phi t := by
  have hint : ∀ a : ℝ, IntegrableOn phi (Iic a) volume :=
    fun a ↦ (integrable_gaussianPDFReal 0 1).integrableOn
  rw [← intervalIntegral.integral_Iic_sub_Iic (hint 0) (hint x), ← Phi_eq_integral,
    ← Phi_eq_integral]
  ring

theorem Phi_hasDerivAt (x : ℝ) : HasDerivAt Phi (phi x) x := by
  have h : HasDerivAt (fun u ↦ Phi 0 + ∫ t in (0 : ℝ)..u, phi t) (phi x) x :=
    ((phi_continuous.integral_hasStrictDerivAt 0 x).hasDerivAt).const_add (Phi 0)
  have heq : Phi = fun u ↦ Phi 0 + ∫ t in (0 : ℝ)..u, phi t := funext Phi_eq_add_intervalIntegral
  rw [heq]
  exact h

theorem Phi_continuous : Continuous Phi :=
  continuous_iff_continuousAt.2 fun x ↦ (Phi_hasDerivAt x).continuousAt

/-! ### Group 7: inverse on (0,1) -/

theorem Phi_tendsto_atBot : Tendsto Phi atBot (𝓝 0) := tendsto_cdf_atBot _

theorem Phi_tendsto_atTop : Tendsto Phi atTop (𝓝 1) := tendsto_cdf_atTop _

theorem Phi_exists_unique_inverse (p : ℝ) (hp0 : 0 < p) (hp1 : p < 1) : ∃! x, Phi x = p := by
  obtain ⟨a, ha⟩ : ∃ a, Phi a < p :=
    ((Phi_tendsto_atBot.eventually (gt_mem_nhds hp0))).exists
  obtain ⟨b, hb⟩ : ∃ b, p < Phi b :=
    ((Phi_tendsto_atTop.eventually (lt_mem_nhds hp1))).exists
  have hmem : p ∈ Icc (Phi a) (Phi b) := ⟨ha.le, hb.le⟩
  obtain ⟨x, hx⟩ := intermediate_value_univ a b Phi_continuous hmem
  exact ⟨x, hx, fun y hy ↦ Phi_strictMono.injective (hy.trans hx.symm)⟩

/-! ### Group 8a: Gordon's Mills-ratio bound -/

theorem phi_eq (t : ℝ) : phi t = (√(2 * Real.pi))⁻¹ * Real.exp (-(t ^ 2 / 2)) := by
  simp [phi, gaussianPDFReal, neg_div]

theorem phi_hasDerivAt (t : ℝ) : HasDerivAt phi (-t * phi t) t := by
  have h1 : HasDerivAt (fun t : ℝ ↦ -(t ^ 2 / 2)) (-t) t := by
    have := ((hasDerivAt_pow 2 t).div_const 2).neg
    exact this.congr_deriv (by simp)
  have h2 := (h1.exp).const_mul ((√(2 * Real.pi))⁻¹)
  have heq : phi = fun t ↦ (√(2 * Real.pi))⁻¹ * Real.exp (-(t ^ 2 / 2)) := funext phi_eq
  rw [heq]
  exact h2.congr_deriv (by ring)

theorem phi_tendsto_atTop : Tendsto phi atTop (𝓝 0) := by
  have h1 : Tendsto (fun t : ℝ ↦ t ^ 2 / 2) atTop atTop :=
    (tendsto_pow_atTop (by norm_num)).atTop_div_const (by norm_num)
  have h2 : Tendsto (fun t : ℝ ↦ -(t ^ 2 / 2)) atTop atBot := tendsto_neg_atTop_atBot.comp h1
  have h3 : Tendsto (fun t : ℝ ↦ Real.exp (-(t ^ 2 / 2))) atTop (𝓝 0) :=
    Real.tendsto_exp_atBot.comp h2
  have h4 := h3.const_mul ((√(2 * Real.pi))⁻¹)
  rw [mul_zero] at h4
  have heq : phi = fun t ↦ (√(2 * Real.pi))⁻¹ * Real.exp (-(t ^ 2 / 2)) := funext phi_eq
  rw [heq]
  exact h4

theorem gamma_real_eq_integral (s : Set ℝ) : (γ).real s = ∫ t in s, phi t := by
  rw [measureReal_def, gaussianReal_apply_eq_integral 0 one_ne_zero, ENNReal.toReal_ofReal]
  · rfl
  · exact integral_nonneg (fun t ↦ gaussianPDFReal_nonneg 0 1 t)

theorem one_sub_Phi_eq_integral (y : ℝ) : 1 - Phi y = ∫ t in Ioi y, phi t := by
  rw [one_sub_Phi_eq, gamma_real_eq_integral]

theorem integral_Ioi_mul_phi {y : ℝ} (hy : 0 ≤ y) : ∫ t in Ioi y, t * phi t = phi y := by
  have h := integral_Ioi_of_hasDerivAt_of_nonneg' (g := fun t ↦ -phi t)
    (g' := fun t ↦ t * phi t) (a := y) (l := 0)
    (fun x _ ↦ ((phi_hasDerivAt x).neg).congr_deriv (by ring))
    (fun x hx ↦ mul_nonneg (hy.trans (le_of_lt hx)) (phi_pos x).le)
    (by simpa using phi_tendsto_atTop.neg)
  simpa using h

theorem integrableOn_Ioi_mul_phi {y : ℝ} (hy : 0 ≤ y) :
    IntegrableOn (fun t ↦ t * phi t) (Ioi y) volume :=
  integrableOn_Ioi_deriv_of_nonneg' (g := fun t ↦ -phi t)
    (g' := fun t ↦ t * phi t) (a := y) (l := 0)
    (fun x _ ↦ ((phi_hasDerivAt x).neg).congr_deriv (by ring))
    (fun x hx ↦ mul_nonneg (hy.trans (le_of_lt hx)) (phi_pos x).le)
    (by simpa using phi_tendsto_atTop.neg)

/-- weak form of Gordon's inequality -/
theorem mills_le {y : ℝ} (hy : 0 ≤ y) : y * (1 - Phi y) ≤ phi y := by
  rw [one_sub_Phi_eq_integral, ← integral_Ioi_mul_phi hy, ← integral_const_mul]
  apply setIntegral_mono_on
  · exact ((integrable_gaussianPDFReal 0 1).integrableOn).const_mul y
  · exact integrableOn_Ioi_mul_phi hy
  · exact measurableSet_Ioi
  · intro t ht
    exact mul_le_mul_of_nonneg_right (le_of_lt ht) (phi_pos t).le

theorem mills_gap_hasDerivAt (y : ℝ) :
    HasDerivAt (fun y ↦ phi y - y * (1 - Phi y)) (-(1 - Phi y)) y := by
  have h1 : HasDerivAt (fun y ↦ 1 - Phi y) (-phi y) y := (Phi_hasDerivAt y).const_sub 1
  have h2 := (hasDerivAt_id y).mul h1
  have h3 := (phi_hasDerivAt y).sub h2
  exact h3.congr_deriv (by simp only [id]; ring)

theorem mills_gap_strictAnti : StrictAnti (fun y ↦ phi y - y * (1 - Phi y)) :=
  strictAnti_of_hasDerivAt_neg (f' := fun y ↦ -(1 - Phi y)) mills_gap_hasDerivAt
    (fun y ↦ by have := Phi_lt_one y; linarith)

/-- Gordon's inequality (Mills-ratio lower bound), strict form. -/
theorem mills_lt {y : ℝ} (hy : 0 < y) : y * (1 - Phi y) < phi y := by
  have h1 : phi (y + 1) - (y + 1) * (1 - Phi (y + 1)) < phi y - y * (1 - Phi y) :=
    mills_gap_strictAnti (by linarith : y < y + 1)
  have h2 := mills_le (y := y + 1) (by linarith)
  linarith

/-! ## Second batch -/

noncomputable def V (x : ℝ) : ℝ := phi x / Phi x
noncomputable def W (x : ℝ) : ℝ := V x * (V x + x)
noncomputable def band (m s d : ℝ) : ℝ := Phi ((m - d) / s) - Phi ((-m - d) / s)
noncomputable def Vt (x t : ℝ) : ℝ :=
  (phi (-t - x) - phi (t - x)) / (Phi (t - x) - Phi (-t - x))

/-! ### Group A -/

theorem V_pos (x : ℝ) : 0 < V x := div_pos (phi_pos x) (Phi_pos x)

theorem V_add_pos (x : ℝ) : 0 < V x + x := by
  rcases le_or_gt 0 x with hx | hx
  · have := V_pos x; linarith
  · have h := mills_lt (y := -x) (by linarith)
    rw [← Phi_neg, neg_neg, phi_even] at h
    have h2 : -x < V x := by
      unfold V
      rw [lt_div_iff₀ (Phi_pos x)]
      exact h
    linarith

theorem W_pos (x : ℝ) : 0 < W x := mul_pos (V_pos x) (V_add_pos x)

theorem lt_V_neg (y : ℝ) : y < V (-y) := by
  have := V_add_pos (-y); linarith

theorem lt_V_neg_of_pos {y : ℝ} (_ : 0 < y) : y < V (-y) := lt_V_neg y

/-! ### Group B: Gordon's upper bound -/

theorem mul_phi_le {y : ℝ} (hy : 0 < y) : y * phi y ≤ (√(2 * Real.pi))⁻¹ * (2 / y) := by
  have hc : 0 ≤ (√(2 * Real.pi))⁻¹ := by positivity
  have hu : 0 < y ^ 2 / 2 := by positivity
  have h1 : y ^ 2 / 2 ≤ Real.exp (y ^ 2 / 2) := by
    have := Real.add_one_le_exp (y ^ 2 / 2); linarith
  have h2 : Real.exp (-(y ^ 2 / 2)) ≤ (y ^ 2 / 2)⁻¹ := by
    rw [Real.exp_neg]
    exact inv_anti₀ hu h1
  rw [phi_eq]
  calc y * ((√(2 * Real.pi))⁻¹ * Real.exp (-(y ^ 2 / 2)))
      = (√(2 * Real.pi))⁻¹ * (y * Real.exp (-(y ^ 2 / 2))) := by ring
    _ ≤ (√(2 * Real.pi))⁻¹ * (y * (y ^ 2 / 2)⁻¹) := by gcongr
    _ = (√(2 * Real.pi))⁻¹ * (2 / y) := by
        congr 1
        field_simp

theorem mul_phi_tendsto_atTop : Tendsto (fun y ↦ y * phi y) atTop (𝓝 0) := by
  have hg : Tendsto (fun y : ℝ ↦ (√(2 * Real.pi))⁻¹ * (2 / y)) atTop (𝓝 0) := by
    have := (tendsto_const_nhds (x := (2 : ℝ))).div_atTop tendsto_id
    have h2 := this.const_mul ((√(2 * Real.pi))⁻¹)
    simpa using h2
  refine squeeze_zero' ?_ ?_ hg
  · filter_upwards [eventually_gt_atTop (0 : ℝ)] with y hy
    exact mul_nonneg hy.le (phi_pos y).le
  · filter_upwards [eventually_gt_atTop (0 : ℝ)] with y hy
    exact mul_phi_le hy

theorem gordon_gap_hasDerivAt (y : ℝ) :
    HasDerivAt (fun y ↦ (1 + y ^ 2) * (1 - Phi y) - y * phi y)
      (2 * y * (1 - Phi y) - 2 * phi y) y := by
  have h1 : HasDerivAt (fun y ↦ 1 - Phi y) (-phi y) y := (Phi_hasDerivAt y).const_sub 1
  have h0 : HasDerivAt (fun y : ℝ ↦ 1 + y ^ 2) (2 * y) y := by
    have := (hasDerivAt_pow 2 y).const_add 1
    exact this.congr_deriv (by simp)
  have h2 := h0.mul h1
  have h3 := (hasDerivAt_id y).mul (phi_hasDerivAt y)
  have h4 := h2.sub h3
  exact h4.congr_deriv (by simp only [id]; ring)

theorem gordon_gap_strictAnti : StrictAnti (fun y ↦ (1 + y ^ 2) * (1 - Phi y) - y * phi y) := by
  refine strictAnti_of_hasDerivAt_neg
    (f' := fun y ↦ 2 * y * (1 - Phi y) - 2 * phi y) gordon_gap_hasDerivAt ?_
  intro y
  rcases le_or_gt y 0 with hy | hy
  · have h1 : 0 < 1 - Phi y := by have := Phi_lt_one y; linarith
    have h2 := phi_pos y
    have : y * (1 - Phi y) ≤ 0 := mul_nonpos_of_nonpos_of_nonneg hy h1.le
    nlinarith
  · have := mills_lt hy
    nlinarith

/-- Gordon's upper bound (in fact strict, and for all real `y`). -/
theorem gordon_upper_lt (y : ℝ) : y * phi y < (1 + y ^ 2) * (1 - Phi y) := by
  by_contra hcon
  rw [not_lt] at hcon
  set g : ℝ → ℝ := fun y ↦ (1 + y ^ 2) * (1 - Phi y) - y * phi y with hg
  have hgy : g y ≤ 0 := by simp only [hg]; linarith
  have hgy1 : g (y + 1) < 0 := lt_of_lt_of_le (gordon_gap_strictAnti (by linarith)) hgy
  -- eventually `z * phi z < -g (y+1)`, while `g z < g (y+1)` for `z > y+1`
  have hev : ∀ᶠ z in atTop, z * phi z < -g (y + 1) :=
    mul_phi_tendsto_atTop.eventually (gt_mem_nhds (by linarith))
  obtain ⟨z, hz1, hz2⟩ := (hev.and (eventually_gt_atTop (y + 1))).exists
  have hz3 : g z < g (y + 1) := gordon_gap_strictAnti hz2
  have hz4 : 0 ≤ (1 + z ^ 2) * (1 - Phi z) :=
    mul_nonneg (by positivity) (by have := Phi_le_one z; linarith)
  simp only [hg] at hz3 hz1
  linarith

theorem gordon_upper {y : ℝ} (_ : 0 < y) : y * phi y ≤ (1 + y ^ 2) * (1 - Phi y) :=
  (gordon_upper_lt y).le

theorem V_neg_le {y : ℝ} (hy : 0 < y) : V (-y) ≤ y + 1 / y := by
  have h := gordon_upper hy
  have hP : 0 < 1 - Phi y := by have := Phi_lt_one y; linarith
  unfold V
  rw [phi_even, Phi_neg, div_le_iff₀ hP]
  have : (y + 1 / y) * (1 - Phi y) = ((1 + y ^ 2) * (1 - Phi y)) / y := by
    field_simp; ring
  rw [this, le_div_iff₀ hy]
  linarith

/-! ### Group C: band lemmas -/

theorem phi_abs (x : ℝ) : phi |x| = phi x := by
  rcases abs_choice x with h | h
  · rw [h]
  · rw [h, phi_even]

theorem phi_le_of_abs_le {a b : ℝ} (h : |a| ≤ |b|) : phi b ≤ phi a := by
  rw [← phi_abs a, ← phi_abs b]
  exact phi_antitone_on_nonneg (abs_nonneg a) h

theorem band_even (m s d : ℝ) : band m s (-d) = band m s d := by
  unfold band
  have h1 : (m - -d) / s = -((-m - d) / s) := by ring
  have h2 : (-m - -d) / s = -((m - d) / s) := by ring
  rw [h1, h2, Phi_neg, Phi_neg]
  ring

theorem band_nonneg {m s : ℝ} (hm : 0 ≤ m) (hs : 0 < s) (d : ℝ) : 0 ≤ band m s d := by
  unfold band
  have h : (-m - d) / s ≤ (m - d) / s := by gcongr; linarith
  have := Phi_mono h
  linarith

theorem band_le_one (m s d : ℝ) : band m s d ≤ 1 := by
  unfold band
  have h1 := Phi_le_one ((m - d) / s)
  have h2 := Phi_nonneg ((-m - d) / s)
  linarith

theorem band_lt_one (m s d : ℝ) : band m s d < 1 := by
  unfold band
  have h1 := Phi_lt_one ((m - d) / s)
  have h2 := Phi_nonneg ((-m - d) / s)
  linarith

theorem band_hasDerivAt (m s d : ℝ) :
    HasDerivAt (fun d ↦ band m s d)
      (phi ((m - d) / s) * (-1 / s) - phi ((-m - d) / s) * (-1 / s)) d := by
  have h1 : HasDerivAt (fun d : ℝ ↦ (m - d) / s) (-1 / s) d :=
    ((hasDerivAt_id d).const_sub m).div_const s
  have h2 : HasDerivAt (fun d : ℝ ↦ (-m - d) / s) (-1 / s) d :=
    ((hasDerivAt_id d).const_sub (-m)).div_const s
  have h3 := (Phi_hasDerivAt ((m - d) / s)).comp d h1
  have h4 := (Phi_hasDerivAt ((-m - d) / s)).comp d h2
  exact h3.sub h4

theorem band_antitoneOn {m s : ℝ} (hm : 0 ≤ m) (hs : 0 < s) :
    AntitoneOn (fun d ↦ band m s d) (Ici 0) := by
  have hd : ∀ d, HasDerivAt (fun d ↦ band m s d)
      (phi ((m - d) / s) * (-1 / s) - phi ((-m - d) / s) * (-1 / s)) d :=
    fun d ↦ band_hasDerivAt m s d
  have hdiff : Differentiable ℝ (fun d ↦ band m s d) := fun d ↦ (hd d).differentiableAt
  refine antitoneOn_of_deriv_nonpos (convex_Ici 0) hdiff.continuous.continuousOn
    hdiff.differentiableOn ?_
  intro d hd0
  rw [interior_Ici] at hd0
  have hd0' : 0 < d := hd0
  rw [(hd d).deriv]
  have habs : |(m - d) / s| ≤ |(-m - d) / s| := by
    rw [abs_div, abs_div]
    have hnum : |m - d| ≤ |-m - d| := by
      have : |-m - d| = m + d := by rw [abs_of_nonpos (by linarith)]; ring
      rw [this, abs_le]
      constructor <;> linarith
    exact div_le_div_of_nonneg_right hnum (abs_nonneg s)
  have hphi := phi_le_of_abs_le habs
  have hs' : 0 < 1 / s := by positivity
  have : phi ((m - d) / s) * (-1 / s) - phi ((-m - d) / s) * (-1 / s)
      = -((phi ((m - d) / s) - phi ((-m - d) / s)) * (1 / s)) := by ring
  rw [this]
  have : 0 ≤ (phi ((m - d) / s) - phi ((-m - d) / s)) * (1 / s) :=
    mul_nonneg (by linarith) hs'.le
  linarith

theorem band_antitone_on_nonneg {m s d1 d2 : ℝ} (hm : 0 ≤ m) (hs : 0 < s)
    (h1 : 0 ≤ d1) (h12 : d1 ≤ d2) : band m s d2 ≤ band m s d1 :=
  band_antitoneOn hm hs (mem_Ici.2 h1) (mem_Ici.2 (h1.trans h12)) h12

theorem band_le_band_zero {m s : ℝ} (hm : 0 ≤ m) (hs : 0 < s) (d : ℝ) :
    band m s d ≤ band m s 0 := by
  rcases le_or_gt 0 d with hd | hd
  · exact band_antitone_on_nonneg hm hs le_rfl hd
  · rw [← band_even]
    exact band_antitone_on_nonneg hm hs le_rfl (by linarith)

/-! ### Group D: conditional-mean bounds for `Vt` -/

theorem phi_sub_eq_integral (a b : ℝ) : phi a - phi b = ∫ z in a..b, z * phi z := by
  have h := intervalIntegral.integral_eq_sub_of_hasDerivAt (f := fun z ↦ -phi z)
    (f' := fun z ↦ z * phi z) (a := a) (b := b)
    (fun z _ ↦ ((phi_hasDerivAt z).neg).congr_deriv (by ring))
    ((continuous_id.mul phi_continuous).intervalIntegrable a b)
  rw [h]; ring

theorem Phi_sub_eq_integral (a b : ℝ) : Phi b - Phi a = ∫ z in a..b, phi z := by
  have h := intervalIntegral.integral_eq_sub_of_hasDerivAt (f := Phi)
    (f' := phi) (a := a) (b := b)
    (fun z _ ↦ Phi_hasDerivAt z)
    (phi_continuous.intervalIntegrable a b)
  rw [h]

theorem mul_Phi_sub_le {a b : ℝ} (hab : a ≤ b) : a * (Phi b - Phi a) ≤ phi a - phi b := by
  have h0 : 0 ≤ ∫ z in a..b, (z - a) * phi z :=
    intervalIntegral.integral_nonneg hab
      (fun z hz ↦ mul_nonneg (by linarith [hz.1]) (phi_pos z).le)
  have h1 : ∫ z in a..b, (z - a) * phi z
      = (∫ z in a..b, z * phi z) - a * ∫ z in a..b, phi z := by
    rw [← intervalIntegral.integral_const_mul, ← intervalIntegral.integral_sub]
    · congr 1; ext z; ring
    · exact (continuous_id.mul phi_continuous).intervalIntegrable a b
    · exact (continuous_const.mul phi_continuous).intervalIntegrable a b
  rw [h1, ← phi_sub_eq_integral, ← Phi_sub_eq_integral] at h0
  linarith

theorem phi_sub_le_mul {a b : ℝ} (hab : a ≤ b) : phi a - phi b ≤ b * (Phi b - Phi a) := by
  have h0 : 0 ≤ ∫ z in a..b, (b - z) * phi z :=
    intervalIntegral.integral_nonneg hab
      (fun z hz ↦ mul_nonneg (by linarith [hz.2]) (phi_pos z).le)
  have h1 : ∫ z in a..b, (b - z) * phi z
      = (b * ∫ z in a..b, phi z) - ∫ z in a..b, z * phi z := by
    rw [← intervalIntegral.integral_const_mul, ← intervalIntegral.integral_sub]
    · congr 1; ext z; ring
    · exact (continuous_const.mul phi_continuous).intervalIntegrable a b
    · exact (continuous_id.mul phi_continuous).intervalIntegrable a b
  rw [h1, ← phi_sub_eq_integral, ← Phi_sub_eq_integral] at h0
  linarith

theorem Vt_denom_pos {x t : ℝ} (ht : 0 < t) : 0 < Phi (t - x) - Phi (-t - x) := by
  have := Phi_strictMono (by linarith : -t - x < t - x)
  linarith

theorem Vt_lower {x t : ℝ} (ht : 0 < t) : -t - x ≤ Vt x t := by
  unfold Vt
  rw [le_div_iff₀ (Vt_denom_pos ht)]
  exact mul_Phi_sub_le (by linarith)

theorem Vt_upper {x t : ℝ} (ht : 0 < t) : Vt x t ≤ t - x := by
  unfold Vt
  rw [div_le_iff₀ (Vt_denom_pos ht)]
  exact phi_sub_le_mul (by linarith)

theorem Vt_odd (x t : ℝ) : Vt (-x) t = -Vt x t := by
  unfold Vt
  have e1 : -t - -x = -(t - x) := by ring
  have e2 : t - -x = -(-t - x) := by ring
  rw [e1, e2, phi_even, phi_even, Phi_neg, Phi_neg, ← neg_div]
  congr 1 <;> ring

/-! ### Group E: Sampford's inequality and monotonicity of `V` -/

theorem V_hasDerivAt (x : ℝ) : HasDerivAt V (-(W x)) x := by
  have hP : Phi x ≠ 0 := (Phi_pos x).ne'
  have h := (phi_hasDerivAt x).div (Phi_hasDerivAt x) hP
  have heq : V = fun y ↦ phi y / Phi y := rfl
  rw [heq]
  refine h.congr_deriv ?_
  unfold W V
  field_simp
  ring

theorem V_strictAnti : StrictAnti V :=
  strictAnti_of_hasDerivAt_neg (f' := fun x ↦ -(W x)) V_hasDerivAt
    (fun x ↦ by have := W_pos x; linarith)

theorem V_continuous : Continuous V :=
  continuous_iff_continuousAt.2 fun x ↦ (V_hasDerivAt x).continuousAt

/-- `K x = phi x * (V x + x) - Phi x = (W x - 1) * Phi x` has derivative `-(phi x * (V x + x)^2)`. -/
theorem sampford_gap_hasDerivAt (x : ℝ) :
    HasDerivAt (fun x ↦ phi x * (V x + x) - Phi x) (-(phi x * (V x + x) ^ 2)) x := by
  have hD : HasDerivAt (fun x ↦ V x + x) (-(W x) + 1) x :=
    (V_hasDerivAt x).add (hasDerivAt_id x)
  have h := ((phi_hasDerivAt x).mul hD).sub (Phi_hasDerivAt x)
  refine h.congr_deriv ?_
  unfold W
  ring

theorem sampford_gap_strictAnti : StrictAnti (fun x ↦ phi x * (V x + x) - Phi x) :=
  strictAnti_of_hasDerivAt_neg (f' := fun x ↦ -(phi x * (V x + x) ^ 2)) sampford_gap_hasDerivAt
    (fun x ↦ by
      have := mul_pos (phi_pos x) (pow_pos (V_add_pos x) 2)
      linarith)

theorem sampford_gap_le {y : ℝ} (hy : 0 < y) :
    phi (-y) * (V (-y) + -y) - Phi (-y) ≤ phi 0 / y := by
  have h1 : V (-y) + -y ≤ 1 / y := by have := V_neg_le hy; linarith
  have h2 : phi (-y) ≤ phi 0 := phi_le_of_abs_le (by simp)
  have h3 : 0 ≤ 1 / y := by positivity
  have h4 := Phi_nonneg (-y)
  have h5 : phi (-y) * (V (-y) + -y) ≤ phi 0 * (1 / y) :=
    mul_le_mul h2 h1 (V_add_pos (-y)).le (phi_pos 0).le
  have h6 : phi 0 * (1 / y) = phi 0 / y := by ring
  linarith

theorem sampford_gap_neg (x : ℝ) : phi x * (V x + x) - Phi x < 0 := by
  by_contra hcon
  rw [not_lt] at hcon
  set K : ℝ → ℝ := fun x ↦ phi x * (V x + x) - Phi x with hK
  have hc : 0 < K (x - 1) := lt_of_le_of_lt hcon (sampford_gap_strictAnti (by linarith))
  set c := K (x - 1) with hcdef
  -- choose `y` large
  set y : ℝ := max (2 - x) (phi 0 / c + 1) with hy
  have hy1 : 2 - x ≤ y := le_max_left _ _
  have hy2 : phi 0 / c + 1 ≤ y := le_max_right _ _
  have hpos : 0 < phi 0 / c := div_pos (phi_pos 0) hc
  have hy0 : 0 < y := by linarith
  have hlt : c < K (-y) := sampford_gap_strictAnti (by linarith : -y < x - 1)
  have hle : K (-y) ≤ phi 0 / y := sampford_gap_le hy0
  have hlt2 : phi 0 / y < c := by
    rw [div_lt_iff₀ hy0]
    have : phi 0 / c < y := by linarith
    rw [div_lt_iff₀ hc] at this
    linarith
  linarith

/-- Sampford's inequality. -/
theorem W_lt_one (x : ℝ) : W x < 1 := by
  have h := sampford_gap_neg x
  have hP := Phi_pos x
  have hV : phi x = V x * Phi x := by unfold V; field_simp
  rw [hV] at h
  unfold W
  have : V x * Phi x * (V x + x) - Phi x = (V x * (V x + x) - 1) * Phi x := by ring
  rw [this] at h
  have := (mul_neg_iff.1 h)
  rcases this with ⟨_, h2⟩ | ⟨h1, _⟩
  · linarith
  · linarith

/-- `x ↦ V x + x` is strictly increasing (its derivative is `1 - W x > 0`). -/
theorem V_add_id_strictMono : StrictMono (fun x ↦ V x + x) :=
  strictMono_of_hasDerivAt_pos (f' := fun x ↦ -(W x) + 1)
    (fun x ↦ (V_hasDerivAt x).add (hasDerivAt_id x))
    (fun x ↦ by have := W_lt_one x; linarith)

end PyvcPhi

#print axioms PyvcPhi.W_lt_one
#print axioms PyvcPhi.V_strictAnti
#print axioms PyvcPhi.gordon_upper
#print axioms PyvcPhi.band_le_band_zero
#print axioms PyvcPhi.Vt_lower
#print axioms PyvcPhi.Vt_upper
#print axioms PyvcPhi.Vt_odd
#print axioms PyvcPhi.V_add_pos

/- Dropped theorems (second batch): none.  Groups A-E are all fully proved above,
   including the stretch goals `W_lt_one` (Sampford), `V_hasDerivAt` and `V_strictAnti`.
   The `#print axioms` lines show only propext, Classical.choice, Quot.sound. -/

/-! ## Third batch -/

namespace PyvcPhi

/-! ### Group F: concavity on `[0, ∞)` and the chord bound -/

theorem deriv_Phi : deriv Phi = phi := funext fun x ↦ (Phi_hasDerivAt x).deriv

theorem Phi_differentiable : Differentiable ℝ Phi := fun x ↦ (Phi_hasDerivAt x).differentiableAt

theorem Phi_concaveOn_nonneg : ConcaveOn ℝ (Set.Ici 0) Phi := by
  refine AntitoneOn.concaveOn_of_deriv (convex_Ici 0) Phi_continuous.continuousOn
    Phi_differentiable.differentiableOn ?_
  rw [deriv_Phi, interior_Ici]
  intro a ha b _ hab
  exact phi_antitone_on_nonneg (le_of_lt ha) hab

theorem Phi_chord {a x : ℝ} (ha0 : 0 ≤ a) (ha1 : a ≤ 1) (hx : 0 ≤ x) :
    a * (Phi x - 1 / 2) ≤ Phi (a * x) - 1 / 2 := by
  have h := Phi_concaveOn_nonneg.2 (mem_Ici.2 hx) (mem_Ici.2 (le_refl (0 : ℝ))) ha0
    (by linarith : (0 : ℝ) ≤ 1 - a) (by ring)
  simp only [smul_eq_mul, mul_zero, add_zero, Phi_zero] at h
  linarith

/-! ### Group G: the inverse as a function -/

noncomputable def PhiInv (p : ℝ) : ℝ :=
  if h : 0 < p ∧ p < 1 then Classical.choose (Phi_exists_unique_inverse p h.1 h.2).exists else 0

theorem PhiInv_spec {p : ℝ} (hp0 : 0 < p) (hp1 : p < 1) : Phi (PhiInv p) = p := by
  unfold PhiInv
  rw [dif_pos ⟨hp0, hp1⟩]
  exact Classical.choose_spec (Phi_exists_unique_inverse p hp0 hp1).exists

theorem PhiInv_Phi (x : ℝ) : PhiInv (Phi x) = x :=
  Phi_strictMono.injective (PhiInv_spec (Phi_pos x) (Phi_lt_one x))

theorem PhiInv_strictMonoOn : StrictMonoOn PhiInv (Set.Ioo 0 1) := by
  intro p hp q hq hpq
  rw [← Phi_strictMono.lt_iff_lt, PhiInv_spec hp.1 hp.2, PhiInv_spec hq.1 hq.2]
  exact hpq

theorem PhiInv_half : PhiInv (1 / 2) = 0 := by
  rw [← Phi_zero, PhiInv_Phi]

theorem PhiInv_pos {p : ℝ} (hp : 1 / 2 < p) (hp1 : p < 1) : 0 < PhiInv p := by
  rw [← PhiInv_half]
  exact PhiInv_strictMonoOn ⟨by norm_num, by norm_num⟩ ⟨by linarith, hp1⟩ hp

theorem PhiInv_le_iff {p x : ℝ} (hp0 : 0 < p) (hp1 : p < 1) : PhiInv p ≤ x ↔ p ≤ Phi x := by
  rw [← Phi_strictMono.le_iff_le, PhiInv_spec hp0 hp1]

theorem le_PhiInv_iff {p x : ℝ} (hp0 : 0 < p) (hp1 : p < 1) : x ≤ PhiInv p ↔ Phi x ≤ p := by
  rw [← Phi_strictMono.le_iff_le, PhiInv_spec hp0 hp1]

/-! ### Group H: the constant inequality behind "two-team draw probability ≤ 1" -/

theorem margin_ratio_le {N : ℝ} (hN : 2 ≤ N) :
    Real.sqrt (N / 2) * PhiInv (1 / 2 + 1 / (2 * N)) ≤ PhiInv (3 / 4) := by
  have hN0 : 0 < N := by linarith
  set q := PhiInv (3 / 4) with hq
  have hq0 : 0 < q := PhiInv_pos (by norm_num) (by norm_num)
  have hPq : Phi q = 3 / 4 := PhiInv_spec (by norm_num) (by norm_num)
  set a := Real.sqrt (2 / N) with ha
  have ha0 : 0 ≤ a := Real.sqrt_nonneg _
  have hasq : a ^ 2 = 2 / N := Real.sq_sqrt (by positivity)
  have h2N : 2 / N ≤ 1 := by rw [div_le_one hN0]; exact hN
  have ha1 : a ≤ 1 := by
    have h := Real.sqrt_le_sqrt h2N
    rwa [Real.sqrt_one] at h
  have hchord := Phi_chord ha0 ha1 hq0.le
  rw [hPq] at hchord
  have hasq_le : a ^ 2 ≤ a := by nlinarith
  have h12N : 1 / (2 * N) = a ^ 2 / 4 := by rw [hasq]; field_simp; ring
  have hp_le : 1 / 2 + 1 / (2 * N) ≤ Phi (a * q) := by rw [h12N]; linarith
  have hpos : 0 < 1 / (2 * N) := by positivity
  have hle4 : 1 / (2 * N) ≤ 1 / 4 := by
    rw [h12N]; nlinarith
  have hr : PhiInv (1 / 2 + 1 / (2 * N)) ≤ a * q :=
    (PhiInv_le_iff (by linarith) (by linarith)).2 hp_le
  have hsa : Real.sqrt (N / 2) * a = 1 := by
    rw [ha, ← Real.sqrt_mul (by positivity)]
    have : N / 2 * (2 / N) = 1 := by field_simp
    rw [this, Real.sqrt_one]
  calc Real.sqrt (N / 2) * PhiInv (1 / 2 + 1 / (2 * N))
      ≤ Real.sqrt (N / 2) * (a * q) := mul_le_mul_of_nonneg_left hr (Real.sqrt_nonneg _)
    _ = (Real.sqrt (N / 2) * a) * q := by ring
    _ = q := by rw [hsa, one_mul]

theorem band_zero (m s : ℝ) : band m s 0 = 2 * Phi (m / s) - 1 := by
  unfold band
  have h : (-m - 0) / s = -(m / s) := by ring
  rw [h, Phi_neg, sub_zero]
  ring

theorem two_team_draw_le_one {N β va vb : ℝ} (d : ℝ) (hN : 2 ≤ N) (hβ : 0 < β)
    (hva : 0 ≤ va) (hvb : 0 ≤ vb) :
    2 * band (Real.sqrt N * β * PhiInv ((1 + 1 / N) / 2)) (Real.sqrt (2 * β ^ 2 + va + vb)) d
      ≤ 1 := by
  have hN0 : 0 < N := by linarith
  have hp : (1 + 1 / N) / 2 = 1 / 2 + 1 / (2 * N) := by field_simp
  rw [hp]
  set r := PhiInv (1 / 2 + 1 / (2 * N)) with hr
  set q := PhiInv (3 / 4) with hq
  have hpos : 0 < 1 / (2 * N) := by positivity
  have hle4 : 1 / (2 * N) ≤ 1 / 4 := by
    rw [div_le_div_iff₀ (by positivity) (by norm_num)]; linarith
  have hr0 : 0 < r := PhiInv_pos (by linarith) (by linarith)
  have hPq : Phi q = 3 / 4 := PhiInv_spec (by norm_num) (by norm_num)
  have hmr := margin_ratio_le hN
  set m := Real.sqrt N * β * r with hm
  set s := Real.sqrt (2 * β ^ 2 + va + vb) with hs
  have hm0 : 0 ≤ m := by positivity
  have hs_lower : Real.sqrt 2 * β ≤ s := by
    have h1 : Real.sqrt 2 * β = Real.sqrt (2 * β ^ 2) := by
      rw [Real.sqrt_mul (by norm_num), Real.sqrt_sq hβ.le]
    rw [h1]
    exact Real.sqrt_le_sqrt (by linarith)
  have hs0 : 0 < s := lt_of_lt_of_le (by positivity) hs_lower
  have hsqrtN : Real.sqrt N = Real.sqrt (N / 2) * Real.sqrt 2 := by
    rw [← Real.sqrt_mul (by positivity)]
    congr 1; ring
  have hms : m / s ≤ q := by
    rw [div_le_iff₀ hs0]
    calc m = (Real.sqrt (N / 2) * r) * (Real.sqrt 2 * β) := by rw [hm, hsqrtN]; ring
      _ ≤ q * (Real.sqrt 2 * β) := mul_le_mul_of_nonneg_right hmr (by positivity)
      _ ≤ q * s := mul_le_mul_of_nonneg_left hs_lower
          (le_trans (by positivity) hmr)
  have hPhi : Phi (m / s) ≤ 3 / 4 := by rw [← hPq]; exact Phi_mono hms
  have h1 := band_le_band_zero hm0 hs0 d
  rw [band_zero] at h1
  linarith

/-! ### Group I: Mills-type bounds for the truncated functions -/

noncomputable def Wt (x t : ℝ) : ℝ :=
  ((t - x) * phi (t - x) + (t + x) * phi (-t - x)) / (Phi (t - x) - Phi (-t - x)) + (Vt x t) ^ 2

/-- as requested (this one is weak: in fact `Vt x t ≤ t - x < V (x - t)`). -/
theorem Vt_le_V {x t : ℝ} (ht : 0 < t) : Vt x t ≤ V (x - t) := by
  have h1 := Vt_upper (x := x) ht
  have h2 := lt_V_neg (t - x)
  rw [neg_sub] at h2
  linarith

/-- as requested (this one is weak: in fact `-V (-x - t) < -t - x ≤ Vt x t`). -/
theorem neg_V_le_Vt {x t : ℝ} (ht : 0 < t) : -V (-x - t) ≤ Vt x t := by
  have h1 := Vt_lower (x := x) ht
  have h2 := V_add_pos (-x - t)
  linarith

/-- sharp version: the mean of the normal truncated to `[a,b]` is at most the mean truncated to
`[a,∞)`, with `a = -t - x`; that one-sided mean is `V (-a) = V (t + x)`. -/
theorem Vt_le_V_sharp {x t : ℝ} (ht : 0 < t) : Vt x t ≤ V (t + x) := by
  have hZ := Vt_denom_pos (x := x) ht
  have hmono : V (t + x) ≤ V (x - t) := V_strictAnti.antitone (by linarith)
  -- hazard form: phi a * (1 - Phi b) ≤ phi b * (1 - Phi a)
  have hPa : 0 < 1 - Phi (-t - x) := by have := Phi_lt_one (-t - x); linarith
  have hPb : 0 < 1 - Phi (t - x) := by have := Phi_lt_one (t - x); linarith
  have e1 : V (t + x) = phi (-t - x) / (1 - Phi (-t - x)) := by
    unfold V
    have : t + x = -(-t - x) := by ring
    rw [this, phi_even, Phi_neg]
  have e2 : V (x - t) = phi (t - x) / (1 - Phi (t - x)) := by
    unfold V
    have : x - t = -(t - x) := by ring
    rw [this, phi_even, Phi_neg]
  rw [e1, e2, div_le_div_iff₀ hPa hPb] at hmono
  rw [e1]
  unfold Vt
  rw [div_le_div_iff₀ hZ hPa]
  nlinarith

/-- sharp version of the lower bound: `-V (t - x) ≤ Vt x t`. -/
theorem neg_V_le_Vt_sharp {x t : ℝ} (ht : 0 < t) : -V (t - x) ≤ Vt x t := by
  have h := Vt_le_V_sharp (x := -x) ht
  rw [Vt_odd] at h
  have : t + -x = t - x := by ring
  rw [this] at h
  linarith

/-- `Wt` rewritten as a phi-weighted combination of the distances of the mean to the endpoints. -/
theorem Wt_eq {x t : ℝ} (ht : 0 < t) :
    Wt x t = (((t - x) - Vt x t) * phi (t - x) + (Vt x t - (-t - x)) * phi (-t - x))
      / (Phi (t - x) - Phi (-t - x)) := by
  have hZ := (Vt_denom_pos (x := x) ht).ne'
  have hμ : phi (-t - x) - phi (t - x) = Vt x t * (Phi (t - x) - Phi (-t - x)) := by
    unfold Vt; field_simp
  unfold Wt
  rw [eq_div_iff hZ, add_mul, div_mul_cancel₀ _ hZ]
  have : Vt x t ^ 2 * (Phi (t - x) - Phi (-t - x))
      = Vt x t * (phi (-t - x) - phi (t - x)) := by rw [hμ]; ring
  rw [this]
  ring

theorem Wt_pos {x t : ℝ} (ht : 0 < t) : 0 < Wt x t := by
  rw [Wt_eq ht]
  apply div_pos _ (Vt_denom_pos ht)
  have h1 := Vt_lower (x := x) ht
  have h2 := Vt_upper (x := x) ht
  have p1 := phi_pos (t - x)
  have p2 := phi_pos (-t - x)
  rcases lt_or_ge (Vt x t) (t - x) with h | h
  · have : 0 < ((t - x) - Vt x t) * phi (t - x) := mul_pos (by linarith) p1
    have : 0 ≤ (Vt x t - (-t - x)) * phi (-t - x) := mul_nonneg (by linarith) p2.le
    linarith
  · have : 0 ≤ ((t - x) - Vt x t) * phi (t - x) := mul_nonneg (by linarith) p1.le
    have : 0 < (Vt x t - (-t - x)) * phi (-t - x) := mul_pos (by linarith) p2
    linarith

/-- second-moment identity in primitive form: the primitive of `(z - μ)^2 * phi z`. -/
theorem trunc_var_primitive_hasDerivAt (μ z : ℝ) :
    HasDerivAt (fun z ↦ -(z * phi z) + Phi z + 2 * μ * phi z + μ ^ 2 * Phi z)
      ((z - μ) ^ 2 * phi z) z := by
  have h1 := ((hasDerivAt_id z).mul (phi_hasDerivAt z)).neg
  have h2 := Phi_hasDerivAt z
  have h3 := (phi_hasDerivAt z).const_mul (2 * μ)
  have h4 := (Phi_hasDerivAt z).const_mul (μ ^ 2)
  have h := ((h1.add h2).add h3).add h4
  refine h.congr_deriv ?_
  simp only [id]
  ring

theorem trunc_var_nonneg {a b : ℝ} (hab : a ≤ b) (μ : ℝ) :
    0 ≤ (-(b * phi b) + Phi b + 2 * μ * phi b + μ ^ 2 * Phi b)
      - (-(a * phi a) + Phi a + 2 * μ * phi a + μ ^ 2 * Phi a) := by
  have hmono : Monotone (fun z ↦ -(z * phi z) + Phi z + 2 * μ * phi z + μ ^ 2 * Phi z) :=
    monotone_of_hasDerivAt_nonneg (f' := fun z ↦ (z - μ) ^ 2 * phi z)
      (fun z ↦ trunc_var_primitive_hasDerivAt μ z)
      (fun z ↦ mul_nonneg (sq_nonneg _) (phi_pos z).le)
  have := hmono hab
  simp only at this
  linarith

theorem Wt_le_one {x t : ℝ} (ht : 0 < t) : Wt x t ≤ 1 := by
  have hZ := Vt_denom_pos (x := x) ht
  have hμ : phi (-t - x) - phi (t - x) = Vt x t * (Phi (t - x) - Phi (-t - x)) := by
    unfold Vt; field_simp
  have hvar := trunc_var_nonneg (a := -t - x) (b := t - x) (by linarith) (Vt x t)
  unfold Wt
  have hsq : Vt x t ^ 2 = Vt x t ^ 2 * (Phi (t - x) - Phi (-t - x))
      / (Phi (t - x) - Phi (-t - x)) := by field_simp
  rw [hsq, ← add_div, div_le_one hZ]
  have h2 : Vt x t ^ 2 * (Phi (t - x) - Phi (-t - x))
      = Vt x t * (phi (-t - x) - phi (t - x)) := by rw [hμ]; ring
  nlinarith

/-- extra: `∂/∂x Vt x t = -Wt x t`, hence `x ↦ Vt x t` is strictly decreasing. -/
theorem Vt_hasDerivAt {t : ℝ} (ht : 0 < t) (x : ℝ) :
    HasDerivAt (fun x ↦ Vt x t) (-(Wt x t)) x := by
  have hZ := (Vt_denom_pos (x := x) ht).ne'
  have ha : HasDerivAt (fun x : ℝ ↦ -t - x) (-1) x := (hasDerivAt_id x).const_sub (-t)
  have hb : HasDerivAt (fun x : ℝ ↦ t - x) (-1) x := (hasDerivAt_id x).const_sub t
  have hpa := (phi_hasDerivAt (-t - x)).comp x ha
  have hpb := (phi_hasDerivAt (t - x)).comp x hb
  have hPa := (Phi_hasDerivAt (-t - x)).comp x ha
  have hPb := (Phi_hasDerivAt (t - x)).comp x hb
  have h := (hpa.sub hpb).div (hPb.sub hPa) hZ
  have heq : (fun x ↦ Vt x t) = (fun x ↦ ((phi ∘ fun x : ℝ ↦ -t - x) x - (phi ∘ fun x : ℝ ↦ t - x) x)
      / ((Phi ∘ fun x : ℝ ↦ t - x) x - (Phi ∘ fun x : ℝ ↦ -t - x) x)) := rfl
  rw [heq]
  refine h.congr_deriv ?_
  unfold Wt Vt
  simp only [Function.comp_apply, Pi.sub_apply]
  field_simp
  ring

theorem Vt_strictAnti {t : ℝ} (ht : 0 < t) : StrictAnti (fun x ↦ Vt x t) :=
  strictAnti_of_hasDerivAt_neg (f' := fun x ↦ -(Wt x t)) (Vt_hasDerivAt ht)
    (fun x ↦ by have := Wt_pos (x := x) ht; linarith)

end PyvcPhi

#print axioms PyvcPhi.Phi_concaveOn_nonneg
#print axioms PyvcPhi.Phi_chord
#print axioms PyvcPhi.PhiInv_strictMonoOn
#print axioms PyvcPhi.margin_ratio_le
#print axioms PyvcPhi.two_team_draw_le_one
#print axioms PyvcPhi.Vt_le_V_sharp
#print axioms PyvcPhi.Wt_pos
#print axioms PyvcPhi.Wt_le_one

/- Dropped theorems (third batch): none.  Groups F-I are all fully proved above.
   Notes: `Vt_le_V` / `neg_V_le_Vt` are proved exactly as requested, but they are weak
   (they follow from `Vt_upper`/`Vt_lower` and `lt_V_neg`/`V_add_pos`); the sharp one-sided
   truncation bounds are `Vt_le_V_sharp : Vt x t ≤ V (t + x)` and
   `neg_V_le_Vt_sharp : -V (t - x) ≤ Vt x t`.  `Wt_pos`, `Wt_le_one` hold for every real x
   (no restriction to 0 ≤ x needed); `Wt = 1 - Var` of the standard normal truncated to
   [-t-x, t-x], and additionally `∂/∂x Vt x t = -Wt x t` (`Vt_hasDerivAt`). -/

/-! ## Fourth batch -/

namespace PyvcPhi

/-! ### Group J: continued-fraction (Shenton / Laplace) lower bound on `V (-z)` -/

/-- numerator polynomial of the convergent -/
noncomputable def cfP (z : ℝ) : ℝ := z ^ 4 + 9 * z ^ 2 + 8
/-- denominator polynomial of the convergent -/
noncomputable def cfQ (z : ℝ) : ℝ := z ^ 5 + 10 * z ^ 3 + 15 * z

theorem cfP_pos (z : ℝ) : 0 < cfP z := by unfold cfP; positivity

theorem cfQ_pos {z : ℝ} (hz : 0 < z) : 0 < cfQ z := by unfold cfQ; positivity

theorem cfP_hasDerivAt (z : ℝ) : HasDerivAt cfP (4 * z ^ 3 + 18 * z) z := by
  have h := (((hasDerivAt_pow 4 z).add ((hasDerivAt_pow 2 z).const_mul 9)).add_const 8)
  have heq : cfP = fun z ↦ z ^ 4 + 9 * z ^ 2 + 8 := rfl
  rw [heq]
  refine h.congr_deriv ?_
  norm_num
  ring

theorem cfQ_hasDerivAt (z : ℝ) : HasDerivAt cfQ (5 * z ^ 4 + 30 * z ^ 2 + 15) z := by
  have h := (((hasDerivAt_pow 5 z).add ((hasDerivAt_pow 3 z).const_mul 10)).add
    ((hasDerivAt_id z).const_mul 15))
  have heq : cfQ = fun z ↦ z ^ 5 + 10 * z ^ 3 + 15 * z := rfl
  rw [heq]
  refine h.congr_deriv ?_
  norm_num
  ring

/-- `k z = phi z * P z / Q z - (1 - Phi z)` has derivative `-120 * phi z / Q z ^ 2` for `z > 0`. -/
theorem cf_gap_hasDerivAt {z : ℝ} (hz : 0 < z) :
    HasDerivAt (fun z ↦ phi z * cfP z / cfQ z - (1 - Phi z))
      (-(120 * phi z / cfQ z ^ 2)) z := by
  have hQ : cfQ z ≠ 0 := (cfQ_pos hz).ne'
  have h1 : HasDerivAt (fun z ↦ 1 - Phi z) (-phi z) z := (Phi_hasDerivAt z).const_sub 1
  have h := (((phi_hasDerivAt z).mul (cfP_hasDerivAt z)).div (cfQ_hasDerivAt z) hQ).sub h1
  refine h.congr_deriv ?_
  simp only [Pi.mul_apply]
  field_simp
  unfold cfP cfQ
  ring

theorem cf_gap_strictAntiOn :
    StrictAntiOn (fun z ↦ phi z * cfP z / cfQ z - (1 - Phi z)) (Ioi 0) := by
  refine strictAntiOn_of_deriv_neg (convex_Ioi 0) ?_ ?_
  · intro z hz
    exact (cf_gap_hasDerivAt hz).continuousAt.continuousWithinAt
  · intro z hz
    rw [interior_Ioi] at hz
    rw [(cf_gap_hasDerivAt hz).deriv]
    have : 0 < 120 * phi z / cfQ z ^ 2 :=
      div_pos (mul_pos (by norm_num) (phi_pos z)) (pow_pos (cfQ_pos hz) 2)
    linarith

theorem cf_gap_pos {z : ℝ} (hz : 0 < z) : 0 < phi z * cfP z / cfQ z - (1 - Phi z) := by
  by_contra hcon
  rw [not_lt] at hcon
  set k : ℝ → ℝ := fun z ↦ phi z * cfP z / cfQ z - (1 - Phi z) with hk
  have hk1 : k (z + 1) < 0 :=
    lt_of_lt_of_le (cf_gap_strictAntiOn (mem_Ioi.2 hz) (mem_Ioi.2 (by linarith)) (by linarith)) hcon
  -- eventually `1 - Phi w < -k (z+1)`, while `-(1 - Phi w) < k w < k (z+1)` for `w > z+1`
  have hev : ∀ᶠ w in atTop, 1 + k (z + 1) < Phi w :=
    Phi_tendsto_atTop.eventually (lt_mem_nhds (by linarith))
  obtain ⟨w, hw1, hw2⟩ := (hev.and (eventually_gt_atTop (z + 1))).exists
  have hw0 : 0 < w := by linarith
  have hw3 : k w < k (z + 1) :=
    cf_gap_strictAntiOn (mem_Ioi.2 (by linarith)) (mem_Ioi.2 hw0) hw2
  have hw4 : 0 < phi w * cfP w / cfQ w :=
    div_pos (mul_pos (phi_pos w) (cfP_pos w)) (cfQ_pos hw0)
  simp only [hk] at hw3 hw1
  linarith

/-- product form (strict): `(1 - Phi z) * Q z < phi z * P z` for `z > 0`. -/
theorem mills_cf_mul_lt {z : ℝ} (hz : 0 < z) :
    (1 - Phi z) * (z ^ 5 + 10 * z ^ 3 + 15 * z) < phi z * (z ^ 4 + 9 * z ^ 2 + 8) := by
  have h := cf_gap_pos hz
  have hQ := cfQ_pos hz
  rw [sub_pos, lt_div_iff₀ hQ] at h
  exact h

theorem mills_cf_mul_le {z : ℝ} (hz : 0 < z) :
    (1 - Phi z) * (z ^ 5 + 10 * z ^ 3 + 15 * z) ≤ phi z * (z ^ 4 + 9 * z ^ 2 + 8) :=
  (mills_cf_mul_lt hz).le

/-- strict form of the continued-fraction lower bound. -/
theorem mills_cf_lower_lt {z : ℝ} (hz : 0 < z) :
    z + (z ^ 3 + 7 * z) / (z ^ 4 + 9 * z ^ 2 + 8) < V (-z) := by
  have h := mills_cf_mul_lt hz
  have hP : 0 < z ^ 4 + 9 * z ^ 2 + 8 := by positivity
  have h1 : 0 < 1 - Phi z := by have := Phi_lt_one z; linarith
  have e : z + (z ^ 3 + 7 * z) / (z ^ 4 + 9 * z ^ 2 + 8)
      = (z ^ 5 + 10 * z ^ 3 + 15 * z) / (z ^ 4 + 9 * z ^ 2 + 8) := by
    field_simp; ring
  unfold V
  rw [e, phi_even, Phi_neg, div_lt_div_iff₀ hP h1]
  linarith

theorem mills_cf_lower {z : ℝ} (hz : 0 < z) :
    z + (z ^ 3 + 7 * z) / (z ^ 4 + 9 * z ^ 2 + 8) ≤ V (-z) :=
  (mills_cf_lower_lt hz).le

/-- the form instantiated by the checker, for `y < 0`. -/
theorem mills_cf_lower_neg {y : ℝ} (hy : y < 0) :
    V y ≥ (-y) + ((-y) ^ 3 + 7 * (-y)) / ((-y) ^ 4 + 9 * (-y) ^ 2 + 8) := by
  have h := mills_cf_lower (z := -y) (by linarith)
  rw [neg_neg] at h
  exact h

/-! ### Group K: `1 - W (-z)` is `O(1 / z^2)` -/

theorem one_sub_W_neg_pos (z : ℝ) : 0 < 1 - W (-z) := by
  have := W_lt_one (-z); linarith

theorem one_sub_W_neg_le_two {z : ℝ} (hz : 0 < z) : 1 - W (-z) ≤ 2 / z ^ 2 := by
  have hP : 0 < z ^ 4 + 9 * z ^ 2 + 8 := by positivity
  set e := (z ^ 3 + 7 * z) / (z ^ 4 + 9 * z ^ 2 + 8) with he
  have he0 : 0 < e := by rw [he]; positivity
  have hv : z + e ≤ V (-z) := mills_cf_lower hz
  have hW : z * e ≤ W (-z) := by
    unfold W
    have h1 : e ≤ V (-z) + -z := by linarith
    calc z * e ≤ V (-z) * e := mul_le_mul_of_nonneg_right (by linarith) he0.le
      _ ≤ V (-z) * (V (-z) + -z) := mul_le_mul_of_nonneg_left h1 (V_pos (-z)).le
  have hze : 1 - z * e = (2 * z ^ 2 + 8) / (z ^ 4 + 9 * z ^ 2 + 8) := by
    rw [he]; field_simp; ring
  have hbound : (2 * z ^ 2 + 8) / (z ^ 4 + 9 * z ^ 2 + 8) ≤ 2 / z ^ 2 := by
    rw [div_le_div_iff₀ hP (by positivity)]
    nlinarith [sq_nonneg z, sq_nonneg (z ^ 2)]
  linarith

theorem one_sub_W_neg_le {z : ℝ} (hz : 0 < z) : 1 - W (-z) ≤ 3 / z ^ 2 := by
  have h := one_sub_W_neg_le_two hz
  have : 2 / z ^ 2 ≤ 3 / z ^ 2 := by gcongr; norm_num
  linarith

end PyvcPhi

#print axioms PyvcPhi.mills_cf_lower
#print axioms PyvcPhi.mills_cf_lower_neg
#print axioms PyvcPhi.mills_cf_mul_le
#print axioms PyvcPhi.one_sub_W_neg_le

/- Dropped theorems (fourth batch): none.  J and K are fully proved.
   The numerator P'Q - PQ' - zPQ + Q^2 is the constant -120, so
   k(z) = phi z * P z / Q z - (1 - Phi z) has k' = -120 * phi z / Q z ^ 2 < 0 on (0, ∞) and the
   inequality holds in the requested direction (strictly: `mills_cf_lower_lt`, `mills_cf_mul_lt`).
   K: in fact 1 - W (-z) ≤ 2 / z^2 (`one_sub_W_neg_le_two`); the requested 3 / z^2 is a corollary. -/
