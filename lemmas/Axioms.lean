/-
  The analytic facts about exp and sqrt that pyvc's normaliser and its z3
  obligations use as assumed lemma instances (DESIGN.md section 4, A-exp and
  A-sqrt), machine-checked against Mathlib.  Run:
    cd /opt/veriftools/mathlib4 && lake env lean /verif/lemmas/Axioms.lean
-/
import Mathlib.Analysis.SpecialFunctions.Exp
import Mathlib.Analysis.SpecialFunctions.Sqrt

open Real

-- A-exp
theorem A_exp_pos (x : ℝ) : 0 < exp x := exp_pos x
theorem A_exp_add (a b : ℝ) : exp (a + b) = exp a * exp b := exp_add a b
theorem A_exp_neg_mul (a : ℝ) : exp (-a) * exp a = 1 := by
  rw [← exp_add]; simp
theorem A_exp_zero : exp (0 : ℝ) = 1 := exp_zero
theorem A_exp_mono {a b : ℝ} (h : a ≤ b) : exp a ≤ exp b := exp_le_exp.mpr h
theorem A_exp_nat_mul (n : ℕ) (a : ℝ) : exp (n * a) = exp a ^ n := exp_nat_mul a n

-- A-sqrt
theorem A_sqrt_nonneg (x : ℝ) : 0 ≤ sqrt x := sqrt_nonneg x
theorem A_sqrt_sq {x : ℝ} (h : 0 ≤ x) : sqrt x * sqrt x = x := mul_self_sqrt h
theorem A_sqrt_pos {x : ℝ} (h : 0 < x) : 0 < sqrt x := sqrt_pos.mpr h
theorem A_sqrt_mono {x y : ℝ} (h : x ≤ y) : sqrt x ≤ sqrt y := sqrt_le_sqrt h
theorem A_sqrt_scale {k x : ℝ} (hk : 0 ≤ k) : sqrt (k ^ 2 * x) = k * sqrt x := by
  rw [sqrt_mul (sq_nonneg k), sqrt_sq hk]
theorem A_sqrt_sq_self {x : ℝ} (h : 0 ≤ x) : sqrt (x * x) = x := sqrt_mul_self h
