/-
  A-sum and the map/fold rule of pyvc/teams.py (DESIGN.md 11.7): the facts about finite sums behind
  the for-every-team-size obligations, and the inductions over the team size behind the fold and
  collect rules, machine-checked against Mathlib.  Run:
    cd /opt/veriftools/mathlib4 && lake env lean /verif/lemmas/Sums.lean
-/
import Mathlib.Algebra.BigOperators.Ring.Finset
import Mathlib.Algebra.Order.BigOperators.Ring.Finset
import Mathlib.Data.Real.Basic
import Mathlib.Tactic

open Finset BigOperators

-- A-sum: the team aggregates theta = Σ mu_k, s = Σ sigma_k^2 over the L members (Fin L)
variable {L : ℕ}

/-- linearity: a member-wise term A + B*mu_k + C*sigma_k^2 sums to A*L + B*theta + C*s -/
theorem A_sum_linear (A B C : ℝ) (mu sg : Fin L → ℝ) :
    ∑ k, (A + B * mu k + C * (sg k * sg k)) = A * L + B * ∑ k, mu k + C * ∑ k, (sg k * sg k) := by
  simp [Finset.sum_add_distrib, Finset.mul_sum, mul_comm]

/-- a sum of non-negative addends dominates each addend: sigma_k^2 ≤ s -/
theorem A_sum_member_le (sg : Fin L → ℝ) (k : Fin L) : sg k * sg k ≤ ∑ j, (sg j * sg j) :=
  Finset.single_le_sum (f := fun j => sg j * sg j) (fun j _ => mul_self_nonneg (sg j)) (Finset.mem_univ k)

/-- two different members: sigma_k^2 + sigma_k2^2 ≤ s -/
theorem A_sum_two_members_le (sg : Fin L → ℝ) (k k2 : Fin L) (h : k ≠ k2) :
    sg k * sg k + sg k2 * sg k2 ≤ ∑ j, (sg j * sg j) := by
  have : ∑ j ∈ ({k, k2} : Finset (Fin L)), (sg j * sg j) ≤ ∑ j, (sg j * sg j) :=
    Finset.sum_le_sum_of_subset_of_nonneg (Finset.subset_univ _) (fun j _ _ => mul_self_nonneg (sg j))
  simpa [Finset.sum_pair h] using this

/-- at least one member, every sigma positive: s > 0 -/
theorem A_sum_pos (sg : Fin L → ℝ) (k : Fin L) (h : ∀ j, 0 < sg j) : 0 < ∑ j, (sg j * sg j) :=
  lt_of_lt_of_le (mul_pos (h k) (h k)) (A_sum_member_le sg k)

-- the fold rule: a loop  `for x in l: v = v + d x`  ends with  v0 + Σ d
theorem fold_rule (d : α → ℝ) (v0 : ℝ) (l : List α) :
    l.foldl (fun v x => v + d x) v0 = v0 + (l.map d).sum := by
  induction l generalizing v0 with
  | nil => simp
  | cons x xs ih => simp [List.foldl, ih, add_assoc]

-- the collect rule: a loop `for x in l: out.append(f x)` ends with out0 ++ map f l
theorem collect_rule (f : α → β) (out0 : List β) (l : List α) :
    l.foldl (fun out x => out ++ [f x]) out0 = out0 ++ l.map f := by
  induction l generalizing out0 with
  | nil => simp
  | cons x xs ih => simp [List.foldl, ih]
