/-
  A-Phi (DESIGN.md section 4): the facts about the standard normal CDF / density that pyvc assumes as
  lemma instances (range, monotonicity, reflection, Phi(0) = 1/2, strictness, existence and uniqueness of
  the inverse on (0,1), phi positive / even / decreasing on [0,oo), Phi' = phi) and the Mills-ratio lower
  bound of A-Mills (y (1 - Phi y) < phi y for y > 0, i.e. V(-y) > y), machine-checked against Mathlib
  with Phi := cdf (gaussianReal 0 1), phi := gaussianPDFReal 0 1.  Written by a sub-agent, re-checked by
  the thorough tier of C17:   cd /opt/veriftools/mathlib4 && lake env lean /verif/lemmas/Phi.lean
  Not covered: that libm's erfc computes this Phi (A-erf is the definition of erfc, Mathlib has no erf).
-/
import Mathlib.Probability.Distributions.Gaussian.Real
import Mathlib.Probability.CDF
import Mathlib.MeasureTheory.Integral.IntegralEqImproper
import Mathlib.Analysis.Calculus.Deriv.MeanValue
import Mathlib.MeasureTheory.Integral.IntervalIntegral.FundThmCalculus
import Mathlib.Tactic

open MeasureTheory ProbabilityTheory Set Filter
open scoped NNReal ENNReal Topology

namespace PyvcPhi

noncomputable def Phi (x : ℝ) : ℝ := ProbabilityTheory.cdf (ProbabilityTheory.gaussianReal 0 1) x
noncomputable def phi (x : ℝ) : ℝ := ProbabilityTheory.gaussianPDFReal 0 1 x

/-! ### Group 1 -/

theorem Phi_nonneg (x : ℝ) : 0 ≤ Phi x := cdf_nonneg _ x

theorem Phi_le_one (x : ℝ) : Phi x ≤ 1 := cdf_le_one _ x

theorem Phi_mono : Monotone Phi := monotone_cdf _

/-! ### Group 2 -/

theorem phi_pos (x : ℝ) : 0 < phi x := gaussianPDFReal_pos 0 1 x one_ne_zero

theorem phi_even (x : ℝ) : phi (-x) = phi x := by
  simp [phi, gaussianPDFReal]

theorem phi_antitone_on_nonneg {a b : ℝ} (ha : 0 ≤ a) (hab : a ≤ b) : phi b ≤ phi a := by
  unfold phi gaussianPDFReal
  gcongr

/-! ### Group 3/4 -/

/-- the standard Gaussian measure -/
local notation "γ" => gaussianReal 0 1

instance : NullSingletonClass γ := nullSingletonClass_gaussianReal one_ne_zero

theorem Phi_eq_real (x : ℝ) : Phi x = (γ).real (Iic x) := cdf_eq_real _ x

theorem gamma_Iic_neg (x : ℝ) : (γ).real (Iic (-x)) = (γ).real (Ici x) := by
  have hmap : (γ).map (fun y : ℝ ↦ -y) = γ := by
    rw [gaussianReal_map_neg]; simp
  have h1 : (γ).real (Iic (-x)) = ((γ).map (fun y : ℝ ↦ -y)).real (Iic (-x)) := by rw [hmap]
  rw [h1, map_measureReal_apply measurable_neg measurableSet_Iic]
  congr 1
  ext y
  simp

theorem one_sub_Phi_eq (x : ℝ) : 1 - Phi x = (γ).real (Ioi x) := by
  rw [Phi_eq_real, ← compl_Iic, probReal_compl_eq_one_sub measurableSet_Iic]

theorem Phi_neg (x : ℝ) : Phi (-x) = 1 - Phi x := by
  rw [one_sub_Phi_eq, Phi_eq_real, gamma_Iic_neg]
  exact (measureReal_congr Ioi_ae_eq_Ici).symm

theorem Phi_reflect (x : ℝ) : Phi x + Phi (-x) = 1 := by
  rw [Phi_neg]; ring

theorem Phi_zero : Phi 0 = 1 / 2 := by
  have h := Phi_reflect 0
  rw [neg_zero] at h
  linarith

/-! ### Group 5 -/

theorem gamma_pos_of_volume_ne_zero {s : Set ℝ} (hs : volume s ≠ 0) : 0 < (γ).real s := by
  have h0 : (γ) s ≠ 0 := fun h ↦ hs (gaussianReal_absolutelyContinuous' 0 one_ne_zero h)
  have h1 : (γ).real s ≠ 0 := (measureReal_ne_zero_iff (measure_ne_top _ _)).2 h0
  exact lt_of_le_of_ne measureReal_nonneg h1.symm

theorem Phi_pos (x : ℝ) : 0 < Phi x := by
  rw [Phi_eq_real]
  apply gamma_pos_of_volume_ne_zero
  rw [Real.volume_Iic]
  exact ENNReal.top_ne_zero

theorem Phi_lt_one (x : ℝ) : Phi x < 1 := by
  have h := Phi_pos (-x)
  rw [Phi_neg] at h
  linarith

/-! ### Group 6 -/

theorem Phi_sub_eq (a b : ℝ) : ENNReal.ofReal (Phi b - Phi a) = (γ) (Ioc a b) := by
  have h := (cdf γ).measure_Ioc a b
  rw [measure_cdf] at h
  exact h.symm

theorem Phi_strictMono : StrictMono Phi := by
  intro a b hab
  have h1 : (γ) (Ioc a b) ≠ 0 := by
    intro h
    have := gaussianReal_absolutelyContinuous' 0 one_ne_zero h
    rw [Real.volume_Ioc, ENNReal.ofReal_eq_zero] at this
    linarith
  rw [← Phi_sub_eq, Ne, ENNReal.ofReal_eq_zero, not_le] at h1
  linarith

/-! ### Group 8b: derivative -/

theorem phi_continuous : Continuous phi := by
  unfold phi gaussianPDFReal
  fun_prop

theorem Phi_eq_integral (x : ℝ) : Phi x = ∫ t in Iic x, phi t := by
  rw [Phi_eq_real, measureReal_def, gaussianReal_apply_eq_integral 0 one_ne_zero,
    ENNReal.toReal_ofReal]
  · rfl
  · exact setIntegral_nonneg measurableSet_Iic (fun t _ ↦ gaussianPDFReal_nonneg 0 1 t)

theorem Phi_eq_add_intervalIntegral (x : ℝ) : Phi x = Phi 0 + ∫ t in (0 : ℝ)..x, phi t := by
  have hint : ∀ a : ℝ, IntegrableOn phi (Iic a) volume :=
    fun a ↦ (integrable_gaussianPDFReal 0 1).integrableOn
  rw [← intervalIntegral.integral_Iic_sub_Iic (hint 0) (hint x), ← Phi_eq_integral,
    ← Phi_eq_integral]
  ring

theorem Phi_hasDerivAt (x : ℝ) : HasDerivAt Phi (phi x) x := by
  have h : HasDerivAt (fun u ↦ Phi 0 + ∫ t in (0 : ℝ)..u, phi t) (phi x) x :=
    ((phi_continuous.integral_hasStrictDerivAt 0 x).hasDerivAt).const_add (Phi 0)
  have heq : Phi = fun u ↦ Phi 0 + ∫ t in (0 : ℝ)..u, phi t := funext Phi_eq_add_intervalIntegral
  rw [heq]
  exact h

theorem Phi_continuous : Continuous Phi :=
  continuous_iff_continuousAt.2 fun x ↦ (Phi_hasDerivAt x).continuousAt

/-! ### Group 7: inverse on (0,1) -/

theorem Phi_tendsto_atBot : Tendsto Phi atBot (𝓝 0) := tendsto_cdf_atBot _

theorem Phi_tendsto_atTop : Tendsto Phi atTop (𝓝 1) := tendsto_cdf_atTop _

theorem Phi_exists_unique_inverse (p : ℝ) (hp0 : 0 < p) (hp1 : p < 1) : ∃! x, Phi x = p := by
  obtain ⟨a, ha⟩ : ∃ a, Phi a < p :=
    ((Phi_tendsto_atBot.eventually (gt_mem_nhds hp0))).exists
  obtain ⟨b, hb⟩ : ∃ b, p < Phi b :=
    ((Phi_tendsto_atTop.eventually (lt_mem_nhds hp1))).exists
  have hmem : p ∈ Icc (Phi a) (Phi b) := ⟨ha.le, hb.le⟩
  obtain ⟨x, hx⟩ := intermediate_value_univ a b Phi_continuous hmem
  exact ⟨x, hx, fun y hy ↦ Phi_strictMono.injective (hy.trans hx.symm)⟩

/-! ### Group 8a: Gordon's Mills-ratio bound -/

theorem phi_eq (t : ℝ) : phi t = (√(2 * Real.pi))⁻¹ * Real.exp (-(t ^ 2 / 2)) := by
  simp [phi, gaussianPDFReal, neg_div]

theorem phi_hasDerivAt (t : ℝ) : HasDerivAt phi (-t * phi t) t := by
  have h1 : HasDerivAt (fun t : ℝ ↦ -(t ^ 2 / 2)) (-t) t := by
    have := ((hasDerivAt_pow 2 t).div_const 2).neg
    exact this.congr_deriv (by simp)
  have h2 := (h1.exp).const_mul ((√(2 * Real.pi))⁻¹)
  have heq : phi = fun t ↦ (√(2 * Real.pi))⁻¹ * Real.exp (-(t ^ 2 / 2)) := funext phi_eq
  rw [heq]
  exact h2.congr_deriv (by ring)

theorem phi_tendsto_atTop : Tendsto phi atTop (𝓝 0) := by
  have h1 : Tendsto (fun t : ℝ ↦ t ^ 2 / 2) atTop atTop :=
    (tendsto_pow_atTop (by norm_num)).atTop_div_const (by norm_num)
  have h2 : Tendsto (fun t : ℝ ↦ -(t ^ 2 / 2)) atTop atBot := tendsto_neg_atTop_atBot.comp h1
  have h3 : Tendsto (fun t : ℝ ↦ Real.exp (-(t ^ 2 / 2))) atTop (𝓝 0) :=
    Real.tendsto_exp_atBot.comp h2
  have h4 := h3.const_mul ((√(2 * Real.pi))⁻¹)
  rw [mul_zero] at h4
  have heq : phi = fun t ↦ (√(2 * Real.pi))⁻¹ * Real.exp (-(t ^ 2 / 2)) := funext phi_eq
  rw [heq]
  exact h4

theorem gamma_real_eq_integral (s : Set ℝ) : (γ).real s = ∫ t in s, phi t := by
  rw [measureReal_def, gaussianReal_apply_eq_integral 0 one_ne_zero, ENNReal.toReal_ofReal]
  · rfl
  · exact integral_nonneg (fun t ↦ gaussianPDFReal_nonneg 0 1 t)

theorem one_sub_Phi_eq_integral (y : ℝ) : 1 - Phi y = ∫ t in Ioi y, phi t := by
  rw [one_sub_Phi_eq, gamma_real_eq_integral]

theorem integral_Ioi_mul_phi {y : ℝ} (hy : 0 ≤ y) : ∫ t in Ioi y, t * phi t = phi y := by
  have h := integral_Ioi_of_hasDerivAt_of_nonneg' (g := fun t ↦ -phi t)
    (g' := fun t ↦ t * phi t) (a := y) (l := 0)
    (fun x _ ↦ ((phi_hasDerivAt x).neg).congr_deriv (by ring))
    (fun x hx ↦ mul_nonneg (hy.trans (le_of_lt hx)) (phi_pos x).le)
    (by simpa using phi_tendsto_atTop.neg)
  simpa using h

theorem integrableOn_Ioi_mul_phi {y : ℝ} (hy : 0 ≤ y) :
    IntegrableOn (fun t ↦ t * phi t) (Ioi y) volume :=
  integrableOn_Ioi_deriv_of_nonneg' (g := fun t ↦ -phi t)
    (g' := fun t ↦ t * phi t) (a := y) (l := 0)
    (fun x _ ↦ ((phi_hasDerivAt x).neg).congr_deriv (by ring))
    (fun x hx ↦ mul_nonneg (hy.trans (le_of_lt hx)) (phi_pos x).le)
    (by simpa using phi_tendsto_atTop.neg)

/-- weak form of Gordon's inequality -/
theorem mills_le {y : ℝ} (hy : 0 ≤ y) : y * (1 - Phi y) ≤ phi y := by
  rw [one_sub_Phi_eq_integral, ← integral_Ioi_mul_phi hy, ← integral_const_mul]
  apply setIntegral_mono_on
  · exact ((integrable_gaussianPDFReal 0 1).integrableOn).const_mul y
  · exact integrableOn_Ioi_mul_phi hy
  · exact measurableSet_Ioi
  · intro t ht
    exact mul_le_mul_of_nonneg_right (le_of_lt ht) (phi_pos t).le

theorem mills_gap_hasDerivAt (y : ℝ) :
    HasDerivAt (fun y ↦ phi y - y * (1 - Phi y)) (-(1 - Phi y)) y := by
  have h1 : HasDerivAt (fun y ↦ 1 - Phi y) (-phi y) y := (Phi_hasDerivAt y).const_sub 1
  have h2 := (hasDerivAt_id y).mul h1
  have h3 := (phi_hasDerivAt y).sub h2
  exact h3.congr_deriv (by simp only [id]; ring)

theorem mills_gap_strictAnti : StrictAnti (fun y ↦ phi y - y * (1 - Phi y)) :=
  strictAnti_of_hasDerivAt_neg (f' := fun y ↦ -(1 - Phi y)) mills_gap_hasDerivAt
    (fun y ↦ by have := Phi_lt_one y; linarith)

/-- Gordon's inequality (Mills-ratio lower bound), strict form. -/
theorem mills_lt {y : ℝ} (hy : 0 < y) : y * (1 - Phi y) < phi y := by
  have h1 : phi (y + 1) - (y + 1) * (1 - Phi (y + 1)) < phi y - y * (1 - Phi y) :=
    mills_gap_strictAnti (by linarith : y < y + 1)
  have h2 := mills_le (y := y + 1) (by linarith)
  linarith

end PyvcPhi

#print axioms PyvcPhi.mills_lt
#print axioms PyvcPhi.Phi_exists_unique_inverse
#print axioms PyvcPhi.Phi_reflect

/- Dropped theorems: none.  All of groups 1-8 (including both stretch goals: the unique
   inverse on (0,1), Gordon's strict Mills-ratio bound `mills_lt`, and `Phi_hasDerivAt`)
   are fully proved above; the three `#print axioms` lines show only the standard
   Lean/Mathlib axioms (propext, Classical.choice, Quot.sound). -/
