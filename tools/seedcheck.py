"""usage: python3 tools/seedcheck.py <seed dir with patch.diff, demo.py> <property id> [--checks C01,C05,...] [--save <name>]

Confirms a seeded change independently (scratch copy outside /repo and /verif): the patch applies, the 101 tests
pass with it, the demonstration fails with it and passes without it; then runs the listed quick checks (default: the
property's own) against the changed copy and reports which raise an alarm.  With --save the seed is stored under
/verif/seeded/<name>/ with meta.json.  The scratch copy is removed afterwards."""
import json, os, shutil, subprocess, sys, tempfile, time

VERIF = os.path.dirname(os.path.dirname(os.path.abspath(__file__)))


def sh(cmd, **kw):
    return subprocess.run(cmd, shell=True, capture_output=True, text=True, **kw)


def main():
    seed, prop = sys.argv[1], sys.argv[2]
    checks = [prop]
    save = None
    if "--checks" in sys.argv:
        checks = sys.argv[sys.argv.index("--checks") + 1].split(",")
    if "--save" in sys.argv:
        save = sys.argv[sys.argv.index("--save") + 1]
    d = tempfile.mkdtemp(prefix="seedcheck_", dir="/tmp")
    meta = {"property": prop, "ran": []}
    try:
        sh(f"cd /repo && git archive HEAD | tar -x -C {d}")
        r = sh(f"cd {d} && git apply --unsafe-paths -p1 {os.path.abspath(seed)}/patch.diff 2>&1 || patch -p1 < {os.path.abspath(seed)}/patch.diff")
        meta["patch_applies"] = r.returncode == 0
        if r.returncode != 0:
            print("PATCH FAILED", r.stdout, r.stderr)
            return 2
        t = sh(f"cd {d} && PYTHONPATH={d} /venv/bin/python -m pytest -q -p no:cacheprovider 2>&1 | tail -1")
        meta["tests_with_change"] = t.stdout.strip()
        meta["ran"].append(f"cd <scratch> && PYTHONPATH=<scratch> /venv/bin/python -m pytest -q -p no:cacheprovider  ->  {t.stdout.strip()}")
        a = sh(f"OPENSKILL_SRC={d} /venv/bin/python {os.path.abspath(seed)}/demo.py")
        b = sh(f"OPENSKILL_SRC=/repo /venv/bin/python {os.path.abspath(seed)}/demo.py")
        meta["demo_exit_with_change"], meta["demo_exit_without"] = a.returncode, b.returncode
        meta["demo_output_with_change"] = (a.stdout + a.stderr).strip()[-400:]
        meta["ran"].append(f"OPENSKILL_SRC=<scratch> /venv/bin/python demo.py -> exit {a.returncode}; OPENSKILL_SRC=/repo -> exit {b.returncode}")
        print("tests:", meta["tests_with_change"], "| demo with change:", a.returncode, "without:", b.returncode)
        caught = {}
        for c in checks:
            t0 = time.time()
            env = dict(os.environ, PYVC_REPO=d, PYVC_EVIDENCE_DIR=os.path.join(d, "_ev"), PYVC_REPLAY_DIR=os.path.join(d, "_rp"))
            p = subprocess.run(f"cd {VERIF} && timeout 1500 python3-vt -m pyvc.check {c} --tier quick", shell=True, capture_output=True, text=True, env=env)
            lines = [l for l in p.stdout.splitlines() if l.startswith("VIOLATION") or l.startswith("# failed") or l.startswith("#   REPRODUCED") or l.startswith("ENGINE")]
            viol = [l for l in p.stdout.splitlines() if l.startswith("VIOLATION")]
            caught[c] = {"exit": p.returncode, "violations": len(viol), "reproduced": sum("no-failing-input-found" not in l for l in viol),
                         "first": [l[:260].replace(d, "<scratch>") for l in lines[:4]], "wall_s": round(time.time() - t0, 1)}
            print(f"check {c}: exit {p.returncode}, {len(viol)} VIOLATION lines ({caught[c]['reproduced']} with replayed input), {caught[c]['wall_s']}s")
            for l in caught[c]["first"]:
                print("    " + l)
        meta["checks"] = caught
        if save:
            out = os.path.join(VERIF, "seeded", save)
            os.makedirs(out, exist_ok=True)
            if os.path.realpath(seed) != os.path.realpath(out):     # re-evaluating a stored seed in place
                shutil.copy(os.path.join(seed, "patch.diff"), out)
                shutil.copy(os.path.join(seed, "demo.py"), out)
                if os.path.exists(os.path.join(seed, "notes.md")):
                    shutil.copy(os.path.join(seed, "notes.md"), out)
            meta["breaks"] = prop
            with open(os.path.join(out, "meta.json"), "w") as fh:
                json.dump(meta, fh, indent=1)
            print("saved to", out)
    finally:
        shutil.rmtree(d, ignore_errors=True)
    return 0


if __name__ == "__main__":
    sys.exit(main())
