#!/bin/sh
# usage: tools/stability.sh [rounds]  -- every quick check under several PYTHONHASHSEED / VERIF_SEED values; prints any run that is not clean
R=${1:-3}
for p in C01 C02 C03 C04 C05 C06 C07 C08 C09 C10 C11 C12 C13 C14 C15 C16 C17 C18 C19 C20; do
  for i in $(seq 1 $R); do
    out=$(PYTHONHASHSEED=$((i*7919)) VERIF_SEED=$i PYVC_EVIDENCE_DIR=/tmp/stab_ev timeout 1500 python3-vt -m pyvc.check $p 2>&1 | grep -E "^(VIOLATION|ENGINE|C[0-9]+ \[)")
    echo "$out" | tail -1 | grep -q "violations=0 known=[01] engine_errors=0" || { echo "UNSTABLE $p seed=$i"; echo "$out" | cut -c1-200; }
  done
  echo "$p ok ($R rounds)"
done
echo STABILITY-DONE
