"""prints the markdown table of seeded changes (from seeded/*/meta.json)"""
import json, glob, os
rows = []
for d in sorted(glob.glob(os.path.join(os.path.dirname(os.path.dirname(os.path.abspath(__file__))), "seeded", "*"))):
    mp = os.path.join(d, "meta.json")
    if not os.path.exists(mp):
        continue
    m = json.load(open(mp))
    notes = ""
    np_ = os.path.join(d, "notes.md")
    if os.path.exists(np_):
        notes = " ".join(open(np_).read().split())[:170]
    caught = []
    for c, r in m.get("checks", {}).items():
        fam = ""
        for l in r.get("first", []):
            if l.startswith("# failed obligation"):
                fam = l.split("# failed obligation ")[1].split(" (")[0].split("@")[0]
                break
        caught.append(f"{c}: {'alarm' if r['exit'] == 1 else 'silent'}" + (f" ({r['reproduced']}/{r['violations']} replayed; `{fam}`)" if r["exit"] == 1 else ""))
    if m.get("breaks") is None:
        rows.append(f"| `{os.path.basename(d)}` | none (negative control) | {m.get('tests_with_change', '')} | {m.get('result', '')} |")
        continue
    rows.append(f"| `{os.path.basename(d)}` | {m['breaks']} | {m.get('tests_with_change', '')} | " + "; ".join(caught) + " |")
print("| seeded change | property | tests with the change | quick checks run against it |")
print("|---|---|---|---|")
print("\n".join(rows))
