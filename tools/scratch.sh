#!/bin/sh
# usage: tools/scratch.sh <dir>   -- fresh copy of /repo's HEAD working tree at <dir> (outside /repo and /verif)
set -e
rm -rf "$1"; mkdir -p "$1"; cd /repo && git archive HEAD | tar -x -C "$1"
