"""usage: python3 tools/negcontrol.py <dir with patch.diff [notes.md, diff.py]> <name> [--tier quick]

Negative control: applies a behaviour-preserving patch to a scratch copy of /repo, runs the
101 tests and ALL twenty checks against the copy; every check must exit 0 with no VIOLATION
line and no engine error.  Stores the patch and the outcome under seeded/<name>/."""
import json
import os
import shutil
import subprocess
import sys
import tempfile
import time

VERIF = os.path.dirname(os.path.dirname(os.path.abspath(__file__)))
IDS = [f"C{i:02d}" for i in range(1, 21)]


def sh(cmd, **kw):
    return subprocess.run(cmd, shell=True, capture_output=True, text=True, **kw)


def main():
    src, name = sys.argv[1], sys.argv[2]
    tier = sys.argv[sys.argv.index("--tier") + 1] if "--tier" in sys.argv else "quick"
    d = tempfile.mkdtemp(prefix="pyvc_neg_")
    meta = {"breaks": None, "kind": "negative control: behaviour-preserving refactor (no property is broken; every check must stay silent)", "ran": []}
    try:
        sh(f"cd /repo && git archive HEAD | tar -x -C {d}")
        r = sh(f"cd {d} && git apply --unsafe-paths -p1 {os.path.abspath(src)}/patch.diff 2>&1 || patch -p1 < {os.path.abspath(src)}/patch.diff")
        if r.returncode != 0:
            print("PATCH FAILED", r.stdout, r.stderr)
            return 2
        t = sh(f"cd {d} && PYTHONPATH={d} /venv/bin/python -m pytest -q -p no:cacheprovider 2>&1 | tail -1")
        meta["tests_with_change"] = t.stdout.strip()
        print("tests:", meta["tests_with_change"], flush=True)
        checks = {}
        for c in IDS:
            t0 = time.time()
            env = dict(os.environ, PYVC_REPO=d, PYVC_EVIDENCE_DIR=os.path.join(d, "_ev"), PYVC_REPLAY_DIR=os.path.join(d, "_rp"))
            p = subprocess.run(f"cd {VERIF} && timeout 3000 python3-vt -m pyvc.check {c} --tier {tier}", shell=True, capture_output=True, text=True, env=env)
            lines = [l for l in p.stdout.splitlines() if l.startswith("VIOLATION") or l.startswith("# failed") or l.startswith("#   REPRODUCED") or l.startswith("ENGINE")]
            viol = [l for l in p.stdout.splitlines() if l.startswith("VIOLATION")]
            checks[c] = {"exit": p.returncode, "violations": len(viol), "reproduced": sum("no-failing-input-found" not in l for l in viol),
                         "first": [l[:260].replace(d, "<scratch>") for l in lines[:4]], "wall_s": round(time.time() - t0, 1)}
            print(f"check {c}: exit {p.returncode}, {len(viol)} VIOLATION lines, {checks[c]['wall_s']}s", flush=True)
            for l in checks[c]["first"]:
                print("    " + l)
        meta["checks"] = checks
        meta["ran"].append(f"scratch copy outside /repo and /verif; for every property: PYVC_REPO=<scratch> python3-vt -m pyvc.check <id> --tier {tier}")
        silent = all(v["exit"] == 0 and v["violations"] == 0 for v in checks.values())
        meta["result"] = ("all twenty checks exit 0 with no VIOLATION line and no engine error" if silent else
                          "NOT SILENT: " + ", ".join(f"{c} exit {v['exit']}" for c, v in checks.items() if v["exit"] != 0))
        out = os.path.join(VERIF, "seeded", name)
        os.makedirs(out, exist_ok=True)
        for f in ("patch.diff", "notes.md", "diff.py"):
            if os.path.exists(os.path.join(src, f)) and os.path.realpath(src) != os.path.realpath(out):
                shutil.copy(os.path.join(src, f), out)
        with open(os.path.join(out, "meta.json"), "w") as fh:
            json.dump(meta, fh, indent=1)
        print(meta["result"])
        return 0 if silent else 1
    finally:
        shutil.rmtree(d, ignore_errors=True)


if __name__ == "__main__":
    sys.exit(main())
