"""usage: mut.py <scratchdir> <relpath|ALL> <old> <new> [count]  -- textual mutation in a scratch copy"""
import sys, os
d, rel, old, new = sys.argv[1:5]
cnt = int(sys.argv[5]) if len(sys.argv) > 5 else None
files = [rel] if rel != "ALL" else ["openskill/models/weng_lin/%s.py" % f for f in
    ("plackett_luce","bradley_terry_full","bradley_terry_part","thurstone_mosteller_full","thurstone_mosteller_part")]
old = old.encode().decode("unicode_escape"); new = new.encode().decode("unicode_escape")
for f in files:
    p = os.path.join(d, f); s = open(p).read()
    n = s.count(old)
    assert n >= 1 and (cnt is None or n == cnt), (f, n)
    open(p, "w").write(s.replace(old, new))
    print("mutated", f, n)
