"""usage: python3 tools/reseed.py [name-prefix ...]

Re-evaluates stored seeded changes (seeded/<name>/) against the *current* checks: the same
checks that meta.json lists are re-run on a fresh scratch copy with the patch applied and
meta.json is rewritten.  Run after a check or the engine changed, then tools/seedtable.py."""
import json
import os
import subprocess
import sys

VERIF = os.path.dirname(os.path.dirname(os.path.abspath(__file__)))


def main():
    pref = sys.argv[1:]
    root = os.path.join(VERIF, "seeded")
    for name in sorted(os.listdir(root)):
        d = os.path.join(root, name)
        mp = os.path.join(d, "meta.json")
        if not os.path.exists(mp) or (pref and not any(name.startswith(p) for p in pref)):
            continue
        meta = json.load(open(mp))
        prop = meta.get("breaks") or meta.get("property")
        checks = list((meta.get("checks") or {}).keys())
        if not prop or not checks:
            continue
        print("#####", name, prop, checks, flush=True)
        subprocess.run([sys.executable, os.path.join(VERIF, "tools", "seedcheck.py"), d, prop, "--checks", ",".join(checks), "--save", name])


if __name__ == "__main__":
    main()
